# per-property claims: claim(id, assurance text, trusted base / assumptions, technique)
TB = ("Trusted: rustc nightly front end (name resolution, type check, MIR construction), std/serde/dependency contracts, "
      "the rule engine and the spec tables (self-tested by fixtures and mutants). Default features, host target, non-test code only.")

claim("C03",
      "Decides the structural clauses of the call pipeline for every path in the source: no accessor hands out the Box instead of the boxed per-call context (all Unsize casts to dyn Any in the workspace), the context created by context() is the one passed to every check_param and stored/forwarded to return_type and compile, every iterator chain carrying arguments preserves order and elements, caller arguments precede defaults, absent map-each results are dropped, concat skips absences in order. Values computed at run time are not decided.",
      TB + " User FunctionDefinition implementations are outside the claim.",
      "MIR cast census + HIR def-use/iterator-chain rules")
claim("C06",
      "Decides: every from_str_radix in the literal lexers only yields a value for digit-validated text (provenance through take_while predicates / dominating all-digits guard), prefix->radix, escape, separator and digit-count tables equal the documented ones, no lossy integer cast in any lexer function, checked conversions for indexes/hash counts, ordered same-family range guards. Not decided: round-trip equality and consumed length.",
      TB, "HIR provenance + table extraction + MIR cast census")
claim("C14",
      "Decides: explicit panic sites reachable (call graph) from every Deserialize/DeserializeSeed/Visitor impl are within a reviewed allow-list; values are stored only under a dominating full type comparison / through the checked setter; no borrowed-only &str/&[u8] request; emitted shapes are accepted by the matching visitor; literal keys agree. Round-trip equality is not decided.",
      TB + " Panics inside dependencies and implicit bounds/overflow checks are out of scope.",
      "call-graph reachability with allow-list + HIR sibling/table rules")
claim("C15",
      "Decides: no explicit panic reachable from Type/CompoundType/Scheme deserializers (over-deep input must be an error), no borrowed-only key request in the scheme deserializer, the engine's and the C API's layer bit-packing extract to the same documented table, conversion arm tables are mutually inverse, duplicate-name errors are propagated. Round trip over all types follows only under these table semantics.",
      TB, "call-graph reachability + sibling table agreement (engine vs C API)")
claim("C17",
      "Decides: the built-in matchers are the documented constants on every MIR path, the list-name alphabet extracted from the lexer equals {a-z,0-9,_,.} with empty/leading/trailing-dot rejection, matcher table creation and all index sites use the registration index, the compiled comparison calls match_value(name, value) on the matcher of the parsed list, absent -> false, clear() clears every matcher, `$lists` keys agree. User matchers are outside the claim.",
      TB, "MIR constant-return + HIR table/sibling rules")
claim("C20",
      "Decides for every extern \"C\" function: the status written in each catch_panic outcome arm and in every *::ERROR/*::PANIC constant, that every failure-valued return path is preceded by a write of the thread-local last-error (helpers recognised when all their failure paths write it), that engine entry points which can run user code are called only inside catch_panic, the NUL-substitution and terminator structure of the error string, checked UTF-8 on caller memory, thread-locality of the error slot and the wrapper->engine delegation table. Equality of texts with the Rust API is not decided.",
      TB + " Behaviour on invalid pointers is outside the claim.",
      "HIR return-path rule + table rules over extern \"C\" functions")
claim("C04",
      "Decides the typing tables and their agreement: the admitted (left type x operator) matrix and the literal kind per arm, that every Compare implementation casts the value to the variant the parser admitted for its operator, that the (container, index kind) table is the same in the parser, in static typing and in the run-time accessors, that each documented typing check precedes the only construction of the corresponding node, and that logical nodes have static type Bool or Array(Bool). Exact acceptance of arbitrary compositions and panic-freedom of all accepted programs are not decided.",
      TB + " User check_param implementations are outside the claim.",
      "HIR match-arm table extraction + sibling agreement + preceding-guard rules")
claim("C01",
      "Decides every finite table that fixes operator meaning, on all entries: operator spellings (33) and shadowing, the ordering masks constant-folded into the 6x4 truth table, the Rust operator of each of the 18 generated comparison bodies tied to its match arm, IP family separation, the absent-value default of all compile_with sites (false except `!=` -> nil-not-equal setting), setter/getter/default of that setting, the and/or/xor/not compilation tables, precedence order + recursion guard + flattening, `not` binding. Arithmetic in core is trusted; run-time composition is not decided.",
      TB, "HIR match-arm / macro-expansion table extraction vs. spec tables, constant folding")
claim("C05",
      "Decides bounded parser recursion for all inputs: every cycle of the monomorphic call graph reachable from all parser entry points either spends nesting budget (+1 edge), is the precedence self-recursion guarded by a strict operator increase (depth <= 3), or is structural descent over a built AST; any other cycle is reported. Also: no error value with a constant span, ParseError::new fed with the lexed input. Char-boundary safety of slices, loop termination and Display arithmetic are not decided.",
      TB + " Calls through dyn FunctionDefinition are user code and are not followed.",
      "monomorphic call graph SCC classification + interprocedural nesting-delta analysis")
claim("C13",
      "Decides the first sentence for all inputs and all limits: on every path the content of each of the four nesting constructs (all entry points) is lexed with a parser whose counter was increased exactly once, every other parser-passing edge carries 0, the limit test is `>=` with +1 on a clone, the counter has no other writer, the default is 128; recursive AST nodes are built only where budget is spent, which bounds AST depth for compile/execute/serialize/hash/drop.",
      TB + " Flow-insensitive value-set analysis (over-approximates the deltas possible on a path).",
      "interprocedural abstract interpretation (nesting-delta value sets) over mono MIR")
claim("C19",
      "Decides the structural clauses on all paths: catch_panic decrements the level exactly once, unconditionally, after catch_unwind and before inspecting its result, iff start_catching() incremented it; disabled catching runs f transparently; level/enabled cells have no other writers and abort on overflow; all state but the hook flag is thread-local; the hook records iff level > 0, else forwards to the hook captured before installation or aborts; the recorded text contains the payload. The install race and backtrace text are not decided.",
      TB + " std::panic::catch_unwind/set_hook semantics are trusted.",
      "HIR path/pairing rule + who-may-write census of thread-locals")
claim("C08",
      "Decides the typed-store invariant inductively over all writers (so for every operation history): all functions writing ExecutionContext state fit a reviewed writer pattern; the two setters store only under a dominating full `Type == Type` test of the stored value against the field's type (after the scheme-identity test), return the replaced value and write nothing on failure; execute() runs the closure only under scheme identity (Arc::ptr_eq); every site where a value enters Array/Map storage is typed, guarded or an identity copy; the borrow guard restores exactly what it took; clear() empties all.",
      TB + " Field privacy is enforced by rustc (witnesses in the thorough tier).",
      "who-may-write census + guard-dominance rules over HIR")
claim("C16",
      "Decides for every operation history (inductive who-may-write + dominance): registry collections are mutated only by the three adders, each pushing exactly once in the Vacant arm of the complete-key entry and recording the pre-push length as index, Occupied mutates nothing and reports the kind found; a built Scheme (Arc<SchemeBuilder>) is never mutated; identifiers are resolved by one exact HashMap::get of the maximal dotted run and get_field/get_function accept only their kind; reference objects carry registry indexes; equality is pointer identity.",
      TB + " HashMap/Fnv behaviour is trusted.",
      "who-may-write census + entry-arm dominance rules over HIR")
claim("C12",
      "Decides exhaustiveness of the AST walk from types: every child from which a Field is reachable is bound and forwarded in its own arm of all 14 walk/walk_mut implementations over the whole collection; default visitor methods forward to walk; the usage visitors only add the early-exit guard and set the flag under field equality; uses_list counts a field only inside an InList comparison and keeps walking; the four entry points resolve the name first and return an error for unknown names.",
      TB, "ADT field-reachability vs. walk bodies (HIR), visitor table rules")
claim("C09",
      "Necessary-condition check, stated as such: RangeSet has exactly one constructor, which sorts the adopted vector by range start and then merges overlaps before the set exists; collect() funnels into it; the binary search is used only by contains(); IPv4 and IPv6 ranges are split by address family into separately typed sets and looked up by family; byte strings use an ordered-set lookup; absent value -> false. The interval arithmetic of the merge closure and the comparator is NOT decided.",
      TB, "who-may-construct + preceding-call (sort, merge) rules over HIR")
claim("C10",
      "Decides the specialisation table and gating on all arms: length k in 2..=16 selects slice_to_array::<k>/ArraySearcher<k> (15 arms, const generics resolved by rustc), other lengths the boxed searcher, empty -> constant true, one byte -> memchr, fallback -> memmem; the anchor is drawn from the exclusive range 1..len after the short-pattern returns; all 32 AVX2 constructions and the two search call sites are inside the `*USE_AVX2` branch whose initialiser is feature-detection && !opt-out; absent -> false. Correctness of sliceslice/memchr and agreement between paths are not decided.",
      TB + " wasm32 path not compiled on the host.",
      "match-arm/const-generic table extraction + gate dominance over HIR")
claim("C11",
      "Decides the configuration clauses: the regex syntax/meta builder chains carry unicode(false), utf8(false), LeftmostFirst, utf8_empty(false) and the limits from the parser settings, is_match is the unanchored byte search; wildcard builder: `?` disabled, case_insensitive(!STRICT), whole-value is_match; validate (count > limit, `**`) precedes construction and all failures are parse errors; operator->Wildcard<STRICT> wiring; the only quoted-regex rewrite is dropping the backslash before a quote outside a class. Engine semantics are trusted.",
      TB + " regex-automata and wildcard crate semantics are trusted.",
      "builder-chain constant extraction (HIR) vs. spec")
claim("C02",
      "Thin claim, stated plainly: decides the any/all reduction table and the false default for an absent boolean-array value, element-wise combination with truncation to the shorter operand in all three vector arms (and their agreement), element-wise not, the empty result for an absent container in every vector strategy, whole-collection in-order iteration, Option-returning (non-panicking) index/key access, BTreeMap storage (ascending keys) and the (container, index kind) tables shared with C04. The MapEachIterator traversal (row-major order, flattening) and the agreement of the three strategies are NOT decided.",
      TB, "HIR table extraction + sibling agreement of the three vector arms")
claim("C07",
      "Decides: the alias table (33 spellings -> unit variants, no shadowing), the whitespace set, unit-only operator enums and absence of source text in AST nodes, Eq=>Hash for all hand-written Hash impls, pairwise-distinct operator names reaching JSON (one per variant), JSON fields == compared fields for nodes with skipped fields, parser flattening of same-operator chains, and that the C-API hash hashes exactly the JSON byte stream. That the JSON is the canonical document of an arbitrary tree and FNV arithmetic are not decided.",
      TB + " Derived serde impls and serde_json are trusted.",
      "HIR/ADT table rules + sibling (eq/hash/serialize) agreement")
claim("C18",
      "Data-race freedom and absence of shared mutable state in this repository's code, by the type checker: 35+ compile_fail witnesses with compiling twins show that closures, comparators, user functions, compiled functions and per-call contexts holding thread-unsafe state (Send-only, Sync-only and neither) are rejected and that every shareable type is Send + Sync; census rules: no `unsafe impl Send/Sync`, statics limited to the reviewed set with no writer of USE_AVX2, the only interiorly mutable state capturable by a compiled filter is the regex scratch pool and reference counts, execute() takes shared references. Determinism across recompilations (random SIMD anchor) and user callbacks are not decided.",
      "Trusted: rustc's auto-trait/borrow checking, std, dependencies' unsafe code and contracts (regex pool independence), this repository's unsafe blocks as enumerated in the evidence, the reviewed allow-lists.",
      "compile_fail type-level witnesses + impl/static/interior-mutability census", category="proof")
