//! Resolved HIR expression trees for every body.
use crate::json::J;
use crate::util::*;
use rustc_hir as hir;
use rustc_hir::def::{DefKind, Res};
use rustc_hir::def_id::LocalDefId;
use rustc_middle::ty::{self, TyCtxt, TypeckResults};

pub struct Dumper<'tcx> {
    tcx: TyCtxt<'tcx>,
    tr: &'tcx TypeckResults<'tcx>,
}

pub fn all_bodies<'tcx>(tcx: TyCtxt<'tcx>) -> J {
    let mut out = Vec::new();
    for ldid in tcx.hir_body_owners() {
        let kind = tcx.def_kind(ldid);
        // closures are dumped inline inside their parent body, and also get their own entry
        let body = match tcx.hir_maybe_body_owned_by(ldid) {
            Some(b) => b,
            None => continue,
        };
        let tr = tcx.typeck(ldid);
        let d = Dumper { tcx, tr };
        let mut o = J::obj();
        o.push(("path", J::s(defpath(tcx, ldid.to_def_id()))));
        o.push(("dp", J::s(dp(tcx, ldid.to_def_id()))));
        o.push(("kind", J::s(format!("{:?}", kind))));
        o.push(("span", sp(tcx, tcx.def_span(ldid))));
        if kind == DefKind::Closure {
            // body is already nested in the parent's tree; keep only a pointer to keep files small
            out.push(J::Obj(o));
            continue;
        }
        o.push(("params", J::Arr(body.params.iter().map(|p| d.pat(p.pat)).collect())));
        o.push(("body", d.expr(body.value)));
        out.push(J::Obj(o));
    }
    J::Arr(out)
}

impl<'tcx> Dumper<'tcx> {
    fn res(&self, res: Res) -> J {
        let tcx = self.tcx;
        match res {
            Res::Local(id) => J::Obj(vec![
                ("r", J::s("local")),
                ("name", J::s(tcx.hir_name(id).to_string())),
                ("id", J::s(format!("{}", id.local_id.as_u32()))),
            ]),
            Res::Def(kind, did) => {
                let mut o = vec![
                    ("r", J::s("def")),
                    ("dk", J::s(format!("{:?}", kind))),
                    ("path", J::s(defpath(tcx, did))),
                ];
                // for variant constructors also give the variant and enum
                match kind {
                    DefKind::Ctor(..) => {
                        let parent = tcx.parent(did);
                        o.push(("of", J::s(defpath(tcx, parent))));
                        o.push(("of_kind", J::s(format!("{:?}", tcx.def_kind(parent)))));
                    }
                    _ => {}
                }
                J::Obj(o)
            }
            Res::SelfTyAlias { alias_to, .. } => J::Obj(vec![
                ("r", J::s("selfty")),
                ("path", J::s(defpath(tcx, alias_to))),
            ]),
            Res::SelfCtor(did) => J::Obj(vec![("r", J::s("selfctor")), ("path", J::s(defpath(tcx, did)))]),
            Res::PrimTy(p) => J::Obj(vec![("r", J::s("prim")), ("name", J::s(p.name_str()))]),
            other => J::Obj(vec![("r", J::s("other")), ("dbg", J::s(format!("{:?}", other)))]),
        }
    }

    fn qpath(&self, qp: &hir::QPath<'tcx>, id: hir::HirId) -> J {
        self.res(self.tr.qpath_res(qp, id))
    }

    fn lit(&self, l: &hir::Lit) -> J {
        use rustc_ast::LitKind::*;
        match &l.node {
            Str(s, _) => J::Obj(vec![("t", J::s("str")), ("v", J::s(s.to_string()))]),
            ByteStr(b, _) => J::Obj(vec![
                ("t", J::s("bytes")),
                ("v", J::Arr(b.as_byte_str().iter().map(|x| J::Num(*x as i128)).collect())),
            ]),
            CStr(b, _) => J::Obj(vec![
                ("t", J::s("cstr")),
                ("v", J::Arr(b.as_byte_str().iter().map(|x| J::Num(*x as i128)).collect())),
            ]),
            Byte(b) => J::Obj(vec![("t", J::s("byte")), ("v", J::Num(*b as i128))]),
            Char(c) => J::Obj(vec![("t", J::s("char")), ("v", J::s(c.to_string()))]),
            Int(n, _) => J::Obj(vec![("t", J::s("int")), ("v", J::Num(n.get() as i128))]),
            Float(s, _) => J::Obj(vec![("t", J::s("float")), ("v", J::s(s.to_string()))]),
            Bool(b) => J::Obj(vec![("t", J::s("bool")), ("v", J::Bool(*b))]),
            Err(_) => J::Obj(vec![("t", J::s("err"))]),
        }
    }

    pub fn pat(&self, p: &hir::Pat<'tcx>) -> J {
        let tcx = self.tcx;
        let mut o = J::obj();
        let kind;
        match &p.kind {
            hir::PatKind::Wild => kind = "PWild",
            hir::PatKind::Missing => kind = "PMissing",
            hir::PatKind::Never => kind = "PNever",
            hir::PatKind::Binding(mode, id, ident, sub) => {
                 kind = "PBinding";
                o.push(("name", J::s(ident.name.to_string())));
                o.push(("id", J::s(format!("{}", id.local_id.as_u32()))));
                o.push(("mode", J::s(format!("{:?}", mode))));
                if let Some(s) = sub {
                    o.push(("sub", self.pat(s)));
                }
            }
            hir::PatKind::Struct(qp, fields, rest) => {
                kind = "PStruct";
                o.push(("res", self.qpath(qp, p.hir_id)));
                o.push((
                    "fields",
                    J::Arr(
                        fields
                            .iter()
                            .map(|f| {
                                J::Obj(vec![("name", J::s(f.ident.name.to_string())), ("pat", self.pat(f.pat))])
                            })
                            .collect(),
                    ),
                ));
                o.push(("rest", J::Bool(rest.is_some())));
            }
            hir::PatKind::TupleStruct(qp, pats, ddpos) => {
                kind = "PTupleStruct";
                o.push(("res", self.qpath(qp, p.hir_id)));
                o.push(("pats", J::Arr(pats.iter().map(|x| self.pat(x)).collect())));
                if let Some(n) = ddpos.as_opt_usize() {
                    o.push(("ddpos", J::Num(n as i128)));
                }
            }
            hir::PatKind::Or(pats) => {
                kind = "POr";
                o.push(("pats", J::Arr(pats.iter().map(|x| self.pat(x)).collect())));
            }
            hir::PatKind::Tuple(pats, ddpos) => {
                kind = "PTuple";
                o.push(("pats", J::Arr(pats.iter().map(|x| self.pat(x)).collect())));
                if let Some(n) = ddpos.as_opt_usize() {
                    o.push(("ddpos", J::Num(n as i128)));
                }
            }
            hir::PatKind::Box(x) => {
                kind = "PBox";
                o.push(("pat", self.pat(x)));
            }
            hir::PatKind::Deref(x) => {
                kind = "PDeref";
                o.push(("pat", self.pat(x)));
            }
            hir::PatKind::Ref(x, ..) => {
                kind = "PRef";
                o.push(("pat", self.pat(x)));
            }
            hir::PatKind::Expr(pe) => {
                kind = "PExpr";
                o.push(("e", self.pat_expr(pe)));
            }
            hir::PatKind::Guard(x, g) => {
                kind = "PGuard";
                o.push(("pat", self.pat(x)));
                o.push(("guard", self.expr(g)));
            }
            hir::PatKind::Range(lo, hi, end) => {
                kind = "PRange";
                if let Some(lo) = lo {
                    o.push(("lo", self.pat_expr(lo)));
                }
                if let Some(hi) = hi {
                    o.push(("hi", self.pat_expr(hi)));
                }
                o.push(("end", J::s(format!("{:?}", end))));
            }
            hir::PatKind::Slice(a, mid, b) => {
                kind = "PSlice";
                o.push(("before", J::Arr(a.iter().map(|x| self.pat(x)).collect())));
                if let Some(m) = mid {
                    o.push(("mid", self.pat(m)));
                }
                o.push(("after", J::Arr(b.iter().map(|x| self.pat(x)).collect())));
            }
            hir::PatKind::Err(_) => kind = "PErr",
        }
        o.insert(0, ("k", J::s(kind)));
        if let Some(t) = self.tr.node_type_opt(p.hir_id) {
            o.push(("ty", J::s(ty_str(t))));
        }
        let _ = tcx;
        J::Obj(o)
    }

    fn pat_expr(&self, pe: &hir::PatExpr<'tcx>) -> J {
        match &pe.kind {
            hir::PatExprKind::Lit { lit, negated } => {
                J::Obj(vec![("k", J::s("PELit")), ("lit", self.lit(lit)), ("neg", J::Bool(*negated))])
            }
            hir::PatExprKind::Path(qp) => {
                J::Obj(vec![("k", J::s("PEPath")), ("res", self.qpath(qp, pe.hir_id))])
            }
            _ => J::Obj(vec![("k", J::s("PEOther"))]),
        }
    }

    fn block(&self, b: &hir::Block<'tcx>) -> J {
        let mut stmts = Vec::new();
        for s in b.stmts {
            stmts.push(self.stmt(s));
        }
        let mut o = vec![("k", J::s("Block")), ("stmts", J::Arr(stmts))];
        if let Some(e) = b.expr {
            o.push(("expr", self.expr(e)));
        }
        if !matches!(b.rules, hir::BlockCheckMode::DefaultBlock) {
            o.push(("unsafe", J::Bool(true)));
        }
        o.push(("sp", sp(self.tcx, b.span)));
        J::Obj(o)
    }

    fn stmt(&self, s: &hir::Stmt<'tcx>) -> J {
        match &s.kind {
            hir::StmtKind::Let(l) => {
                let mut o = vec![("k", J::s("SLet")), ("pat", self.pat(l.pat))];
                if let Some(i) = l.init {
                    o.push(("init", self.expr(i)));
                }
                if let Some(e) = l.els {
                    o.push(("els", self.block(e)));
                }
                o.push(("sp", sp(self.tcx, s.span)));
                J::Obj(o)
            }
            hir::StmtKind::Item(id) => self.item(*id),
            hir::StmtKind::Expr(e) => J::Obj(vec![("k", J::s("SExpr")), ("e", self.expr(e))]),
            hir::StmtKind::Semi(e) => J::Obj(vec![("k", J::s("SSemi")), ("e", self.expr(e))]),
        }
    }

    /// Item nested in a block: for impls list trait, self type and the def paths of the methods
    /// (their bodies are separate top-level entries); for fns the def path.
    fn item(&self, id: hir::ItemId) -> J {
        let tcx = self.tcx;
        let it = tcx.hir_item(id);
        let did = it.owner_id.def_id;
        let mut o = vec![("k", J::s("SItem")), ("path", J::s(defpath(tcx, did.to_def_id()))), ("dp", J::s(dp(tcx, did.to_def_id())))];
        match &it.kind {
            hir::ItemKind::Impl(imp) => {
                o.push(("ik", J::s("Impl")));
                let self_ty = tcx.type_of(did).instantiate_identity().skip_norm_wip();
                o.push(("self_ty", J::s(ty_str(self_ty))));
                if let Some(tr) = tcx.impl_opt_trait_ref(did.to_def_id()) {
                    let tr = tr.instantiate_identity().skip_norm_wip();
                    o.push(("trait", J::s(defpath(tcx, tr.def_id))));
                }
                let mut ms = Vec::new();
                for ii in imp.items {
                    let d = ii.owner_id.def_id;
                    ms.push(J::Obj(vec![
                        ("name", J::s(tcx.item_name(d.to_def_id()).to_string())),
                        ("path", J::s(defpath(tcx, d.to_def_id()))),
                        ("dp", J::s(dp(tcx, d.to_def_id()))),
                    ]));
                }
                o.push(("items", J::Arr(ms)));
            }
            hir::ItemKind::Fn { .. } => o.push(("ik", J::s("Fn"))),
            hir::ItemKind::Struct(..) => o.push(("ik", J::s("Struct"))),
            hir::ItemKind::Enum(..) => o.push(("ik", J::s("Enum"))),
            hir::ItemKind::Use(..) => o.push(("ik", J::s("Use"))),
            hir::ItemKind::Const(..) => o.push(("ik", J::s("Const"))),
            hir::ItemKind::Static(..) => o.push(("ik", J::s("Static"))),
            _ => o.push(("ik", J::s("Other"))),
        }
        J::Obj(o)
    }

    fn closure_body(&self, def_id: LocalDefId, body_id: hir::BodyId) -> (J, J) {
        let body = self.tcx.hir_body(body_id);
        let _ = def_id;
        let params = J::Arr(body.params.iter().map(|p| self.pat(p.pat)).collect());
        (params, self.expr(body.value))
    }

    pub fn expr(&self, e: &hir::Expr<'tcx>) -> J {
        let tcx = self.tcx;
        let tr = self.tr;
        let mut o = J::obj();
        let kind: &str;
        match &e.kind {
            hir::ExprKind::ConstBlock(cb) => {
                kind = "ConstBlock";
                let body = tcx.hir_body(cb.body);
                // const blocks have their own typeck results
                let d = Dumper { tcx, tr: tcx.typeck(cb.def_id) };
                o.push(("e", d.expr(body.value)));
            }
            hir::ExprKind::Array(es) => {
                kind = "Array";
                o.push(("es", J::Arr(es.iter().map(|x| self.expr(x)).collect())));
            }
            hir::ExprKind::Call(f, args) => {
                kind = "Call";
                if let hir::ExprKind::Path(qp) = &f.kind {
                    let res = tr.qpath_res(qp, f.hir_id);
                    if let Res::Def(dk, did) = res {
                        o.push(("callee", J::s(defpath(tcx, did))));
                        o.push(("callee_dp", J::s(dp(tcx, did))));
                        o.push(("callee_kind", J::s(format!("{:?}", dk))));
                        if let DefKind::Ctor(..) = dk {
                            o.push(("ctor_of", J::s(defpath(tcx, tcx.parent(did)))));
                        }
                        let fty = tr.expr_ty(f);
                        if let ty::FnDef(_, ga) = fty.kind() {
                            o.push(("targs", J::Arr(ga.iter().map(|a| J::s(format!("{}", a))).collect())));
                            // resolved target of trait-method paths (e.g. `T::lex_with`) when concrete
                            if let Ok(Some(inst)) = ty::Instance::try_resolve(
                                tcx,
                                ty::TypingEnv::post_analysis(tcx, tr.hir_owner.def_id),
                                did,
                                ga,
                            ) {
                                let rd = inst.def_id();
                                if rd != did {
                                    o.push(("resolved", J::s(defpath(tcx, rd))));
                                    o.push(("resolved_dp", J::s(dp(tcx, rd))));
                                }
                            }
                        }
                    }
                }
                o.push(("f", self.expr(f)));
                o.push(("args", J::Arr(args.iter().map(|x| self.expr(x)).collect())));
            }
            hir::ExprKind::MethodCall(seg, recv, args, _) => {
                kind = "MethodCall";
                o.push(("m", J::s(seg.ident.name.to_string())));
                if let Some(did) = tr.type_dependent_def_id(e.hir_id) {
                    o.push(("callee", J::s(defpath(tcx, did))));
                    o.push(("callee_dp", J::s(dp(tcx, did))));
                    let ga = tr.node_args(e.hir_id);
                    o.push(("targs", J::Arr(ga.iter().map(|a| J::s(format!("{}", a))).collect())));
                    if let Ok(Some(inst)) = ty::Instance::try_resolve(
                        tcx,
                        ty::TypingEnv::post_analysis(tcx, tr.hir_owner.def_id),
                        did,
                        ga,
                    ) {
                        let rd = inst.def_id();
                        if rd != did {
                            o.push(("resolved", J::s(defpath(tcx, rd))));
                            o.push(("resolved_dp", J::s(dp(tcx, rd))));
                        }
                    }
                }
                o.push(("recv", self.expr(recv)));
                o.push(("args", J::Arr(args.iter().map(|x| self.expr(x)).collect())));
            }
            hir::ExprKind::Use(x, _) => {
                kind = "Use";
                o.push(("e", self.expr(x)));
            }
            hir::ExprKind::Tup(es) => {
                kind = "Tup";
                o.push(("es", J::Arr(es.iter().map(|x| self.expr(x)).collect())));
            }
            hir::ExprKind::Binary(op, l, r) => {
                kind = "Binary";
                o.push(("op", J::s(format!("{:?}", op.node))));
                if let Some(did) = tr.type_dependent_def_id(e.hir_id) {
                    o.push(("callee", J::s(defpath(tcx, did))));
                }
                o.push(("l", self.expr(l)));
                o.push(("r", self.expr(r)));
            }
            hir::ExprKind::Unary(op, x) => {
                kind = "Unary";
                o.push(("op", J::s(format!("{:?}", op))));
                if let Some(did) = tr.type_dependent_def_id(e.hir_id) {
                    o.push(("callee", J::s(defpath(tcx, did))));
                }
                o.push(("e", self.expr(x)));
            }
            hir::ExprKind::Lit(l) => {
                kind = "Lit";
                o.push(("lit", self.lit(l)));
            }
            hir::ExprKind::Cast(x, _t) => {
                kind = "Cast";
                o.push(("e", self.expr(x)));
            }
            hir::ExprKind::Type(x, _t) => {
                kind = "Type";
                o.push(("e", self.expr(x)));
            }
            hir::ExprKind::DropTemps(x) => {
                // transparent
                return self.expr(x);
            }
            hir::ExprKind::Let(l) => {
                kind = "LetExpr";
                o.push(("pat", self.pat(l.pat)));
                o.push(("init", self.expr(l.init)));
            }
            hir::ExprKind::If(c, t, el) => {
                kind = "If";
                o.push(("cond", self.expr(c)));
                o.push(("then", self.expr(t)));
                if let Some(el) = el {
                    o.push(("else", self.expr(el)));
                }
            }
            hir::ExprKind::Loop(b, _label, src, _) => {
                kind = "Loop";
                o.push(("src", J::s(format!("{:?}", src))));
                o.push(("body", self.block(b)));
            }
            hir::ExprKind::Match(scrut, arms, src) => {
                kind = "Match";
                o.push(("src", J::s(format!("{:?}", src))));
                o.push(("scrut", self.expr(scrut)));
                let mut as_ = Vec::new();
                for a in *arms {
                    let mut ao = vec![("pat", self.pat(a.pat))];
                    if let Some(g) = a.guard {
                        ao.push(("guard", self.expr(g)));
                    }
                    ao.push(("body", self.expr(a.body)));
                    ao.push(("sp", sp(tcx, a.span)));
                    as_.push(J::Obj(ao));
                }
                o.push(("arms", J::Arr(as_)));
            }
            hir::ExprKind::Closure(c) => {
                kind = "Closure";
                o.push(("path", J::s(defpath(tcx, c.def_id.to_def_id()))));
                o.push(("dp", J::s(dp(tcx, c.def_id.to_def_id()))));
                let (params, body) = self.closure_body(c.def_id, c.body);
                o.push(("params", params));
                o.push(("body", body));
                o.push(("capture", J::s(format!("{:?}", c.capture_clause))));
            }
            hir::ExprKind::Block(b, _) => {
                return self.block_with_ty(b, e);
            }
            hir::ExprKind::Assign(l, r, _) => {
                kind = "Assign";
                o.push(("l", self.expr(l)));
                o.push(("r", self.expr(r)));
            }
            hir::ExprKind::AssignOp(op, l, r) => {
                kind = "AssignOp";
                o.push(("op", J::s(format!("{:?}", op.node))));
                if let Some(did) = tr.type_dependent_def_id(e.hir_id) {
                    o.push(("callee", J::s(defpath(tcx, did))));
                }
                o.push(("l", self.expr(l)));
                o.push(("r", self.expr(r)));
            }
            hir::ExprKind::Field(x, ident) => {
                kind = "Field";
                o.push(("name", J::s(ident.name.to_string())));
                o.push(("e", self.expr(x)));
            }
            hir::ExprKind::Index(x, i, _) => {
                kind = "Index";
                if let Some(did) = tr.type_dependent_def_id(e.hir_id) {
                    o.push(("callee", J::s(defpath(tcx, did))));
                }
                o.push(("e", self.expr(x)));
                o.push(("idx", self.expr(i)));
            }
            hir::ExprKind::Path(qp) => {
                kind = "Path";
                o.push(("res", self.qpath(qp, e.hir_id)));
            }
            hir::ExprKind::AddrOf(_, m, x) => {
                kind = "AddrOf";
                o.push(("mut", J::Bool(m.is_mut())));
                o.push(("e", self.expr(x)));
            }
            hir::ExprKind::Break(dest, x) => {
                kind = "Break";
                if let Some(l) = dest.label {
                    o.push(("label", J::s(l.ident.name.to_string())));
                }
                if let Some(x) = x {
                    o.push(("e", self.expr(x)));
                }
            }
            hir::ExprKind::Continue(_) => kind = "Continue",
            hir::ExprKind::Ret(x) => {
                kind = "Ret";
                if let Some(x) = x {
                    o.push(("e", self.expr(x)));
                }
            }
            hir::ExprKind::Become(x) => {
                kind = "Become";
                o.push(("e", self.expr(x)));
            }
            hir::ExprKind::Struct(qp, fields, base) => {
                kind = "Struct";
                o.push(("res", self.qpath(qp, e.hir_id)));
                let mut fs = Vec::new();
                for f in *fields {
                    fs.push(J::Obj(vec![("name", J::s(f.ident.name.to_string())), ("e", self.expr(f.expr))]));
                }
                o.push(("fields", J::Arr(fs)));
                match base {
                    hir::StructTailExpr::Base(b) => o.push(("base", self.expr(b))),
                    hir::StructTailExpr::DefaultFields(_) => o.push(("base_default", J::Bool(true))),
                    _ => {}
                }
            }
            hir::ExprKind::Repeat(x, _) => {
                kind = "Repeat";
                o.push(("e", self.expr(x)));
            }
            hir::ExprKind::Yield(x, _) => {
                kind = "Yield";
                o.push(("e", self.expr(x)));
            }
            hir::ExprKind::InlineAsm(_) => kind = "InlineAsm",
            hir::ExprKind::OffsetOf(..) => kind = "OffsetOf",
            hir::ExprKind::UnsafeBinderCast(_, x, _) => {
                kind = "UnsafeBinderCast";
                o.push(("e", self.expr(x)));
            }
            hir::ExprKind::Err(_) => kind = "Err",
        }
        o.insert(0, ("k", J::s(kind)));
        self.finish(e, o)
    }

    fn finish(&self, e: &hir::Expr<'tcx>, mut o: Vec<(&'static str, J)>) -> J {
        let tr = self.tr;
        if let Some(t) = tr.expr_ty_opt(e) {
            o.push(("ty", J::s(ty_str(t))));
            if let Some(at) = tr.expr_ty_adjusted_opt(e) {
                if at != t {
                    o.push(("aty", J::s(ty_str(at))));
                    // list adjustments (deref via overloaded Deref is behaviour-relevant)
                    let adj = tr.expr_adjustments(e);
                    o.push((
                        "adj",
                        J::Arr(
                            adj.iter()
                                .map(|a| J::s(format!("{:?}", a.kind).split('(').next().unwrap_or("").to_string()))
                                .collect(),
                        ),
                    ));
                }
            }
        }
        o.push(("sp", sp(self.tcx, e.span)));
        if e.span.from_expansion() {
            o.push(("x", J::Bool(true)));
        }
        J::Obj(o)
    }

    fn block_with_ty(&self, b: &hir::Block<'tcx>, e: &hir::Expr<'tcx>) -> J {
        let mut j = self.block(b);
        if let J::Obj(ref mut o) = j {
            if let Some(t) = self.tr.expr_ty_opt(e) {
                o.push(("ty", J::s(ty_str(t))));
            }
            if e.span.from_expansion() {
                o.push(("x", J::Bool(true)));
            }
        }
        j
    }
}
