//! Minimal JSON value + writer (no external crates available to a rustc_private driver here).
use std::fmt::Write;

#[derive(Clone, Debug)]
pub enum J {
    Null,
    Bool(bool),
    Num(i128),
    Str(String),
    Arr(Vec<J>),
    Obj(Vec<(&'static str, J)>),
}

impl J {
    pub fn s<S: Into<String>>(s: S) -> J {
        J::Str(s.into())
    }
    pub fn obj() -> Vec<(&'static str, J)> {
        Vec::new()
    }
    pub fn write(&self, out: &mut String) {
        match self {
            J::Null => out.push_str("null"),
            J::Bool(b) => out.push_str(if *b { "true" } else { "false" }),
            J::Num(n) => {
                let _ = write!(out, "{}", n);
            }
            J::Str(s) => write_str(s, out),
            J::Arr(v) => {
                out.push('[');
                for (i, x) in v.iter().enumerate() {
                    if i > 0 {
                        out.push(',');
                    }
                    x.write(out);
                }
                out.push(']');
            }
            J::Obj(v) => {
                out.push('{');
                for (i, (k, x)) in v.iter().enumerate() {
                    if i > 0 {
                        out.push(',');
                    }
                    write_str(k, out);
                    out.push(':');
                    x.write(out);
                }
                out.push('}');
            }
        }
    }
}

fn write_str(s: &str, out: &mut String) {
    out.push('"');
    for c in s.chars() {
        match c {
            '"' => out.push_str("\\\""),
            '\\' => out.push_str("\\\\"),
            '\n' => out.push_str("\\n"),
            '\r' => out.push_str("\\r"),
            '\t' => out.push_str("\\t"),
            c if (c as u32) < 0x20 => {
                let _ = write!(out, "\\u{:04x}", c as u32);
            }
            c => out.push(c),
        }
    }
    out.push('"');
}

#[macro_export]
macro_rules! jobj {
    ($($k:literal : $v:expr),* $(,)?) => {
        $crate::json::J::Obj(vec![$(($k, $v)),*])
    };
}
