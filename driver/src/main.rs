//! wf-facts: rustc_private fact extractor for the wirefilter static checks.
//!
//! Used as RUSTC_WORKSPACE_WRAPPER: argv[1] is the real rustc path (dropped). For crates whose
//! name is listed in WF_FACTS_CRATES (comma separated) the driver runs the normal front end and,
//! after analysis, writes one JSON fact file `$WF_FACTS_OUT/<crate>.json` (single write).
#![feature(rustc_private)]
#![feature(box_patterns)]
#![allow(clippy::all)]

extern crate rustc_abi;
extern crate rustc_ast;
extern crate rustc_data_structures;
extern crate rustc_driver;
extern crate rustc_hir;
extern crate rustc_index;
extern crate rustc_interface;
extern crate rustc_middle;
extern crate rustc_span;

mod hirdump;
mod json;
mod meta;
mod mirdump;
mod mono;
mod util;

use json::J;
use rustc_driver::Compilation;
use rustc_hir::def_id::LOCAL_CRATE;
use rustc_middle::ty::TyCtxt;

struct Cb {
    out_dir: String,
    crates: Vec<String>,
    nonce: String,
}

impl rustc_driver::Callbacks for Cb {
    fn after_analysis<'tcx>(
        &mut self,
        _c: &rustc_interface::interface::Compiler,
        tcx: TyCtxt<'tcx>,
    ) -> Compilation {
        let name = tcx.crate_name(LOCAL_CRATE).to_string();
        if !self.crates.iter().any(|c| *c == name) {
            return Compilation::Continue;
        }
        // skip build scripts / test harness variants of the same name
        let facts = rustc_middle::ty::print::with_no_visible_paths!(rustc_middle::ty::print::with_no_trimmed_paths!(extract(tcx, &name, &self.nonce)));
        let mut s = String::with_capacity(1 << 24);
        facts.write(&mut s);
        let path = format!("{}/{}.json", self.out_dir, name);
        let tmp = format!("{}.tmp.{}", path, std::process::id());
        std::fs::write(&tmp, s).expect("write facts");
        std::fs::rename(&tmp, &path).expect("rename facts");
        Compilation::Continue
    }
}

fn extract<'tcx>(tcx: TyCtxt<'tcx>, name: &str, nonce: &str) -> J {
    let mut o = J::obj();
    o.push(("crate", J::s(name)));
    o.push(("nonce", J::s(nonce)));
    o.push(("items", meta::items(tcx)));
    o.push(("adts", meta::adts(tcx)));
    o.push(("impls", meta::impls(tcx)));
    o.push(("statics", meta::statics(tcx)));
    o.push(("hir", hirdump::all_bodies(tcx)));
    o.push(("mir", mirdump::all_bodies(tcx)));
    o.push(("mono", mono::graph(tcx)));
    J::Obj(o)
}

fn main() {
    let mut args: Vec<String> = std::env::args().collect();
    // RUSTC_WORKSPACE_WRAPPER: argv[1] is the path of rustc itself
    if args.len() > 1 && (args[1].ends_with("rustc") || args[1].contains("/rustc")) {
        args.remove(1);
    }
    let out_dir = std::env::var("WF_FACTS_OUT").unwrap_or_else(|_| ".".into());
    let crates = std::env::var("WF_FACTS_CRATES")
        .unwrap_or_else(|_| "wirefilter,wirefilter_ffi,wirefilter_wasm".into())
        .split(',')
        .map(|s| s.trim().to_string())
        .filter(|s| !s.is_empty())
        .collect();
    let nonce = std::env::var("WF_FACTS_NONCE").unwrap_or_default();
    let mut cb = Cb { out_dir, crates, nonce };
    rustc_driver::run_compiler(&args, &mut cb);
}
