//! items / adts / impls / statics tables.
use crate::jobj;
use crate::json::J;
use crate::util::*;
use rustc_hir::def::DefKind;
use rustc_hir::def_id::{DefId, LocalDefId};
use rustc_middle::ty::{self, Ty, TyCtxt};
use std::collections::{BTreeSet, HashMap, HashSet};

fn attrs_text(tcx: TyCtxt<'_>, ldid: LocalDefId) -> J {
    let hid = tcx.local_def_id_to_hir_id(ldid);
    let sm = tcx.sess.source_map();
    let mut v = Vec::new();
    for a in tcx.hir_attrs(hid) {
        match a {
            rustc_hir::Attribute::Unparsed(item) => {
                if let Ok(s) = sm.span_to_snippet(item.span) {
                    v.push(J::s(s));
                } else {
                    v.push(J::s(format!("{:?}", item.path)));
                }
            }
            rustc_hir::Attribute::Parsed(p) => {
                let d = format!("{:?}", p);
                v.push(J::s(d.split(|c| c == '(' || c == '{' || c == ' ').next().unwrap_or("").to_string()));
            }
        }
    }
    J::Arr(v)
}

pub fn items<'tcx>(tcx: TyCtxt<'tcx>) -> J {
    let mut out = Vec::new();
    for ldid in tcx.hir_body_owners() {
        let did = ldid.to_def_id();
        let kind = tcx.def_kind(did);
        let mut o = J::obj();
        o.push(("path", J::s(defpath(tcx, did))));
        o.push(("dp", J::s(dp(tcx, did))));
        o.push(("kind", J::s(format!("{:?}", kind))));
        o.push(("span", sp(tcx, tcx.def_span(did))));
        o.push(("exp", J::Bool(tcx.def_span(did).from_expansion())));
        if let Some(p) = tcx.opt_local_parent(ldid) {
            o.push(("parent_dp", J::s(dp(tcx, p.to_def_id()))));
            o.push(("parent", J::s(defpath(tcx, p.to_def_id()))));
            o.push(("parent_kind", J::s(format!("{:?}", tcx.def_kind(p)))));
        }
        if kind == DefKind::Closure {
            let cty = tcx.type_of(did).instantiate_identity().skip_norm_wip();
            if let ty::Closure(_, cargs) = cty.kind() {
                let mut ups = Vec::new();
                let mut src = BTreeSet::new();
                let mut interior = Interior::new(tcx);
                let ca = cargs.as_closure();
                if ca.tupled_upvars_ty().is_ty_var() == false {
                    for t in ca.upvar_tys().iter() {
                        ups.push(J::s(ty_str(t)));
                        interior.sources(t, &mut HashSet::new(), &mut src);
                    }
                }
                o.push(("upvars", J::Arr(ups)));
                o.push(("upvar_interior", J::Arr(src.into_iter().map(J::Str).collect())));
            }
        }
        if matches!(kind, DefKind::Fn | DefKind::AssocFn) {
            o.push(("vis", J::s(format!("{:?}", tcx.visibility(did)))));
            let sig = tcx.fn_sig(did).instantiate_identity().skip_norm_wip().skip_binder();
            o.push(("abi", J::s(format!("{:?}", sig.abi()))));
            o.push(("unsafe", J::Bool(!sig.safety().is_safe())));
            o.push((
                "inputs",
                J::Arr(sig.inputs().iter().map(|t| J::s(ty_str(*t))).collect()),
            ));
            o.push(("output", J::s(ty_str(sig.output()))));
            o.push(("name", J::s(tcx.item_name(did).to_string())));
            o.push(("attrs", attrs_text(tcx, ldid)));
            if kind == DefKind::AssocFn {
                if let Some(imp) = tcx.impl_of_assoc(did) {
                    o.push(("impl", J::s(defpath(tcx, imp))));
                    let self_ty = tcx.type_of(imp).instantiate_identity().skip_norm_wip();
                    o.push(("self_ty", J::s(ty_str(self_ty))));
                    if let Some(a) = ty_adt(tcx, self_ty) {
                        o.push(("self_adt", J::s(a)));
                    }
                    if let Some(tr) = tcx.impl_opt_trait_ref(imp) {
                        let tr = tr.instantiate_identity().skip_norm_wip();
                        o.push(("trait", J::s(defpath(tcx, tr.def_id))));
                        o.push(("trait_ref", J::s(format!("{}", tr))));
                    }
                } else if let Some(tr) = tcx.trait_of_assoc(did) {
                    o.push(("trait_decl", J::s(defpath(tcx, tr))));
                }
            }
        }
        out.push(J::Obj(o));
    }
    J::Arr(out)
}

/// Deep search for interior mutability / opaque trait objects reachable from a type.
pub struct Interior<'tcx> {
    tcx: TyCtxt<'tcx>,
    ext_memo: HashMap<DefId, BTreeSet<String>>,
}

impl<'tcx> Interior<'tcx> {
    pub fn new(tcx: TyCtxt<'tcx>) -> Self {
        Interior { tcx, ext_memo: HashMap::new() }
    }

    /// sources of interior mutability reachable from `ty`: names of the outermost *external* ADTs
    /// that own an UnsafeCell (ignoring their type parameters, which are walked in context),
    /// `dyn:<trait>` for trait objects, local ADT paths are walked through.
    pub fn sources(&mut self, ty: Ty<'tcx>, seen: &mut HashSet<Ty<'tcx>>, out: &mut BTreeSet<String>) {
        if !seen.insert(ty) {
            return;
        }
        let tcx = self.tcx;
        match ty.kind() {
            ty::Adt(def, args) => {
                if def.did().is_local() {
                    for f in def.all_fields() {
                        let fty = f.ty(tcx, args);
                        self.sources(fty, seen, out);
                    }
                } else {
                    if tcx.def_path_str(def.did()) == "core::cell::UnsafeCell" {
                        out.insert("core::cell::UnsafeCell".to_string());
                    } else {
                        let own = self.ext_own(def.did());
                        if !own.is_empty() {
                            out.insert(tcx.def_path_str(def.did()));
                        }
                    }
                    for a in args.iter() {
                        if let Some(t) = a.as_type() {
                            self.sources(t, seen, out);
                        }
                    }
                }
            }
            ty::Ref(_, t, _) | ty::RawPtr(t, _) | ty::Slice(t) | ty::Array(t, _) | ty::Pat(t, _) => {
                self.sources(*t, seen, out)
            }
            ty::Tuple(ts) => {
                for t in ts.iter() {
                    self.sources(t, seen, out);
                }
            }
            ty::Dynamic(preds, ..) => {
                let name = preds
                    .principal_def_id()
                    .map(|d| tcx.def_path_str(d))
                    .unwrap_or_else(|| "?".into());
                out.insert(format!("dyn:{}", name));
            }
            ty::Closure(_, cargs) => {
                for t in cargs.as_closure().upvar_tys().iter() {
                    self.sources(t, seen, out);
                }
            }
            ty::FnPtr(..) | ty::FnDef(..) => {}
            ty::Param(_) | ty::Alias(..) => {
                out.insert(format!("opaque:{}", ty));
            }
            _ => {}
        }
    }

    fn ext_own(&mut self, did: DefId) -> BTreeSet<String> {
        if let Some(s) = self.ext_memo.get(&did) {
            return s.clone();
        }
        self.ext_memo.insert(did, BTreeSet::new());
        let tcx = self.tcx;
        let def = tcx.adt_def(did);
        let mut out = BTreeSet::new();
        let mut seen = HashSet::new();
        for f in def.all_fields() {
            let fty = tcx.type_of(f.did).instantiate_identity().skip_norm_wip();
            self.ext_walk(fty, &mut seen, &mut out);
        }
        self.ext_memo.insert(did, out.clone());
        out
    }

    fn ext_walk(&mut self, ty: Ty<'tcx>, seen: &mut HashSet<Ty<'tcx>>, out: &mut BTreeSet<String>) {
        if !seen.insert(ty) {
            return;
        }
        let tcx = self.tcx;
        match ty.kind() {
            ty::Adt(def, args) => {
                if tcx.def_path_str(def.did()) == "core::cell::UnsafeCell" {
                    out.insert("core::cell::UnsafeCell".into());
                    return;
                }
                let own = self.ext_own(def.did());
                out.extend(own);
                for a in args.iter() {
                    if let Some(t) = a.as_type() {
                        self.ext_walk(t, seen, out);
                    }
                }
            }
            ty::Ref(_, t, _) | ty::RawPtr(t, _) | ty::Slice(t) | ty::Array(t, _) | ty::Pat(t, _) => {
                self.ext_walk(*t, seen, out)
            }
            ty::Tuple(ts) => {
                for t in ts.iter() {
                    self.ext_walk(t, seen, out);
                }
            }
            // type parameters of the external ADT are walked by the caller with the actual args
            _ => {}
        }
    }
}

fn adts_in_ty<'tcx>(tcx: TyCtxt<'tcx>, ty: Ty<'tcx>) -> J {
    let mut set = BTreeSet::new();
    for ga in ty.walk() {
        if let Some(t) = ga.as_type() {
            match t.kind() {
                ty::Adt(def, _) => {
                    set.insert(tcx.def_path_str(def.did()));
                }
                ty::Dynamic(preds, ..) => {
                    if let Some(d) = preds.principal_def_id() {
                        set.insert(format!("dyn:{}", tcx.def_path_str(d)));
                    }
                }
                _ => {}
            }
        }
    }
    J::Arr(set.into_iter().map(J::Str).collect())
}

pub fn adts<'tcx>(tcx: TyCtxt<'tcx>) -> J {
    let mut out = Vec::new();
    let mut interior = Interior::new(tcx);
    for ldid in tcx.hir_crate_items(()).definitions() {
        let did = ldid.to_def_id();
        let kind = tcx.def_kind(did);
        if !matches!(kind, DefKind::Struct | DefKind::Enum | DefKind::Union) {
            continue;
        }
        let def = tcx.adt_def(did);
        let mut o = J::obj();
        o.push(("path", J::s(defpath(tcx, did))));
        o.push(("kind", J::s(format!("{:?}", kind))));
        o.push(("span", sp(tcx, tcx.def_span(did))));
        o.push(("attrs", attrs_text(tcx, ldid)));
        o.push(("repr", J::s(format!("{:?}", def.repr()))));
        o.push(("generics", J::Num(tcx.generics_of(did).own_params.len() as i128)));
        let mut vs = Vec::new();
        for (vidx, v) in def.variants().iter_enumerated() {
            let mut vo = J::obj();
            vo.push(("name", J::s(v.name.to_string())));
            vo.push(("idx", J::Num(vidx.as_u32() as i128)));
            if def.is_enum() {
                let d = def.discriminant_for_variant(tcx, vidx);
                vo.push(("discr", J::Num(d.val as i128)));
            }
            vo.push(("ctor", J::s(format!("{:?}", v.ctor_kind()))));
            let mut fs = Vec::new();
            for f in v.fields.iter() {
                let fty = tcx.type_of(f.did).instantiate_identity().skip_norm_wip();
                let mut fo = J::obj();
                fo.push(("name", J::s(f.name.to_string())));
                fo.push(("ty", J::s(ty_str(fty))));
                fo.push(("vis", J::s(format!("{:?}", f.vis))));
                fo.push(("adts", adts_in_ty(tcx, fty)));
                if let Some(l) = f.did.as_local() {
                    fo.push(("attrs", attrs_text(tcx, l)));
                }
                fs.push(J::Obj(fo));
            }
            vo.push(("fields", J::Arr(fs)));
            vs.push(J::Obj(vo));
        }
        o.push(("variants", J::Arr(vs)));
        // interior mutability census (identity instantiation)
        let self_ty = tcx.type_of(did).instantiate_identity().skip_norm_wip();
        let mut src = BTreeSet::new();
        interior.sources(self_ty, &mut HashSet::new(), &mut src);
        o.push(("interior", J::Arr(src.into_iter().map(J::Str).collect())));
        out.push(J::Obj(o));
    }
    J::Arr(out)
}

pub fn impls<'tcx>(tcx: TyCtxt<'tcx>) -> J {
    let mut out = Vec::new();
    for ldid in tcx.hir_crate_items(()).definitions() {
        let did = ldid.to_def_id();
        if !matches!(tcx.def_kind(did), DefKind::Impl { .. }) {
            continue;
        }
        let mut o = J::obj();
        o.push(("path", J::s(defpath(tcx, did))));
        o.push(("dp", J::s(dp(tcx, did))));
        o.push(("span", sp(tcx, tcx.def_span(did))));
        o.push(("exp", J::Bool(tcx.def_span(did).from_expansion())));
        let self_ty = tcx.type_of(did).instantiate_identity().skip_norm_wip();
        o.push(("self_ty", J::s(ty_str(self_ty))));
        if let Some(a) = ty_adt(tcx, self_ty) {
            o.push(("self_adt", J::s(a)));
        }
        o.push(("derived", J::Bool(tcx.is_automatically_derived(did))));
        if let Some(tr) = tcx.impl_opt_trait_ref(did) {
            let tr = tr.instantiate_identity().skip_norm_wip();
            o.push(("trait", J::s(defpath(tcx, tr.def_id))));
            o.push(("trait_ref", J::s(format!("{}", tr))));
            let hdr = tcx.impl_trait_header(did);
            o.push(("unsafe", J::Bool(!hdr.safety.is_safe())));
            o.push(("polarity", J::s(format!("{:?}", hdr.polarity))));
        }
        o.push(("parent", J::s(defpath(tcx, tcx.local_parent(ldid).to_def_id()))));
        let mut its = Vec::new();
        for &it in tcx.associated_item_def_ids(did) {
            its.push(jobj! {
                "name": J::s(tcx.item_name(it).to_string()),
                "path": J::s(defpath(tcx, it)),
                "dp": J::s(dp(tcx, it)),
                "kind": J::s(format!("{:?}", tcx.def_kind(it))),
            });
        }
        o.push(("items", J::Arr(its)));
        // predicates (bounds) as text: used for Send/Sync bound census
        let preds = tcx.predicates_of(did).instantiate_identity(tcx);
        o.push((
            "preds",
            J::Arr(preds.predicates.iter().map(|p| J::s(format!("{}", p.skip_norm_wip()))).collect()),
        ));
        out.push(J::Obj(o));
    }
    J::Arr(out)
}

pub fn statics<'tcx>(tcx: TyCtxt<'tcx>) -> J {
    let mut out = Vec::new();
    for ldid in tcx.hir_crate_items(()).definitions() {
        let did = ldid.to_def_id();
        let kind = tcx.def_kind(did);
        let is_static = matches!(kind, DefKind::Static { .. });
        let is_const = matches!(kind, DefKind::Const { .. } | DefKind::AssocConst { .. });
        if !is_static && !is_const {
            continue;
        }
        let mut o = J::obj();
        o.push(("path", J::s(defpath(tcx, did))));
        o.push(("kind", J::s(format!("{:?}", kind))));
        o.push(("span", sp(tcx, tcx.def_span(did))));
        o.push(("exp", J::Bool(tcx.def_span(did).from_expansion())));
        let ty = tcx.type_of(did).instantiate_identity().skip_norm_wip();
        o.push(("ty", J::s(ty_str(ty))));
        o.push(("adts", adts_in_ty(tcx, ty)));
        if is_static {
            o.push(("mutable", J::Bool(tcx.is_mutable_static(did))));
            o.push(("thread_local", J::Bool(tcx.is_thread_local_static(did))));
        }
        o.push(("parent", J::s(defpath(tcx, tcx.local_parent(ldid).to_def_id()))));
        if is_const && tcx.generics_of(did).is_empty() && !tcx.generics_of(did).has_self {
            if ty.is_integral() || ty.is_bool() || ty.is_char() {
                if let Ok(v) = tcx.const_eval_poly(did) {
                    if let Some(sc) = v.try_to_scalar_int() {
                        let bits = sc.to_bits(sc.size());
                        let val: i128 = if ty.is_signed() {
                            sc.to_int(sc.size())
                        } else {
                            bits as i128
                        };
                        o.push(("value", J::Num(val)));
                    }
                }
            }
        }
        out.push(J::Obj(o));
    }
    J::Arr(out)
}
