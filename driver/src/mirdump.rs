//! MIR (mir-opt-level=0) per body: locals, blocks, statements, terminators with resolved callees,
//! casts, aggregates and immediate dominators.
use crate::json::J;
use crate::util::*;
use rustc_hir::def::DefKind;
use rustc_middle::mir::{self, *};
use rustc_middle::ty::{self, Ty, TyCtxt};

pub fn all_bodies<'tcx>(tcx: TyCtxt<'tcx>) -> J {
    let mut out = Vec::new();
    for ldid in tcx.hir_body_owners() {
        let kind = tcx.def_kind(ldid);
        if !matches!(kind, DefKind::Fn | DefKind::AssocFn | DefKind::Closure) {
            continue;
        }
        if !tcx.is_mir_available(ldid.to_def_id()) {
            continue;
        }
        let body = tcx.optimized_mir(ldid.to_def_id());
        out.push(dump_body(tcx, ldid.to_def_id(), body, None));
    }
    J::Arr(out)
}

pub struct Ctx<'a, 'tcx> {
    pub tcx: TyCtxt<'tcx>,
    pub body: &'a Body<'tcx>,
    pub owner: rustc_hir::def_id::DefId,
    /// when dumping a monomorphic instance: substitute through it
    pub inst: Option<ty::Instance<'tcx>>,
}

impl<'a, 'tcx> Ctx<'a, 'tcx> {
    pub fn mono_ty(&self, t: Ty<'tcx>) -> Ty<'tcx> {
        match self.inst {
            Some(inst) => inst.instantiate_mir_and_normalize_erasing_regions(
                self.tcx,
                ty::TypingEnv::fully_monomorphized(),
                ty::EarlyBinder::bind(t),
            ),
            None => t,
        }
    }

    fn place(&self, p: &Place<'tcx>) -> J {
        let mut proj = Vec::new();
        for e in p.projection.iter() {
            proj.push(match e {
                ProjectionElem::Deref => J::s("*"),
                ProjectionElem::Field(f, _) => J::Num(f.as_u32() as i128),
                ProjectionElem::Downcast(name, v) => J::Obj(vec![
                    ("v", J::Num(v.as_u32() as i128)),
                    ("name", J::s(name.map(|n| n.to_string()).unwrap_or_default())),
                ]),
                ProjectionElem::Index(l) => J::Obj(vec![("idx", J::Num(l.as_u32() as i128))]),
                ProjectionElem::ConstantIndex { offset, from_end, .. } => {
                    J::Obj(vec![("cidx", J::Num(offset as i128)), ("from_end", J::Bool(from_end))])
                }
                ProjectionElem::Subslice { from, to, from_end } => J::Obj(vec![
                    ("sub_from", J::Num(from as i128)),
                    ("sub_to", J::Num(to as i128)),
                    ("from_end", J::Bool(from_end)),
                ]),
                ProjectionElem::OpaqueCast(_) => J::s("opaque"),
                ProjectionElem::UnwrapUnsafeBinder(_) => J::s("unwrap_binder"),
            });
        }
        J::Obj(vec![("l", J::Num(p.local.as_u32() as i128)), ("p", J::Arr(proj))])
    }

    fn constant(&self, c: &ConstOperand<'tcx>) -> J {
        let tcx = self.tcx;
        let ty = self.mono_ty(c.const_.ty());
        let mut o = vec![("ty", J::s(ty_str(ty)))];
        match ty.kind() {
            ty::FnDef(did, args) => {
                o.push(("fn", J::s(defpath(tcx, *did))));
                o.push(("fn_dp", J::s(dp(tcx, *did))));
                o.push(("targs", J::Arr(args.iter().map(|a| J::s(format!("{}", a))).collect())));
                let env = match self.inst {
                    Some(_) => ty::TypingEnv::fully_monomorphized(),
                    None => ty::TypingEnv::post_analysis(tcx, self.owner),
                };
                if let Ok(Some(inst)) = ty::Instance::try_resolve(tcx, env, *did, args) {
                    o.push(("resolved_dp", J::s(dp(tcx, inst.def_id()))));
                    o.push(("resolved", J::s(defpath(tcx, inst.def_id()))));
                }
                if let Some(tr) = tcx.trait_of_assoc(*did) {
                    o.push(("trait", J::s(defpath(tcx, tr))));
                }
            }
            _ => {
                // scalar values
                let env = match self.inst {
                    Some(_) => ty::TypingEnv::fully_monomorphized(),
                    None => ty::TypingEnv::post_analysis(tcx, self.owner),
                };
                let cst = match self.inst {
                    Some(inst) => inst.instantiate_mir_and_normalize_erasing_regions(
                        tcx,
                        env,
                        ty::EarlyBinder::bind(c.const_),
                    ),
                    None => c.const_,
                };
                if ty.is_integral() || ty.is_bool() || ty.is_char() {
                    if let Some(sc) = cst.try_eval_scalar_int(tcx, env) {
                        let v: i128 = if ty.is_signed() {
                            sc.to_int(sc.size())
                        } else {
                            sc.to_bits(sc.size()) as i128
                        };
                        o.push(("v", J::Num(v)));
                    }
                }
                let disp = format!("{}", cst);
                if disp.len() < 400 {
                    o.push(("disp", J::s(disp)));
                }
                // named constant / static reference
                if let mir::Const::Unevaluated(uv, _) = cst {
                    o.push(("def", J::s(defpath(tcx, uv.def))));
                }
                if let Some(did) = c.check_static_ptr(tcx) {
                    o.push(("static", J::s(defpath(tcx, did))));
                }
            }
        }
        J::Obj(vec![("c", J::Obj(o))])
    }

    pub fn operand(&self, op: &Operand<'tcx>) -> J {
        match op {
            Operand::Copy(p) => {
                let mut j = self.place(p);
                if let J::Obj(ref mut o) = j {
                    o.push(("m", J::s("copy")));
                }
                j
            }
            Operand::Move(p) => {
                let mut j = self.place(p);
                if let J::Obj(ref mut o) = j {
                    o.push(("m", J::s("move")));
                }
                j
            }
            Operand::Constant(c) => self.constant(c),
            #[allow(unreachable_patterns)]
            _ => J::Obj(vec![("other", J::s(format!("{:?}", op)))]),
        }
    }

    fn op_ty(&self, op: &Operand<'tcx>) -> Ty<'tcx> {
        self.mono_ty(op.ty(self.body, self.tcx))
    }

    fn rvalue(&self, rv: &Rvalue<'tcx>) -> J {
        let tcx = self.tcx;
        let mut o = J::obj();
        let k: &str;
        match rv {
            Rvalue::Use(op, ..) => {
                k = "Use";
                o.push(("op", self.operand(op)));
            }
            Rvalue::Repeat(op, _) => {
                k = "Repeat";
                o.push(("op", self.operand(op)));
            }
            Rvalue::Ref(_, bk, p) => {
                k = "Ref";
                o.push(("mut", J::Bool(matches!(bk, BorrowKind::Mut { .. }))));
                o.push(("place", self.place(p)));
            }
            Rvalue::ThreadLocalRef(did) => {
                k = "ThreadLocalRef";
                o.push(("def", J::s(defpath(tcx, *did))));
            }
            Rvalue::RawPtr(kind, p) => {
                k = "RawPtr";
                o.push(("mut", J::Bool(matches!(kind, RawPtrKind::Mut))));
                o.push(("place", self.place(p)));
            }
            Rvalue::Cast(ck, op, ty) => {
                k = "Cast";
                let to = self.mono_ty(*ty);
                let from = self.op_ty(op);
                let ckind = format!("{:?}", ck);
                o.push(("ck", J::s(ckind.clone())));
                o.push(("op", self.operand(op)));
                o.push(("from", J::s(ty_str(from))));
                o.push(("to", J::s(ty_str(to))));
                if ckind.contains("Unsize") {
                    if let (Some(fp), Some(tp)) = (from.builtin_deref(true), to.builtin_deref(true)) {
                        o.push(("src_pointee", J::s(ty_str(fp))));
                        if fp.is_box() {
                            o.push(("src_pointee_is_box", J::Bool(true)));
                            if let Some(inner) = fp.boxed_ty() {
                                if let ty::Dynamic(preds, ..) = inner.kind() {
                                    let n = preds
                                        .principal_def_id()
                                        .map(|d| defpath(tcx, d))
                                        .unwrap_or_else(|| "?".into());
                                    o.push(("src_box_dyn", J::s(n)));
                                }
                            }
                        }
                        if let ty::Dynamic(preds, ..) = tp.kind() {
                            let n = preds
                                .principal_def_id()
                                .map(|d| defpath(tcx, d))
                                .unwrap_or_else(|| "?".into());
                            o.push(("dst_dyn", J::s(n)));
                        }
                    }
                }
            }
            Rvalue::BinaryOp(op, box (a, b)) => {
                k = "BinaryOp";
                o.push(("op", J::s(format!("{:?}", op))));
                o.push(("a", self.operand(a)));
                o.push(("b", self.operand(b)));
                o.push(("aty", J::s(ty_str(self.op_ty(a)))));
            }
            Rvalue::UnaryOp(op, a) => {
                k = "UnaryOp";
                o.push(("op", J::s(format!("{:?}", op))));
                o.push(("a", self.operand(a)));
            }
            Rvalue::Discriminant(p) => {
                k = "Discriminant";
                o.push(("place", self.place(p)));
                let pty = self.mono_ty(p.ty(self.body, tcx).ty);
                o.push(("of", J::s(ty_str(pty))));
            }
            Rvalue::Aggregate(box kind, ops) => {
                k = "Aggregate";
                match kind {
                    AggregateKind::Adt(did, vidx, _args, _, _) => {
                        let def = tcx.adt_def(*did);
                        o.push(("adt", J::s(defpath(tcx, *did))));
                        o.push(("variant", J::s(def.variant(*vidx).name.to_string())));
                        o.push(("vidx", J::Num(vidx.as_u32() as i128)));
                        let names: Vec<J> =
                            def.variant(*vidx).fields.iter().map(|f| J::s(f.name.to_string())).collect();
                        o.push(("fnames", J::Arr(names)));
                    }
                    AggregateKind::Closure(did, _) => {
                        o.push(("closure", J::s(defpath(tcx, *did))));
                        o.push(("closure_dp", J::s(dp(tcx, *did))));
                    }
                    AggregateKind::Tuple => o.push(("tuple", J::Bool(true))),
                    AggregateKind::Array(_) => o.push(("array", J::Bool(true))),
                    other => o.push(("other", J::s(format!("{:?}", other)))),
                }
                o.push(("ops", J::Arr(ops.iter().map(|x| self.operand(x)).collect())));
            }
            Rvalue::CopyForDeref(p) => {
                k = "CopyForDeref";
                o.push(("place", self.place(p)));
            }
            other => {
                k = "Other";
                o.push(("dbg", J::s(format!("{:?}", other).chars().take(200).collect::<String>())));
            }
        }
        o.insert(0, ("k", J::s(k)));
        J::Obj(o)
    }

    fn callee(&self, func: &Operand<'tcx>, o: &mut Vec<(&'static str, J)>) {
        let tcx = self.tcx;
        let fty = self.op_ty(func);
        match fty.kind() {
            ty::FnDef(did, args) => {
                o.push(("callee", J::s(defpath(tcx, *did))));
                o.push(("callee_dp", J::s(dp(tcx, *did))));
                o.push(("callee_name", J::s(tcx.item_name(*did).to_string())));
                o.push(("callee_full", J::s(tcx.def_path_str_with_args(*did, args))));
                o.push(("targs", J::Arr(args.iter().map(|a| J::s(format!("{}", a))).collect())));
                if let Some(tr) = tcx.trait_of_assoc(*did) {
                    o.push(("trait", J::s(defpath(tcx, tr))));
                    if let Some(st) = args.iter().next().and_then(|a| a.as_type()) {
                        o.push(("self_ty", J::s(ty_str(st))));
                    }
                }
                let env = match self.inst {
                    Some(_) => ty::TypingEnv::fully_monomorphized(),
                    None => ty::TypingEnv::post_analysis(tcx, self.owner),
                };
                match ty::Instance::try_resolve(tcx, env, *did, args) {
                    Ok(Some(inst)) => {
                        let rd = inst.def_id();
                        o.push(("resolved", J::s(defpath(tcx, rd))));
                        o.push(("resolved_dp", J::s(dp(tcx, rd))));
                        let ik = format!("{:?}", inst.def);
                        o.push(("ikind", J::s(ik.split('(').next().unwrap_or("").to_string())));
                        o.push(("local", J::Bool(rd.is_local())));
                    }
                    _ => {
                        o.push(("unresolved", J::Bool(true)));
                    }
                }
            }
            ty::FnPtr(..) => {
                o.push(("indirect", J::s("fnptr")));
            }
            _ => {
                o.push(("indirect", J::s(ty_str(fty))));
            }
        }
    }

    fn terminator(&self, t: &Terminator<'tcx>) -> J {
        let tcx = self.tcx;
        let mut o = J::obj();
        let k: &str;
        let bb = |b: BasicBlock| J::Num(b.as_u32() as i128);
        let unwind = |u: &UnwindAction| match u {
            UnwindAction::Cleanup(b) => J::Num(b.as_u32() as i128),
            UnwindAction::Continue => J::s("continue"),
            UnwindAction::Unreachable => J::s("unreachable"),
            UnwindAction::Terminate(_) => J::s("terminate"),
        };
        match &t.kind {
            TerminatorKind::Goto { target } => {
                k = "Goto";
                o.push(("target", bb(*target)));
            }
            TerminatorKind::SwitchInt { discr, targets } => {
                k = "SwitchInt";
                o.push(("discr", self.operand(discr)));
                o.push(("dty", J::s(ty_str(self.op_ty(discr)))));
                let mut ts = Vec::new();
                for (v, b) in targets.iter() {
                    ts.push(J::Arr(vec![J::Num(v as i128), bb(b)]));
                }
                o.push(("targets", J::Arr(ts)));
                o.push(("otherwise", bb(targets.otherwise())));
            }
            TerminatorKind::Return => k = "Return",
            TerminatorKind::Unreachable => k = "Unreachable",
            TerminatorKind::UnwindResume => k = "UnwindResume",
            TerminatorKind::UnwindTerminate(_) => k = "UnwindTerminate",
            TerminatorKind::Drop { place, target, unwind: u, .. } => {
                k = "Drop";
                o.push(("place", self.place(place)));
                o.push(("target", bb(*target)));
                o.push(("unwind", unwind(u)));
            }
            TerminatorKind::Call { func, args, destination, target, unwind: u, .. } => {
                k = "Call";
                self.callee(func, &mut o);
                if let Operand::Copy(p) | Operand::Move(p) = func {
                    o.push(("fplace", self.place(p)));
                }
                o.push(("args", J::Arr(args.iter().map(|a| self.operand(&a.node)).collect())));
                o.push((
                    "arg_tys",
                    J::Arr(args.iter().map(|a| J::s(ty_str(self.op_ty(&a.node)))).collect()),
                ));
                o.push(("dest", self.place(destination)));
                if let Some(t) = target {
                    o.push(("target", bb(*t)));
                }
                o.push(("unwind", unwind(u)));
            }
            TerminatorKind::TailCall { func, args, .. } => {
                k = "TailCall";
                self.callee(func, &mut o);
                o.push(("args", J::Arr(args.iter().map(|a| self.operand(&a.node)).collect())));
            }
            TerminatorKind::Assert { cond, expected, msg, target, unwind: u } => {
                k = "Assert";
                o.push(("cond", self.operand(cond)));
                o.push(("expected", J::Bool(*expected)));
                let m = format!("{:?}", msg);
                o.push(("msg", J::s(m.split('(').next().unwrap_or("").to_string())));
                o.push(("target", bb(*target)));
                o.push(("unwind", unwind(u)));
            }
            TerminatorKind::FalseEdge { real_target, .. } => {
                k = "Goto";
                o.push(("target", bb(*real_target)));
            }
            TerminatorKind::FalseUnwind { real_target, .. } => {
                k = "Goto";
                o.push(("target", bb(*real_target)));
            }
            other => {
                k = "Other";
                o.push(("dbg", J::s(format!("{:?}", other).chars().take(200).collect::<String>())));
            }
        }
        o.insert(0, ("k", J::s(k)));
        o.push(("sp", sp(tcx, t.source_info.span)));
        if t.source_info.span.from_expansion() {
            o.push(("x", J::Bool(true)));
            // name of the outermost macro for diagnostics / filtering (format_args, panic, assert ...)
            let ed = t.source_info.span.ctxt().outer_expn_data();
            o.push(("mac", J::s(format!("{}", ed.kind.descr()))));
        }
        J::Obj(o)
    }
}

pub fn dump_body<'tcx>(
    tcx: TyCtxt<'tcx>,
    owner: rustc_hir::def_id::DefId,
    body: &Body<'tcx>,
    inst: Option<ty::Instance<'tcx>>,
) -> J {
    let cx = Ctx { tcx, body, owner, inst };
    let mut o = J::obj();
    o.push(("path", J::s(defpath(tcx, owner))));
    o.push(("dp", J::s(dp(tcx, owner))));
    o.push(("kind", J::s(format!("{:?}", tcx.def_kind(owner)))));
    o.push(("span", sp(tcx, body.span)));
    o.push(("arg_count", J::Num(body.arg_count as i128)));
    let mut locals = Vec::new();
    for (_l, d) in body.local_decls.iter_enumerated() {
        let t = cx.mono_ty(d.ty);
        let _ = d.mutability;
        let mut lo = vec![("ty", J::s(ty_str(t)))];
        if let Some(a) = ty_adt(tcx, t) {
            lo.push(("adt", J::s(a)));
        }
        locals.push(J::Obj(lo));
    }
    o.push(("locals", J::Arr(locals)));
    let mut dbg = Vec::new();
    for v in &body.var_debug_info {
        if let VarDebugInfoContents::Place(p) = &v.value {
            dbg.push(J::Obj(vec![("name", J::s(v.name.to_string())), ("place", cx.place(p))]));
        }
    }
    o.push(("vars", J::Arr(dbg)));
    let doms = body.basic_blocks.dominators();
    let mut blocks = Vec::new();
    for (bb, data) in body.basic_blocks.iter_enumerated() {
        let mut stmts = Vec::new();
        for s in &data.statements {
            match &s.kind {
                StatementKind::Assign(box (place, rv)) => {
                    let mut so = vec![("k", J::s("Assign")), ("lhs", cx.place(place)), ("rv", cx.rvalue(rv))];
                    so.push(("sp", sp(tcx, s.source_info.span)));
                    if s.source_info.span.from_expansion() {
                        so.push(("x", J::Bool(true)));
                    }
                    stmts.push(J::Obj(so));
                }
                StatementKind::SetDiscriminant { place, variant_index } => {
                    stmts.push(J::Obj(vec![
                        ("k", J::s("SetDiscriminant")),
                        ("lhs", cx.place(place)),
                        ("vidx", J::Num(variant_index.as_u32() as i128)),
                    ]));
                }
                _ => {}
            }
        }
        let mut bo = vec![("stmts", J::Arr(stmts))];
        if let Some(t) = &data.terminator {
            bo.push(("term", cx.terminator(t)));
        }
        if data.is_cleanup {
            bo.push(("cleanup", J::Bool(true)));
        }
        let idom = doms.immediate_dominator(bb).map(|b| b.as_u32() as i128).unwrap_or(-1);
        bo.push(("idom", J::Num(idom)));
        blocks.push(J::Obj(bo));
    }
    o.push(("blocks", J::Arr(blocks)));
    J::Obj(o)
}
