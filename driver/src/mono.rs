//! A small re-implementation of the mono collector: starting from every local function that can be
//! instantiated without choosing types (no type/const parameters, or only unbounded ones which are
//! set to `()`), instantiate each reached instance's MIR and resolve its calls and closures.
use crate::json::J;
use crate::mirdump;
use crate::util::*;
use rustc_hir::def::DefKind;
use rustc_middle::mir::*;
use rustc_middle::ty::{self, GenericArgs, Instance, TyCtxt, TypingEnv};
use std::collections::{HashMap, VecDeque};

fn root_instance<'tcx>(tcx: TyCtxt<'tcx>, did: rustc_hir::def_id::DefId) -> Option<(Instance<'tcx>, bool)> {
    let generics = tcx.generics_of(did);
    let mut needs_unit = false;
    let mut bad = false;
    let args = GenericArgs::for_item(tcx, did, |param, _| match param.kind {
        ty::GenericParamDefKind::Lifetime => tcx.lifetimes.re_erased.into(),
        ty::GenericParamDefKind::Type { .. } => {
            needs_unit = true;
            tcx.types.unit.into()
        }
        ty::GenericParamDefKind::Const { .. } => {
            bad = true;
            tcx.mk_param_from_def(param)
        }
    });
    let _ = generics;
    if bad {
        return None;
    }
    if needs_unit {
        // only when `()` satisfies every bound
        if tcx.instantiate_and_check_impossible_predicates((did, args)) {
            return None;
        }
    }
    Some((Instance::new_raw(did, args), needs_unit))
}

pub fn graph<'tcx>(tcx: TyCtxt<'tcx>) -> J {
    let env = TypingEnv::fully_monomorphized();
    let mut queue: VecDeque<Instance<'tcx>> = VecDeque::new();
    let mut ids: HashMap<Instance<'tcx>, usize> = HashMap::new();
    let mut order: Vec<Instance<'tcx>> = Vec::new();
    let mut roots = Vec::new();
    for ldid in tcx.hir_body_owners() {
        let did = ldid.to_def_id();
        if !matches!(tcx.def_kind(did), DefKind::Fn | DefKind::AssocFn) {
            continue;
        }
        if !tcx.is_mir_available(did) {
            continue;
        }
        if let Some((inst, unit)) = root_instance(tcx, did) {
            if !ids.contains_key(&inst) {
                ids.insert(inst, order.len());
                order.push(inst);
                queue.push_back(inst);
            }
            roots.push(J::Obj(vec![
                ("id", J::Num(ids[&inst] as i128)),
                ("path", J::s(defpath(tcx, did))),
                ("unit", J::Bool(unit)),
            ]));
        }
    }
    let mut out: Vec<J> = Vec::new();
    let mut idx = 0usize;
    while let Some(inst) = queue.pop_front() {
        let did = inst.def_id();
        debug_assert_eq!(ids[&inst], idx);
        idx += 1;
        let mut o = J::obj();
        o.push(("id", J::Num(ids[&inst] as i128)));
        o.push(("inst", J::s(format!("{}", inst))));
        o.push(("path", J::s(defpath(tcx, did))));
        o.push(("dp", J::s(dp(tcx, did))));
        if !matches!(inst.def, ty::InstanceKind::Item(_)) || !did.is_local() || !tcx.is_mir_available(did) {
            o.push(("opaque", J::Bool(true)));
            out.push(J::Obj(o));
            continue;
        }
        let body = tcx.instance_mir(inst.def);
        // edges: (block index) -> callee instance id ; closures created -> instance id
        let mut edges = Vec::new();
        let mut add = |callee: Instance<'tcx>,
                       ids: &mut HashMap<Instance<'tcx>, usize>,
                       order: &mut Vec<Instance<'tcx>>,
                       queue: &mut VecDeque<Instance<'tcx>>| {
            if let Some(&i) = ids.get(&callee) {
                return i;
            }
            let i = order.len();
            ids.insert(callee, i);
            order.push(callee);
            queue.push_back(callee);
            i
        };
        for (bb, data) in body.basic_blocks.iter_enumerated() {
            for s in &data.statements {
                if let StatementKind::Assign(box (_, rv)) = &s.kind {
                    match rv {
                        Rvalue::Aggregate(box AggregateKind::Closure(cdid, cargs), _) => {
                            let cargs = inst.instantiate_mir_and_normalize_erasing_regions(
                                tcx,
                                env,
                                ty::EarlyBinder::bind(*cargs),
                            );
                            let ci = Instance::new_raw(*cdid, cargs);
                            let i = add(ci, &mut ids, &mut order, &mut queue);
                            edges.push(J::Obj(vec![
                                ("bb", J::Num(bb.as_u32() as i128)),
                                ("to", J::Num(i as i128)),
                                ("kind", J::s("closure")),
                            ]));
                        }
                        // function items used as values (e.g. `.map(Self::f)`): reify
                        Rvalue::Cast(CastKind::PointerCoercion(_, _), op, _) | Rvalue::Use(op, ..) => {
                            if let Operand::Constant(c) = op {
                                let t = inst.instantiate_mir_and_normalize_erasing_regions(
                                    tcx,
                                    env,
                                    ty::EarlyBinder::bind(c.const_.ty()),
                                );
                                if let ty::FnDef(fd, fargs) = t.kind() {
                                    if let Ok(Some(ci)) = Instance::try_resolve(tcx, env, *fd, fargs) {
                                        let i = add(ci, &mut ids, &mut order, &mut queue);
                                        edges.push(J::Obj(vec![
                                            ("bb", J::Num(bb.as_u32() as i128)),
                                            ("to", J::Num(i as i128)),
                                            ("kind", J::s("fnref")),
                                        ]));
                                    }
                                }
                            }
                        }
                        _ => {}
                    }
                }
            }
            if let Some(t) = &data.terminator {
                let (func, args) = match &t.kind {
                    TerminatorKind::Call { func, args, .. } => (func, args),
                    TerminatorKind::TailCall { func, args, .. } => (func, args),
                    _ => continue,
                };
                // fn items passed as arguments (e.g. `.map(LhsValue::from)`)
                for a in args.iter() {
                    if let Operand::Constant(c) = &a.node {
                        let t = inst.instantiate_mir_and_normalize_erasing_regions(
                            tcx,
                            env,
                            ty::EarlyBinder::bind(c.const_.ty()),
                        );
                        if let ty::FnDef(fd, fargs) = t.kind() {
                            if let Ok(Some(ci)) = Instance::try_resolve(tcx, env, *fd, fargs) {
                                let i = add(ci, &mut ids, &mut order, &mut queue);
                                edges.push(J::Obj(vec![
                                    ("bb", J::Num(bb.as_u32() as i128)),
                                    ("to", J::Num(i as i128)),
                                    ("kind", J::s("fnref")),
                                ]));
                            }
                        }
                    }
                }
                let fty = inst.instantiate_mir_and_normalize_erasing_regions(
                    tcx,
                    env,
                    ty::EarlyBinder::bind(func.ty(body, tcx)),
                );
                // blanket impls in core call back into local code: `x.into()` runs `<U as From<T>>::from`,
                // `x.try_into()` runs `<U as TryFrom<T>>::try_from`, `it.collect::<B>()` runs `<B as FromIterator<_>>::from_iter`
                if let ty::FnDef(fd, fargs) = fty.kind() {
                    let name = tcx.def_path_str(*fd);
                    let back: Option<(&str, &str, Vec<ty::GenericArg<'tcx>>)> = match name.as_str() {
                        "core::convert::Into::into" if fargs.len() == 2 => Some(("From", "from", vec![fargs[1], fargs[0]])),
                        "core::convert::TryInto::try_into" if fargs.len() == 2 => Some(("TryFrom", "try_from", vec![fargs[1], fargs[0]])),
                        _ => None,
                    };
                    if let Some((tr, meth, targs)) = back {
                        let sym = rustc_span::Symbol::intern(tr);
                        if let Some(trait_did) = tcx.get_diagnostic_item(sym) {
                            let m = tcx
                                .associated_items(trait_did)
                                .in_definition_order()
                                .find(|it| it.name().as_str() == meth)
                                .map(|it| it.def_id);
                            if let Some(mdid) = m {
                                let a = tcx.mk_args(&targs);
                                if let Ok(Some(ci)) = Instance::try_resolve(tcx, env, mdid, a) {
                                    let i = add(ci, &mut ids, &mut order, &mut queue);
                                    edges.push(J::Obj(vec![
                                        ("bb", J::Num(bb.as_u32() as i128)),
                                        ("to", J::Num(i as i128)),
                                        ("kind", J::s("call")),
                                        ("via", J::s(name.clone())),
                                    ]));
                                }
                            }
                        }
                    }
                }
                match fty.kind() {
                    ty::FnDef(fd, fargs) => match Instance::try_resolve(tcx, env, *fd, fargs) {
                        Ok(Some(ci)) => {
                            let virt = matches!(ci.def, ty::InstanceKind::Virtual(..));
                            let i = add(ci, &mut ids, &mut order, &mut queue);
                            let mut e = vec![
                                ("bb", J::Num(bb.as_u32() as i128)),
                                ("to", J::Num(i as i128)),
                                ("kind", J::s(if virt { "virtual" } else { "call" })),
                            ];
                            if virt {
                                e.push(("method", J::s(defpath(tcx, *fd))));
                            }
                            edges.push(J::Obj(e));
                        }
                        _ => {
                            edges.push(J::Obj(vec![
                                ("bb", J::Num(bb.as_u32() as i128)),
                                ("kind", J::s("unresolved")),
                                ("callee", J::s(defpath(tcx, *fd))),
                            ]));
                        }
                    },
                    _ => {
                        edges.push(J::Obj(vec![
                            ("bb", J::Num(bb.as_u32() as i128)),
                            ("kind", J::s("indirect")),
                            ("fty", J::s(ty_str(fty))),
                        ]));
                    }
                }
            }
        }
        o.push(("edges", J::Arr(edges)));
        o.push(("mir", mirdump::dump_body(tcx, did, body, Some(inst))));
        out.push(J::Obj(o));
    }
    J::Obj(vec![("roots", J::Arr(roots)), ("instances", J::Arr(out))])
}
