use crate::json::J;
use rustc_hir::def_id::DefId;
use rustc_middle::ty::{self, Ty, TyCtxt};
use rustc_span::Span;

pub fn span_str(tcx: TyCtxt<'_>, sp: Span) -> String {
    let sm = tcx.sess.source_map();
    // use the outermost call site so that macro-expanded code points at the invocation in the crate
    let sp0 = sp.source_callsite();
    let lo = sm.lookup_char_pos(sp0.lo());
    let name = match &lo.file.name {
        rustc_span::FileName::Real(r) => match r.local_path() {
            Some(p) => p.display().to_string(),
            None => format!("{:?}", lo.file.name),
        },
        other => format!("{:?}", other),
    };
    format!("{}:{}", name, lo.line)
}

pub fn sp(tcx: TyCtxt<'_>, span: Span) -> J {
    J::s(span_str(tcx, span))
}

pub fn defpath(tcx: TyCtxt<'_>, did: DefId) -> String {
    tcx.def_path_str(did)
}

/// unique, order-stable def path (`::ast::field_expr::{impl#12}::f::{impl#3}::compare`)
pub fn dp(tcx: TyCtxt<'_>, did: DefId) -> String {
    if did.is_local() {
        tcx.def_path(did).to_string_no_crate_verbose()
    } else {
        format!("{}{}", tcx.crate_name(did.krate), tcx.def_path(did).to_string_no_crate_verbose())
    }
}

pub fn ty_str<'tcx>(ty: Ty<'tcx>) -> String {
    format!("{}", ty)
}

/// ADT def path of a type, looking through references / Box (for "what nominal type is this")
pub fn ty_adt<'tcx>(tcx: TyCtxt<'tcx>, ty: Ty<'tcx>) -> Option<String> {
    let mut t = ty;
    loop {
        match t.kind() {
            ty::Ref(_, inner, _) => t = *inner,
            ty::RawPtr(inner, _) => t = *inner,
            ty::Adt(def, args) => {
                if def.is_box() {
                    t = args.type_at(0);
                    continue;
                }
                return Some(tcx.def_path_str(def.did()));
            }
            _ => return None,
        }
    }
}
