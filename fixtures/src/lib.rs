//! Positive examples for the zero-expected rules: each module contains exactly the construct a rule must report.
//! The checks run the rule on these facts on every run and fail closed if it does not fire (a rule that cannot
//! fire decides nothing). This crate is analysed by the fact driver only; it is never executed.
#![allow(dead_code)]

/// R03-anyacc: a reference to the Box itself coerced to `dyn Any`
pub mod anyacc {
    use std::any::Any;
    pub struct Ctx {
        inner: Box<dyn Any + Send + Sync>,
    }
    impl Ctx {
        pub fn as_any_mut(&mut self) -> &mut (dyn Any + Send + Sync) {
            &mut self.inner
        }
        pub fn as_any_ref(&self) -> &(dyn Any + Send + Sync) {
            &*self.inner
        }
    }
}

/// R06-narrow: lossy integer casts in a "lexer"
pub mod lex {
    pub enum LexErrorKind {
        EOF,
    }
    pub fn index(i: i64) -> u32 {
        i as u32
    }
    pub fn hashes(n: usize) -> u8 {
        n as u8
    }
    pub fn widen(n: u8) -> u64 {
        n as u64
    }
    /// R05-span: an error value whose span is a string constant
    pub fn bad_span(_input: &str) -> Result<(), (LexErrorKind, &str)> {
        Err((LexErrorKind::EOF, ""))
    }
    /// R06-digits: only length-checked text handed to from_str_radix
    pub fn fixed(input: &str) -> Option<u8> {
        let digits = &input[..2];
        match u8::from_str_radix(digits, 16) {
            Ok(b) => Some(b),
            Err(_) => None,
        }
    }
}

/// R20-utf8: unchecked conversion of caller memory to str
pub mod utf8 {
    pub fn to_str(ptr: *const u8, len: usize) -> &'static str {
        unsafe { std::str::from_utf8_unchecked(std::slice::from_raw_parts(ptr, len)) }
    }
}

/// R18-unsafeimpl
pub mod unsafeimpl {
    pub struct Counter(std::cell::Cell<u64>);
    unsafe impl Sync for Counter {}
}

/// R14-borrow: a borrowed-only key request
pub mod borrow {
    use serde::de::{MapAccess, Visitor};
    pub struct V;
    impl<'de> Visitor<'de> for V {
        type Value = usize;
        fn expecting(&self, f: &mut std::fmt::Formatter<'_>) -> std::fmt::Result {
            f.write_str("a map")
        }
        fn visit_map<A: MapAccess<'de>>(self, mut map: A) -> Result<usize, A::Error> {
            let mut n = 0;
            while let Some((_k, _v)) = map.next_entry::<&str, bool>()? {
                n += 1;
            }
            Ok(n)
        }
    }
}

/// R14-panic: an explicit panic reachable from a deserializer
pub mod deser_panic {
    use serde::de::{Deserialize, Deserializer};
    pub struct Deep(pub u8);
    fn convert(n: u8) -> Deep {
        if n > 32 {
            panic!("too deep");
        }
        Deep(n)
    }
    impl<'de> Deserialize<'de> for Deep {
        fn deserialize<D: Deserializer<'de>>(d: D) -> Result<Self, D::Error> {
            u8::deserialize(d).map(convert)
        }
    }
}

/// R17-const: a matcher that is not the documented constant
pub mod constret {
    pub fn always(x: u8) -> bool {
        if x > 3 {
            return false;
        }
        true
    }
}
