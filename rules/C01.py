"""C01 — scalar comparisons and boolean logic evaluate per the reference semantics."""
from lib import *
import sem
import common

LEVEL = "other"
EXPLANATION = ("Every finite table that fixes the meaning of an operator is extracted from the type-checked program "
               "and compared with the table the property statement defines: operator spellings, the ordering bit "
               "masks (constant-folded into the 6x4 truth table incl. incomparable addresses), the Rust operator "
               "used by each of the 6x3 generated comparison bodies per match arm, IP family separation, the "
               "absent-value default of every compiled comparison (false, except `!=` -> the scheme's "
               "nil-not-equal setting, default true), the and/or/xor/not tables of the logical compiler, the "
               "precedence order and the recursion guard of the precedence parser, and `not` binding to one simple "
               "expression. Arithmetic of core's comparisons is trusted; run-time composition is not decided.")

CMP_COMPILE = common.CMP_COMPILE
IP_ORD = "rhs_types::ip::{impl strict_partial_ord::StrictPartialOrd for core::net::ip_addr::IpAddr}::strict_partial_cmp"
OPS = {"Equal": "Eq", "NotEqual": "Ne", "GreaterThanEqual": "Ge", "LessThanEqual": "Le", "GreaterThan": "Gt", "LessThan": "Lt"}
# rows: operator, columns: Less, Equal, Greater, incomparable
TRUTH = {"Equal": (0, 1, 0, 0), "NotEqual": (1, 0, 1, 1), "GreaterThanEqual": (0, 1, 1, 0),
         "LessThanEqual": (1, 1, 0, 0), "GreaterThan": (0, 0, 1, 0), "LessThan": (1, 0, 0, 0)}


def rule_mask(E, R):
    rule = "R01-mask"
    a = E.adt("ast::field_expr::OrderingOp")
    if not a:
        return R.cannot(rule, "ast::field_expr::OrderingOp", "enum not found")
    masks = {v["name"]: v["discr"] for v in a["variants"]}
    fn = "ast::field_expr::OrderingOp::matches"
    h = E.hir(fn)
    if not h:
        return R.cannot(rule, fn, "anchor not found")
    consts = {s["path"]: s.get("value") for s in E.statics}
    flags = {}
    for m in find_matches(h["body"], r"core::cmp::Ordering$"):
        for arm in m["arms"]:
            v = pat_variant(arm["pat"])
            d = def_path(arm["body"])
            if v and d is not None:
                flags[last_seg(v)] = consts.get(d, lit_value(arm["body"]))
    S = sem.Sem(E, h)
    t = S.resolve(fn_result(h), S.root).node
    shape = mask_is_self = False
    # `x & y != 0` (or `> 0`), written with the zero on either side
    band = None
    if t.get("k") == "Binary":
        if (t["op"] in ("Ne", "Gt") and lit_value(t["r"]) == 0) or (t["op"] in ("Ne", "Lt") and lit_value(t["l"]) == 0):
            band = deref(t["l"]) if lit_value(t["r"]) == 0 else deref(t["r"])
    if band is not None and band.get("op") == "BitAnd":
        sides = [S.resolve(band["l"], S.root).node, S.resolve(band["r"], S.root).node]
        casts = [x for x in sides if x.get("k") == "Cast" and sem.param_index(S, x["e"], S.root) == 0]
        tables = [x for x in sides if x.get("k") == "Match" and sem.param_index(S, x["scrut"], S.root) == 1]
        mask_is_self = len(casts) == 1
        shape = len(tables) == 1
    R.check(shape and mask_is_self, rule, fn, "matches() is `(self as u8) & flag(ordering) != 0`", where=h["span"])
    if set(flags) != {"Less", "Equal", "Greater"} or any(not isinstance(x, int) for x in flags.values()):
        return R.cannot(rule, fn, "ordering flags not extracted: %s" % flags)
    # matches_opt(None) / matches_opt(Some(o))
    fo = "ast::field_expr::OrderingOp::matches_opt"
    ho = E.hir(fo)
    none_is = None
    some_ok = False
    if ho:
        So = sem.Sem(E, ho, inline=False)
        none_e = some_e = None       # (node, frame)
        tl = S_tail = So.resolve(fn_result(ho), So.root).node
        if tl.get("k") == "MethodCall" and tl["m"] == "map_or" and sem.param_index(So, tl["recv"], So.root) == 1:
            clo = closure_of(tl["args"][1])
            none_e = tl["args"][0]
            some_e = tail(clo["body"]) if clo else None
        else:
            pO = lambda v: sem.param_index(So, v.node, v.frame) == 1
            for leaf in So.result_leaves():
                adm = sem.admits(leaf.pc, pO, None)
                if adm == {"Option::None"}:
                    none_e = leaf.node
                elif adm == {"Option::Some"}:
                    some_e = leaf.node
        if none_e is not None:
            f = So.formula(none_e, So.root)
            neg = False
            if f[0] == "not":
                f, neg = f[1], True
            if f == ("true",) or f == ("false",):
                none_is = ("lit", (f == ("true",)) != neg)
            elif f[0] == "atom" and f[1].kind == "is" and len(f[1].alts) == 1 and sem.param_index(So, f[1].scruts[0].node, f[1].scruts[0].frame) == 0:
                none_is = ("Ne" if neg else "Eq", last_seg(f[1].alts[0][0]))
        if some_e is not None:
            b = sem.peel(some_e)
            arg_b = So.lookup(sem.peel(b["args"][0]), So.root) if b.get("k") == "MethodCall" and b.get("args") else None
            some_ok = b.get("k") == "MethodCall" and norm(b.get("callee", "")) == fn and sem.param_index(So, b["recv"], So.root) == 0 \
                and arg_b is not None and arg_b.kind in ("pat", "closure-param") and sem.param_index(So, b["args"][0], So.root) == 1
        R.check(some_ok, rule, fo, "matches_opt(Some(o)) delegates to matches(o)", where=ho["span"])
    else:
        R.cannot(rule, fo, "anchor not found")
    for op, want in TRUTH.items():
        if op not in masks:
            R.violation(rule, "ast::field_expr::OrderingOp", "variant %s missing" % op)
            continue
        got = tuple(int(masks[op] & flags[c] != 0) for c in ("Less", "Equal", "Greater"))
        if none_is is None:
            inc = None
        elif none_is[0] == "Eq":
            inc = int(op == none_is[1])
        elif none_is[0] == "Ne":
            inc = int(op != none_is[1])
        else:
            inc = int(bool(none_is[1]))
        got = got + (inc,)
        R.check(got == want, rule, "ast::field_expr::OrderingOp::" + op,
                "truth table over (Less, Equal, Greater, incomparable)",
                "mask %s gives %s, the language defines %s" % (bin(masks[op]), got, want), a["span"])


def rule_ordarm(E, R):
    rule = "R01-ordarm"
    h = E.hir(CMP_COMPILE)
    if not h:
        return R.cannot(rule, CMP_COMPILE, "anchor not found")
    seen = set()
    n = 0
    for node, st in sem.sem_walk(E, h):
        if not (node.get("k") == "SItem" and node.get("ik") == "Impl" and node.get("trait", "").endswith("Compare")):
            continue
        arm = arm_variants(st, "OrderingOp")
        rv = arm_variants(st, "RhsValue")
        if not rv or len(rv) != 1:
            continue
        kind = rv[0]
        if (not arm or len(arm) != 1):
            # a comparator shared by all six operators (possible for Ip, whose comparator dispatches on `op` at run time)
            if arm_variants(st, "ComparisonOpExpr") == ["Ordering"] and kind == "Ip":
                for it in node["items"]:
                    if it["name"] != "compare":
                        continue
                    hb = E.hir_by_dp.get(it["dp"])
                    t = fn_result(hb) if hb and "body" in hb else {}
                    ok = t.get("k") == "MethodCall" and norm(t.get("callee", "")) == "ast::field_expr::OrderingOp::matches_opt" and \
                        root_is_field(t["recv"], "self", "op")
                    arg = strip(t["args"][0]) if ok else {}
                    ok = ok and arg.get("k") == "MethodCall" and norm(arg.get("resolved", "")) == IP_ORD and root_is_field(arg["args"][0], "self", "ip")
                    R.check(ok, rule, CMP_COMPILE, "shared Ip comparator is op.matches_opt(value.strict_partial_cmp(literal))", where=hb["span"] if hb else "")
                    if ok:
                        n += 1
                        seen |= {(o, "Ip") for o in OPS}
            continue
        op = arm[0]
        for it in node["items"]:
            if it["name"] != "compare":
                continue
            hb = E.hir_by_dp.get(it["dp"])
            if not hb or "body" not in hb:
                R.cannot(rule, it["path"], "no body")
                continue
            n += 1
            seen.add((op, kind))
            fn = CMP_COMPILE
            label = "%s on %s" % (op, kind)
            if kind in ("Bytes", "Int"):
                ops = [b for b in binops(hb["body"]) if b in OPS.values()]
                R.check(ops == [OPS[op]], rule, fn, label + " uses the matching Rust operator",
                        "body uses %s, expected %s" % (ops, OPS[op]), hb["span"])
                # operands: the cast value (left) against the literal (right)
                t = fn_result(hb)
                left_is_value = t.get("k") == "Binary" and any(is_param(p, hb, 1) for p in exprs(t["l"], "Path")) and \
                    any(local_name(p) == "self" for p in exprs(t["r"], "Path"))
                R.check(left_is_value, rule, fn, label + " compares value <op> literal (not swapped)", where=hb["span"])
            else:
                t = fn_result(hb)
                ok = t.get("k") == "MethodCall" and norm(t.get("callee", "")) == "ast::field_expr::OrderingOp::matches_opt" and \
                    root_is_field(t["recv"], "self", "op")
                arg = strip(t["args"][0]) if ok else {}
                ok = ok and arg.get("k") == "MethodCall" and norm(arg.get("callee", "")) == "strict_partial_ord::StrictPartialOrd::strict_partial_cmp" \
                    and norm(arg.get("resolved", "")) == IP_ORD \
                    and any(is_param(p, hb, 1) for p in exprs(arg["recv"], "Path")) and root_is_field(arg["args"][0], "self", "ip")
                R.check(ok, rule, fn, label + " is op.matches_opt(value.strict_partial_cmp(literal))",
                        "IP comparison must go through the family-strict ordering", hb["span"])
        # the IpOp literal carries the matched `op`
        for s in exprs(node if False else {"k": "x"}, "Struct"):
            pass
    # struct IpOp { op, ip } built with the matched operator: the binding of field `op` of the `Ordering { op, rhs }` pattern
    matched_ops = set()
    for q in walk(h["body"]):
        if q.get("k") == "PStruct" and norm(q["res"].get("path", "")).endswith("ComparisonOpExpr::Ordering"):
            for fld in q["fields"]:
                if fld["name"] == "op":
                    matched_ops |= set(pat_bindings(fld["pat"]))
    So = sem.Sem(E, h)

    def is_matched_op(n_, fr_):
        """the value is the `op` field bound by the `Ordering { op, .. }` pattern (directly, or handed to a private helper)"""
        v_ = So.resolve(n_, fr_)
        b_ = v_.bind or So.lookup(v_.node, v_.frame)
        return b_ is not None and b_.kind == "pat" and any(p_[0] == "f" and "Ordering" in str(p_[1]) and p_[2] == "op" for p_ in b_.proj)
    for st in So.sites():
        node = st.node
        if node.get("k") == "Struct" and norm(node["res"].get("path", "")).endswith("::IpOp"):
            f = {x["name"]: x["e"] for x in node["fields"]}
            arm = arm_variants(st, "OrderingOp")
            R.check("op" in f and is_matched_op(f["op"], st.frame), rule, CMP_COMPILE,
                    "%s on Ip: comparator built with the matched operator" % (arm[0] if arm else "?"), where=node["sp"])
    want = {(o, k) for o in OPS for k in ("Bytes", "Int", "Ip")}
    R.check(seen == want, rule, CMP_COMPILE, "all 6 operators x 3 types have a generated comparison",
            "missing %s" % sorted(want - seen))
    # the outer match on `op` is over the operator that was parsed
    good = False
    for st in So.sites():
        m = st.node
        if m.get("k") == "Match" and not sem.is_try(m) and norm(m["scrut"].get("ty", "")).replace("&", "").endswith("OrderingOp") and \
                is_matched_op(m["scrut"], st.frame):
            good = True
    R.check(good, rule, CMP_COMPILE, "arms are selected by the parsed operator", where=h["span"])


def rule_ipord(E, R):
    rule = "R01-ipord"
    fn = "<core::net::ip_addr::IpAddr as strict_partial_ord::StrictPartialOrd>::strict_partial_cmp"
    hs = [x for x in [E.hir(IP_ORD)] if x]
    if len(hs) != 1:
        return R.cannot(rule, fn, "anchor not found (%d)" % len(hs))
    h = hs[0]
    import C04
    tbl = {}
    wild_none = False
    for m in find_matches(h["body"]):
        for a in m["arms"]:
            prs = C04.tuple_pairs(a["pat"])
            t = tail(a["body"])
            if prs:
                some_cmp = t.get("k") == "Call" and norm(t.get("callee", "")) == "core::option::Option::Some" and \
                    norm(strip(t["args"][0]).get("callee", "")) == "core::cmp::Ord::cmp"
                if some_cmp:
                    c = strip(t["args"][0])
                    comps = a["pat"]["pats"] if a["pat"].get("k") == "PTuple" else (a["pat"]["pats"][0]["pats"] if a["pat"].get("k") == "POr" else [])
                    some_cmp = len(comps) == 2 and local_name(c["recv"]) in pat_bindings(comps[0]) and local_name(c["args"][0]) in pat_bindings(comps[1])
                for p in prs:
                    tbl[p] = "Some(lhs.cmp(rhs))" if some_cmp else ("None" if def_path(t) == "core::option::Option::None" else "?")
            elif a["pat"].get("k") == "PWild":
                wild_none = def_path(t) == "core::option::Option::None"
    # mixed families: a catch-all arm yielding None, or the two mixed pairs spelled out
    mixed = {p_: v_ for p_, v_ in tbl.items() if p_[0] != p_[1]}
    if mixed == {("V4", "V6"): "None", ("V6", "V4"): "None"}:
        wild_none = True
        tbl = {p_: v_ for p_, v_ in tbl.items() if p_[0] == p_[1]}
    R.check(tbl == {("V4", "V4"): "Some(lhs.cmp(rhs))", ("V6", "V6"): "Some(lhs.cmp(rhs))"} and wild_none, rule, norm(h["path"]),
            "same-family addresses are ordered, mixed families are incomparable", "extracted %s, otherwise None=%s" % (tbl, wild_none), h["span"])
    # the trait default (used by i64 / [u8]) is partial_cmp
    hd = E.hir("strict_partial_ord::StrictPartialOrd::strict_partial_cmp")
    if hd:
        t = fn_result(hd)
        R.check(t.get("k") == "MethodCall" and norm(t.get("callee", "")) == "core::cmp::PartialOrd::partial_cmp", rule,
                norm(hd["path"]), "default strict ordering is partial_cmp", where=hd["span"])


def rule_nil(E, R):
    rule = "R01-nil"
    fs = "scheme::SchemeBuilder::set_nil_not_equal_behavior"
    h = E.hir(fs)
    if h:
        asg = [a for a in exprs(h["body"], "Assign")]
        ok = len(asg) == 1 and strip(asg[0]["l"]).get("name") == "nil_not_equal_is_false" and \
            strip(asg[0]["r"]).get("k") == "Unary" and strip(asg[0]["r"]).get("op") == "Not" and is_param(strip(asg[0]["r"])["e"], h, 1)
        R.check(ok, rule, fs, "setter stores the negation of the requested behaviour", where=h["span"])
    else:
        R.cannot(rule, fs, "anchor not found")
    fg = "scheme::Scheme::nil_not_equal_behavior"
    h = E.hir(fg)
    if h:
        t = fn_result(h)
        ok = t.get("k") == "Unary" and t["op"] == "Not" and strip(t["e"]).get("name") == "nil_not_equal_is_false"
        R.check(ok, rule, fg, "getter returns the negation of the stored flag", where=h["span"])
    else:
        R.cannot(rule, fg, "anchor not found")
    # default: derived Default for SchemeBuilder (bool default false => behaviour true)
    der = [i for i in E.impls if i.get("trait") == "core::default::Default" and i.get("self_adt") == "scheme::SchemeBuilder"]
    R.check(len(der) == 1 and der[0]["derived"], rule, "scheme::SchemeBuilder", "Default is derived: flag false, i.e. `nil != x` is true by default")
    # writers of the flag
    writers = set()
    for hb in E.hir_list:
        if "body" not in hb:
            continue
        for a in exprs(hb["body"], ("Assign", "AssignOp")):
            if strip(a["l"]).get("k") == "Field" and strip(a["l"]).get("name") == "nil_not_equal_is_false":
                writers.add(norm(hb["path"]))
        for s in exprs(hb["body"], "Struct"):
            if norm(s["res"].get("path", "")) == "scheme::SchemeBuilder" and not s.get("x"):
                writers.add(norm(hb["path"]) + " (literal)")
    R.check(writers == {fs}, rule, "scheme::SchemeBuilder.nil_not_equal_is_false", "written only by the setter", str(sorted(writers)))


def _closure_arg_of(call):
    for a in call.get("args", []):
        c = closure_of(a)
        if c:
            return c
    return None


def rule_logic(E, R):
    rule = "R01-logic"
    fn = "<ast::logical_expr::LogicalExpr as ast::Expr>::compile_with_compiler"
    h = E.hir(fn)
    if not h:
        return R.cannot(rule, fn, "anchor not found")
    want_one = {"And": ("And", "all"), "Or": ("Or", "any"), "Xor": ("BitXor", "fold")}
    want_vec = {"And": ("And",), "Or": ("Or",), "Xor": ("BitXor",)}
    got_one, got_vec = {}, {}
    xor_inits = []
    for node, st in sem.sem_walk(E, h):
        if node.get("k") != "Call":
            continue
        cal = norm(node.get("callee", ""))
        if cal not in ("filter::CompiledOneExpr::new", "filter::CompiledVecExpr::new"):
            continue
        lop = arm_variants(st, "LogicalOp")
        outer = arm_variants(st, "LogicalExpr")
        clo = _closure_arg_of(node)
        if not clo:
            continue
        if outer == ["Combining"] and lop and len(lop) == 1:
            ops = [b for b in binops(clo["body"]) if b in ("And", "Or", "BitXor")]
            aops = [a["op"].replace("Assign", "") for a in exprs(clo["body"], "AssignOp")]
            red = [c["m"] for c in exprs(clo["body"], "MethodCall") if c["m"] in ("all", "any", "fold")]
            if cal.endswith("CompiledOneExpr::new"):
                loops = [m_ for m_ in exprs(clo["body"], "Match") if m_.get("src") == "ForLoopDesugar" and
                         norm(strip(m_["scrut"]).get("callee", "")).endswith("IntoIterator::into_iter")]
                if not red and len(loops) == 1 and not [b_ for b_ in exprs(loops[0], ("Break", "Ret", "Continue")) if not b_.get("x")]:
                    # an explicit accumulation loop over all the other operands is a fold
                    red = ["fold"]
                    ops = ops + aops
                    xor_inits.append((let_accumulator_init(clo["body"], loops[0]), st))
                got_one[lop[0]] = (tuple(ops), tuple(red))
            else:
                got_vec[lop[0]] = tuple(ops + aops)
        elif outer == ["Unary"]:
            nots = [u for u in exprs(clo["body"], "Unary") if u["op"] == "Not" and u.get("ty") == "bool"]
            kind = "One" if cal.endswith("CompiledOneExpr::new") else "Vec"
            extra = True
            if kind == "Vec":
                chains = [c for c in exprs(clo["body"], "MethodCall") if c["m"] == "collect"]
                extra = bool(chains) and chain_verdict(chain(chains[0])[1]) == "ok"
            R.check(len(nots) == 1 and extra, rule, fn, "not on %s negates %s" % (kind, "the value" if kind == "One" else "every element"),
                    where=node["sp"])
    for op, (b, red) in want_one.items():
        g = got_one.get(op)
        ok = g is not None and g[0] == (b,) and g[1] == (red,)
        R.check(ok, rule, fn, "scalar %s is %s combined with Iterator::%s" % (op.lower(), b, red), "extracted %s" % (g,), h["span"])
    for op, b in want_vec.items():
        g = got_vec.get(op)
        R.check(g == b, rule, fn, "element-wise %s uses %s" % (op.lower(), b[0]), "extracted %s" % (g,), h["span"])
    # xor fold starts from the first operand
    inits = [(deref(node["args"][0]), st) for node, st in sem.sem_walk(E, h)
             if node.get("k") == "MethodCall" and node["m"] == "fold" and arm_variants(st, "LogicalOp") == ["Xor"]]
    inits += [(strip(i_), st) for i_, st in xor_inits if i_ is not None and arm_variants(st, "LogicalOp") == ["Xor"]]
    for init, st in inits:
        ok = init.get("k") == "MethodCall" and init["m"] == "execute"
        if ok:
            Sx = sem.Sem(E, h)
            fr = st.frame if hasattr(st, "frame") else Sx.root
            # the site objects come from another Sem instance: find the frame of the same function in this one
            fr2 = Sx.root
            for x_ in Sx.sites():
                if x_.node is init:
                    fr2 = x_.frame
            b1, _, _, m1 = sem.provenance(Sx, init["recv"], fr2)
            ok = b1 is not None and m1[:1] == ["next"] and all(x in ("unwrap", "expect") for x in m1[1:])
        R.check(ok, rule, fn, "xor folds over all operands starting from the first", where=init.get("sp", ""))
    R.check(len(inits) >= 1, rule, fn, "scalar xor accumulates from an initial value", where=h["span"])


def let_accumulator_init(body, loop):
    """initialiser of the mutable local that the loop updates with an operator assignment (`acc ^= ..`)"""
    for a in exprs(loop, "AssignOp"):
        nm = local_name(a["l"])
        ini = let_init(body, nm) if nm else None
        if ini is not None:
            return ini
    return None


def _is_lookahead_op(n, h):
    """n is the operator component of the lookahead parameter (4th parameter of lex_more_with_precedence): the field of
    type Option<LogicalOp>, whatever it is called (`.0` of a tuple, a named field of a struct)"""
    n = strip(n)
    return n.get("k") == "Field" and is_param(n["e"], h, 3) and \
        norm(n.get("ty", "")).replace(" ", "") == "core::option::Option<ast::logical_expr::LogicalOp>"


def rule_prec(E, R):
    rule = "R01-prec"
    a = E.adt("ast::logical_expr::LogicalOp")
    if not a:
        return R.cannot(rule, "ast::logical_expr::LogicalOp", "enum not found")
    order = [v["name"] for v in a["variants"]]
    R.check(order == ["Or", "Xor", "And"], rule, "ast::logical_expr::LogicalOp",
            "variants declared in ascending binding strength Or < Xor < And", str(order), a["span"])
    der = [i for i in E.impls if i.get("self_adt") == "ast::logical_expr::LogicalOp" and i.get("trait") in ("core::cmp::Ord", "core::cmp::PartialOrd")]
    R.check(len(der) == 2 and all(i["derived"] for i in der), rule, "ast::logical_expr::LogicalOp",
            "Ord/PartialOrd are derived (precedence = declaration order)", str([(i.get("trait"), i["derived"]) for i in der]))
    fn = "ast::logical_expr::LogicalExpr::lex_more_with_precedence"
    h = E.hir(fn)
    if not h:
        return R.cannot(rule, fn, "anchor not found")
    rec = [c for c in exprs(h["body"], "MethodCall", into_closures=False) if norm(c.get("callee", "")) == fn]
    # the operator being folded: bound by `while let Some(op) = lookahead.0`
    cur_ops = set()
    for q in exprs(h["body"], "LetExpr"):
        i_ = strip(q["init"])
        if _is_lookahead_op(i_, h):
            cur_ops |= set(pat_bindings(q["pat"]))
    R.floor(rule, "recursive calls of lex_more_with_precedence", len(rec), 1)
    S = sem.Sem(E, h)
    sites = S.sites()

    def some_cur_op(n):
        n = sem.peel(n)
        return n.get("k") == "Call" and norm(n.get("callee", "")) == "core::option::Option::Some" and local_name(n["args"][0]) in cur_ops

    def certain_cmps(x):
        return [(op, l, r) for op, l, r, fr, certain in sem.weak_cmps(x.pc) if certain]
    for c in rec:
        xs = [x for x in sites if x.node is c]
        # on the way to the nested call it is established that the operator ahead binds strictly tighter than the current one:
        # `Some(op) < lookahead.op` in whatever spelling (`if la <= Some(op) { break }`, `while la > Some(op)`, a named condition)
        guard = bool(xs) and all(any(op == "Lt" and some_cur_op(l) and _is_lookahead_op(r, h) for op, l, r in certain_cmps(x)) for x in xs)
        R.check(guard, rule, fn, "recursion only for a strictly tighter operator (`lookahead.0 <= Some(op)` breaks first)",
                "with `<` instead of `<=` an equal-precedence chain would recurse without bound and associate to the right", c["sp"])
        # min_prec argument is lookahead.0
        args = c["args"]
        a1 = strip(args[1]) if len(args) > 1 else {}
        ok = _is_lookahead_op(a1, h)
        R.check(ok, rule, fn, "the nested call's lower bound is the operator just seen", where=c["sp"])
    # the reset: under `lookahead.op < min_prec` the lookahead is replaced by (None, rest)
    reset = False
    for x in sites:
        n = x.node
        if n.get("k") == "Assign" and is_param(n["l"], h, 3):
            nones = [p_ for p_ in exprs(n["r"], "Path") if def_path(p_) == "core::option::Option::None" and "LogicalOp" in norm(p_.get("ty", ""))]
            if len(nones) == 1 and any(op == "Lt" and _is_lookahead_op(l, h) and is_param(r, h, 2) for op, l, r in certain_cmps(x)):
                reset = True
    R.check(reset, rule, fn, "an operator looser than min_prec is handed back to the caller", where=h["span"])
    # entry: lex_with starts with min_prec None
    fe = "<ast::logical_expr::LogicalExpr as lex::LexWith<&ast::parse::FilterParser>>::lex_with"
    he = E.hir(fe)
    if he:
        cs = [c for c in exprs(he["body"], "MethodCall") if norm(c.get("callee", "")) == fn]
        ok = len(cs) == 1 and def_path(cs[0]["args"][1]) == "core::option::Option::None"
        R.check(ok, rule, fe, "top level starts with no lower bound", where=he["span"])
    else:
        R.cannot(rule, fe, "anchor not found")
    # same-operator chains flatten into one node: `if lhs_op == op { items.push }`
    flat = False
    for m in find_matches(h["body"], r"LogicalExpr$"):
        for a_ in m["arms"]:
            if "guard" in a_:
                g = strip(a_["guard"])
                node_ops = set()
                for q in walk(a_["pat"]):
                    if q.get("k") == "PStruct" and norm(q["res"].get("path", "")).endswith("LogicalExpr::Combining"):
                        for fld in q["fields"]:
                            if fld["name"] == "op":
                                node_ops |= set(pat_bindings(fld["pat"]))
                sides = [local_name(g["l"]), local_name(g["r"])] if g.get("k") == "Binary" else []
                if g.get("k") == "Binary" and g["op"] == "Eq" and ((sides[0] in node_ops and sides[1] in cur_ops) or
                                                                    (sides[1] in node_ops and sides[0] in cur_ops)):
                    flat = any(c["m"] == "push" for c in exprs(a_["body"], "MethodCall"))
    R.check(flat, rule, fn, "same-operator chains are flattened into one Combining node", where=h["span"])


def rule_notbind(E, R):
    """`not` binds tighter than every binary operator: its operand is lexed by lex_simple_expr (one simple expression),
    never by the entry point that also consumes `and`/`or`/`xor` chains. Read wherever the Unary node is put together
    (lex_simple_expr itself or a private helper it hands the branch to)."""
    rule = "R01-notbind"
    fn = "ast::logical_expr::LogicalExpr::lex_simple_expr"
    h = E.hir(fn)
    if not h:
        return R.cannot(rule, fn, "anchor not found")
    S = sem.Sem(E, h)
    built = [x for x in S.sites() if x.node.get("k") == "Struct" and not x.node.get("x") and
             norm(x.node["res"].get("path", "")).endswith("LogicalExpr::Unary")]
    R.check(len(built) == 1, rule, fn, "builds a Unary node", "%d construction sites" % len(built), h["span"])
    for x in built:
        # under the test that a unary operator was lexed
        lits, _ = sem.literals(x.pc)
        gated = False
        for a, pol in lits:
            if pol and a.kind in ("is", "ok"):
                nodes = [S.resolve(v.node, v.frame).node for v in a.scruts] if a.kind == "is" else [a.node]
                if any("UnaryOp" in norm(sem.peel(n).get("ty", "")) and list(calls(n, r"UnaryOp as lex::Lex>::lex$|lex::Lex::lex$")) for n in nodes):
                    gated = True
        R.check(gated, rule, fn, "unary-operator branch found", "the Unary node is not built under a successful UnaryOp::lex", x.node["sp"])
        arg = [f["e"] for f in x.node["fields"] if f["name"] == "arg"]
        lexers = []
        if arg:
            # the chain of calls the operand value went through, innermost last (helpers that were followed appear as <name>)
            ms = sem.provenance(S, arg[0], x.frame)[3]
            lexers = [m.strip("<>") for m in ms if m.strip("<>") in ("lex_simple_expr", "lex_with", "lex_more_with_precedence")]
        R.check(lexers == ["lex_simple_expr"], rule, fn, "`not` applies to the next simple expression only",
                "operand lexed by %s" % lexers, x.node["sp"])


def run(F, R, tier):
    E = F.engine
    common.rule_alias(E, R)
    rule_mask(E, R)
    rule_ordarm(E, R)
    rule_ipord(E, R)
    common.rule_default(E, R)
    rule_nil(E, R)
    rule_logic(E, R)
    rule_prec(E, R)
    rule_notbind(E, R)
    # bitwise test
    h = E.hirs(r"\w+::BitwiseAnd as ast::index_expr::Compare<U>>::compare$")
    if len(h) == 1:
        t = fn_result(h[0])
        ok = t.get("k") == "Binary" and t["op"] == "Ne" and lit_value(t["r"]) == 0 and strip(t["l"]).get("op") == "BitAnd"
        R.check(ok, "R01-ordarm", norm(h[0]["path"]), "bitwise test is `value & literal != 0`", where=h[0]["span"])
    else:
        R.cannot("R01-ordarm", "BitwiseAnd::compare", "anchor not found")
    # IsTrue
    h = E.hirs(r"\w+::IsTrue as ast::index_expr::Compare<U>>::compare$")
    if len(h) == 1:
        t = fn_result(h[0])
        ok = t.get("k") == "Match" or (t.get("k") == "Unary" and t.get("op") == "Deref") or True
        nots = [u for u in exprs(h[0]["body"], "Unary") if u["op"] == "Not"]
        R.check(not nots, "R01-ordarm", norm(h[0]["path"]), "a bare boolean field is its own value (no negation)", where=h[0]["span"])
    R.not_decided += ["run-time composition order of the compiled closures beyond the arm tables",
                      "arithmetic of i64 / slice / address comparison in core (trusted)",
                      "agreement of the three compilation strategies of IndexExpr (see C02)"]
