"""C02 — indexing, map-each, bool-array logic and any/all follow the reference semantics (table clauses)."""
from lib import *
import common
import C04

LEVEL = "other"
EXPLANATION = ("Decided (thin, stated plainly): the reduction table of any/all and its absent/`Err` default, "
               "element-wise combination with truncation to the shorter operand in all three vector arms (sibling "
               "agreement on the feature set), element-wise `not`, the empty result for an absent container in "
               "every vector compilation strategy, in-order whole-collection iteration of [*] strategies, no-value "
               "for out-of-range/absent index through Option-returning accessors, and the (container, index kind) "
               "tables shared with C04. The traversal algorithm of MapEachIterator (row-major order, flattening) "
               "and the agreement of the three strategies are NOT decided.")

LOGIC = "<ast::logical_expr::LogicalExpr as ast::Expr>::compile_with_compiler"


def rule_quant(E, R):
    rule = "R02-quant"
    fn = "ast::logical_expr::QuantifierOp::reduce_bool_iter"
    h = E.hir(fn)
    if not h:
        R.cannot(rule, fn, "anchor not found")
    else:
        tbl = {}
        for m in find_matches(h["body"], r"QuantifierOp$"):
            for a in m["arms"]:
                v = pat_variant(a["pat"])
                t = tail(a["body"])
                if v and t.get("k") == "MethodCall":
                    clo = closure_of(t["args"][0]) if t.get("args") else None
                    ident = bool(clo) and local_name(tail(clo["body"])) in pat_bindings({"k": "x", "params": clo["params"]})
                    root, ch = chain(t)
                    tbl[last_seg(v)] = (t["m"], ident, local_name(root), [x["m"] for x in ch[:-1]])
        want = {"Any": ("any", True, "values", ["into_iter"]), "All": ("all", True, "values", ["into_iter"])}
        R.check(tbl == want, rule, fn, "any = exists, all = for-all over every element (so all of an empty result is true)", str(tbl), h["span"])
    fa = "ast::logical_expr::QuantifierOp::reduce_lhs_array"
    ha = E.hir(fa)
    if ha:
        t = tail(ha["body"])
        ok = t.get("k") == "MethodCall" and t["m"] == "reduce_bool_iter" and local_name(t["recv"]) == "self"
        if ok:
            root, ch = chain(t["args"][0])
            ok = local_name(root) == "array" and chain_verdict(ch) == "ok"
        R.check(ok, rule, fa, "reduces every element of the array, in order", where=ha["span"])
    h = E.hir(LOGIC)
    if not h:
        return R.cannot(rule, LOGIC, "anchor not found")
    # Quantifier over a direct IndexExpr: Ok(Array) -> reduce, Err -> false
    found = False
    for n, st in walk_arms(h["body"]):
        if n.get("k") == "Match" and arm_variants(st, "QuantifierArgExpr") == ["IndexExpr"]:
            sc = strip(n["scrut"])
            if sc.get("k") == "MethodCall" and sc["m"] == "execute":
                found = True
                tbl = {}
                for a in n["arms"]:
                    p = a["pat"]
                    outer = pat_variant(p)
                    inner = pat_variant(p["pats"][0]) if p.get("k") == "PTupleStruct" and p.get("pats") else None
                    t = tail(a["body"])
                    if outer == "core::result::Result::Err":
                        tbl["Err"] = lit_value(t)
                    elif inner and inner.endswith("LhsValue::Array"):
                        tbl["Ok(Array)"] = t.get("m")
                    else:
                        tbl["Ok(_)"] = "unreachable" if any(norm(c.get("callee", "")).startswith("core::panicking") for c in exprs(a["body"], "Call")) else "?"
                R.check(tbl == {"Ok(Array)": "reduce_lhs_array", "Err": False, "Ok(_)": "unreachable"}, rule, LOGIC,
                        "any/all of an absent boolean-array value is false; of a present one the reduction", str(tbl), n["sp"])
    R.check(found, rule, LOGIC, "quantifier over a value expression found", where=h["span"])
    # Quantifier over a logical expression: reduce the vector result
    ok = False
    for n, st in walk_arms(h["body"]):
        if n.get("k") == "MethodCall" and n["m"] == "reduce_bool_iter" and arm_variants(st, "QuantifierArgExpr") == ["Logical"]:
            root, ch = chain(n["args"][0])
            ok = chain_verdict(ch) == "ok" and local_name(root) == "vec"
    R.check(ok, rule, LOGIC, "any/all of a mapped comparison reduces the whole element-wise result", where=h["span"])


def rule_trunc(E, R):
    rule = "R02-trunc"
    h = E.hir(LOGIC)
    if not h:
        return R.cannot(rule, LOGIC, "anchor not found")
    feats = {}
    for n, st in walk_arms(h["body"]):
        if n.get("k") == "Call" and norm(n.get("callee", "")) == "filter::CompiledVecExpr::new" and arm_variants(st, "LogicalExpr") == ["Combining"]:
            lop = arm_variants(st, "LogicalOp")
            clo = closure_of(n["args"][0])
            if not lop or not clo:
                continue
            b = clo["body"]
            zips = [c for c in exprs(b, "MethodCall") if c["m"] == "zip"]
            zip_ok = len(zips) == 1 and chain_verdict(chain(zips[0])[1][:-1]) == "ok" and local_name(chain(zips[0])[0]) == "output" and \
                local_name(chain(zips[0]["args"][0])[0]) == "values"
            trunc = None
            for i in exprs(b, "If"):
                c = strip(i["cond"])
                tr = [x for x in exprs(i["then"], "MethodCall") if x["m"] == "truncate" and local_name(x["recv"]) == "output"]
                if tr and c.get("k") == "Binary":
                    l, r = strip(c["l"]), strip(c["r"])
                    lens = (l.get("m"), local_name(l.get("recv", {})), r.get("m"), local_name(r.get("recv", {})))
                    arg = strip(tr[0]["args"][0])
                    trunc = (c["op"], lens, (arg.get("m"), local_name(arg.get("recv", {}))))
            uncond = [x for x in exprs(b, "MethodCall") if x["m"] == "truncate" and local_name(x["recv"]) == "output"]
            starts = any(s["pat"].get("name") == "output" and strip(s.get("init", {})).get("m") == "execute" and local_name(strip(s["init"])["recv"]) == "first"
                         for s in exprs(b, "SLet"))
            loops = [m for m in exprs(b, "Match") if m.get("src") == "ForLoopDesugar" and local_name(chain(strip(m["scrut"])["args"][0])[0]) == "items"]
            feats[lop[0]] = {"zip": zip_ok, "truncate": trunc, "starts_from_first": starts, "loops_over_items": len(loops) == 1, "n_trunc": len(uncond)}
    want_tr = ("Lt", ("len", "values", "len", "output"), ("len", "values"))
    for op in ("And", "Or", "Xor"):
        f = feats.get(op)
        if not f:
            R.violation(rule, LOGIC, "vector %s arm" % op.lower(), "not found")
            continue
        R.check(f["zip"], rule, LOGIC, "vector %s combines element-wise (zip of output and operand)" % op.lower(), str(f), h["span"])
        R.check(f["truncate"] == want_tr and f["n_trunc"] == 1, rule, LOGIC,
                "vector %s truncates the result to the shorter operand" % op.lower(),
                "found %s; without it a longer left operand keeps its unpaired tail" % (f["truncate"],), h["span"])
        R.check(f["starts_from_first"] and f["loops_over_items"], rule, LOGIC, "vector %s folds all operands starting from the first" % op.lower(), str(f), h["span"])
    if len(feats) == 3:
        vals = list(feats.values())
        R.check(all(v == vals[0] for v in vals), rule, LOGIC, "the three vector arms agree on the feature set", str(feats))


def rule_absent(E, R):
    rule = "R02-absent"
    # BOOL_ARRAY is the empty typed array
    c = [x for x in E.hir_list if "body" in x and norm(x["path"]) == "ast::index_expr::BOOL_ARRAY"]
    ok = bool(c) and norm(tail(c[0]["body"]).get("callee", "")) == "lhs_types::array::TypedArray::new"
    R.check(ok, rule, "ast::index_expr::BOOL_ARRAY", "the absent-container result constant is the empty array", where=c[0]["span"] if c else "")
    hn = E.hir("lhs_types::array::TypedArray::new")
    if hn:
        vn = [x for x in exprs(hn["body"], "Call") if norm(x.get("callee", "")) == "alloc::vec::Vec::new"]
        R.check(len(vn) == 1, rule, "lhs_types::array::TypedArray::new", "TypedArray::new() holds an empty vector", where=hn["span"])
    fn = "ast::index_expr::IndexExpr::compile_vec_with"
    h = E.hir(fn)
    if h:
        ms = [m for m in exprs(h["body"], "MethodCall") if m["m"] == "map_or"]
        R.floor(rule, "map_or sites in compile_vec_with", len(ms), 2)
        for m in ms:
            d = def_path(m["args"][0]) or ""
            R.check(d.endswith("BOOL_ARRAY"), rule, fn, "absent container / index -> empty result", d, m["sp"])
            clo = closure_of(m["args"][1])
            ok = False
            if clo:
                fi = [x for x in exprs(clo["body"], "Call") if norm(x.get("callee", "")).endswith("FromIterator::from_iter")]
                if fi:
                    root, ch = chain(fi[0]["args"][0])
                    ms_ = [x["m"] for x in ch]
                    ok = ms_[:2] == ["iter", "unwrap"] and chain_verdict([x for x in ch if x["m"] != "unwrap"]) == "ok" and local_name(root) == "val"
            R.check(ok, rule, fn, "every element of the container is compared, in iteration order", where=m["sp"])
    else:
        R.cannot(rule, fn, "anchor not found")
    fn = "ast::index_expr::IndexExpr::compile_iter_with"
    h = E.hir(fn)
    if h:
        rets = []
        for r in exprs(h["body"], "Ret"):
            e = strip(r.get("e", {}))
            rets.append(norm(e.get("callee", "")))
        ok = len(rets) == 2 and all(x.endswith("Default::default") for x in rets)
        R.check(ok, rule, fn, "absent field / function result -> TypedArray::default() (empty) in both branches", str(rets), h["span"])
        hd = E.hirs(r"^<lhs_types::array::TypedArray<V> as core::default::Default>::default$")
        if len(hd) == 1:
            R.check(norm(tail(hd[0]["body"]).get("callee", "")) == "lhs_types::array::TypedArray::new", rule, norm(hd[0]["path"]),
                    "TypedArray::default() is the empty array", where=hd[0]["span"])
        fi = [x for x in exprs(h["body"], "Call") if norm(x.get("callee", "")).endswith("FromIterator::from_iter")]
        good = len(fi) == 2
        for x in fi:
            root, ch = chain(x["args"][0])
            good = good and local_name(root) == "iter" and [y["m"] for y in ch] == ["map"]
        R.check(good, rule, fn, "the result has one entry per element produced by the [*] iterator, in its order", where=h["span"])
    else:
        R.cannot(rule, fn, "anchor not found")
    # no-value on out-of-range / absent key: accessors return Option via slice::get / BTreeMap::get
    for fn2, callee_rx in (("lhs_types::array::InnerArray::get", r"slice::\{impl \[T\]\}::get$|vec::Vec.*::get$"),
                           ("lhs_types::map::InnerMap::get", r"BTreeMap.*::get$")):
        hh = E.hir(fn2)
        if not hh:
            R.cannot(rule, fn2, "anchor not found")
            continue
        gets = [c for c in exprs(hh["body"], "MethodCall") if c["m"] == "get"]
        idx = [i for i in exprs(hh["body"], "Index")]
        R.check(len(gets) >= 2 and not idx, rule, fn2, "lookups are Option-returning get() (no panicking index)", where=hh["span"])
    ha = E.hir("lhs_types::array::Array::extract")
    if ha:
        ok = any(strip(i["cond"]).get("k") == "Binary" and strip(i["cond"])["op"] == "Ge" and def_path(tail(i["then"])) == "core::option::Option::None"
                 for i in exprs(ha["body"], "If"))
        R.check(ok, rule, "lhs_types::array::Array::extract", "index >= len -> no value (checked before the unchecked access)", where=ha["span"])
    # get_nested folds with try_fold over all indexes in order
    for fn3 in ("types::LhsValue::get_nested", "types::LhsValue::extract_nested"):
        hh = E.hir(fn3)
        if hh:
            t = tail(hh["body"])
            root, ch = chain(t)
            ok = local_name(root) == "indexes" and [x["m"] for x in ch] == ["iter", "try_fold"] and local_name(ch[1]["args"][0]) == "self"
            R.check(ok, rule, fn3, "nested access applies every index in order, stopping at the first missing value", where=hh["span"])
    # maps iterate in ascending key order: BTreeMap
    a = E.adt("lhs_types::map::InnerMap")
    if a:
        tys = [norm(f["ty"]) for v in a["variants"] for f in v["fields"]]
        R.check(all("BTreeMap" in t for t in tys), rule, "lhs_types::map::InnerMap", "map storage is a BTreeMap (ascending key iteration)", str(tys), a["span"])


def run(F, R, tier):
    E = F.engine
    rule_quant(E, R)
    rule_trunc(E, R)
    rule_absent(E, R)
    C04.rule_index(E, R)
    # R02-notvec is decided by R01-logic's `not on Vec` instance
    import C01
    sub = Report()
    C01.rule_logic(E, sub)
    for r in sub.results:
        if "not on" in r.label or r.status == "cannot-decide":
            r.rule = "R02-notvec"
            R.results.append(r)
    R.not_decided += ["MapEachIterator traversal (row-major order, flattening of several [*])",
                      "agreement of the three compilation strategies (one / vec / iter)",
                      "get_nested / extract_nested folding beyond order and early stop", "IndexExpr::compile_with_compiler's three paths"]
