"""C02 — indexing, map-each, bool-array logic and any/all follow the reference semantics (table clauses)."""
from lib import *
import common
import C04
import sem

LEVEL = "other"
EXPLANATION = ("Decided (thin, stated plainly): the reduction table of any/all and its absent/`Err` default, "
               "element-wise combination with truncation to the shorter operand in all three vector arms (sibling "
               "agreement on the feature set), element-wise `not`, the empty result for an absent container in "
               "every vector compilation strategy, in-order whole-collection iteration of [*] strategies, no-value "
               "for out-of-range/absent index through Option-returning accessors, and the (container, index kind) "
               "tables shared with C04. The traversal algorithm of MapEachIterator (row-major order, flattening) "
               "and the agreement of the three strategies are NOT decided.")

LOGIC = "<ast::logical_expr::LogicalExpr as ast::Expr>::compile_with_compiler"


def rule_quant(E, R):
    rule = "R02-quant"
    fn = "ast::logical_expr::QuantifierOp::reduce_bool_iter"
    h = E.hir(fn)
    if not h:
        R.cannot(rule, fn, "anchor not found")
    else:
        tbl = {}
        for m in find_matches(h["body"], r"QuantifierOp$"):
            for a in m["arms"]:
                v = pat_variant(a["pat"])
                t = tail(a["body"])
                if v and t.get("k") == "MethodCall":
                    clo = closure_of(t["args"][0]) if t.get("args") else None
                    ident = bool(clo) and local_name(tail(clo["body"])) in pat_bindings({"k": "x", "params": clo["params"]})
                    root, ch = chain(t)
                    tbl[last_seg(v)] = (t["m"], ident, "param#1" if is_param(root, h, 1) else local_name(root), [x["m"] for x in ch[:-1]])
        want = {"Any": ("any", True, "param#1", ["into_iter"]), "All": ("all", True, "param#1", ["into_iter"])}
        R.check(tbl == want, rule, fn, "any = exists, all = for-all over every element (so all of an empty result is true)", str(tbl), h["span"])
    fa = "ast::logical_expr::QuantifierOp::reduce_lhs_array"
    ha = E.hir(fa)
    if ha:
        t = tail(ha["body"])
        ok = t.get("k") == "MethodCall" and t["m"] == "reduce_bool_iter" and local_name(t["recv"]) == "self"
        if ok:
            root, ch = chain(t["args"][0])
            ok = is_param(root, ha, 1) and chain_verdict(ch) == "ok"
        R.check(ok, rule, fa, "reduces every element of the array, in order", where=ha["span"])
    h = E.hir(LOGIC)
    if not h:
        return R.cannot(rule, LOGIC, "anchor not found")
    # Quantifier over a direct IndexExpr: Ok(Array) -> reduce, Err -> false
    found = False
    Sq = sem.Sem(E, h)
    for st in Sq.sites():
        n = st.node
        if n.get("k") == "Match" and not sem.is_try(n) and arm_variants(st, "QuantifierArgExpr") == ["IndexExpr"]:
            # the scrutinee is the result of executing the compiled argument (possibly handed to a private helper)
            sc = Sq.resolve(n["scrut"], st.frame).node
            if sc.get("k") == "MethodCall" and sc["m"] == "execute":
                found = True
                tbl = {}
                for a in n["arms"]:
                    p = a["pat"]
                    outer = pat_variant(p)
                    inner = pat_variant(p["pats"][0]) if p.get("k") == "PTupleStruct" and p.get("pats") else None
                    t = tail(a["body"])
                    if outer == "core::result::Result::Err":
                        tbl["Err"] = lit_value(t)
                    elif inner and inner.endswith("LhsValue::Array"):
                        tbl["Ok(Array)"] = t.get("m")
                        if t.get("k") == "MethodCall" and t["m"] == "reduce_bool_iter" and t.get("args"):
                            # reduced in place: every element of the array payload, in order
                            root_, ch_ = chain(t["args"][0])
                            if local_name(root_) in pat_bindings(p) and chain_verdict(ch_) == "ok":
                                tbl["Ok(Array)"] = "reduce_lhs_array"
                    else:
                        tbl["Ok(_)"] = "unreachable" if any(norm(c.get("callee", "")).startswith("core::panicking") for c in exprs(a["body"], "Call")) else "?"
                R.check(tbl == {"Ok(Array)": "reduce_lhs_array", "Err": False, "Ok(_)": "unreachable"}, rule, LOGIC,
                        "any/all of an absent boolean-array value is false; of a present one the reduction", str(tbl), n["sp"])
    R.check(found, rule, LOGIC, "quantifier over a value expression found", where=h["span"])
    # Quantifier over a logical expression: reduce the vector result
    ok = False
    for n, st in sem.sem_walk(E, h):
        if n.get("k") == "MethodCall" and n["m"] == "reduce_bool_iter" and arm_variants(st, "QuantifierArgExpr") == ["Logical"]:
            root, ch = chain(n["args"][0])
            vec_names = set()
            for q in walk(h["body"]):
                if q.get("k") == "PTupleStruct" and norm(q["res"].get("path", "")).endswith("CompiledExpr::Vec"):
                    vec_names |= set(pat_bindings(q))
            ok = chain_verdict(ch) == "ok" and local_name(root) in vec_names
    R.check(ok, rule, LOGIC, "any/all of a mapped comparison reduces the whole element-wise result", where=h["span"])


def rule_trunc(E, R):
    rule = "R02-trunc"
    h = E.hir(LOGIC)
    if not h:
        return R.cannot(rule, LOGIC, "anchor not found")
    S = sem.Sem(E, h)
    ULO = sem.enum_universe(E, "ast::logical_expr::LogicalOp")
    pLO = lambda v: norm(v.node.get("ty", "")).replace("&", "").strip() == "ast::logical_expr::LogicalOp"
    pLE = lambda v: norm(v.node.get("ty", "")).replace("&", "").replace("mut ", "").strip() in ("ast::logical_expr::LogicalExpr", "Self")
    loops = sem.for_loops(S)
    feats = {}
    for s in S.sites():
        n = s.node
        if not (n.get("k") == "Call" and norm(n.get("callee", "")) == "filter::CompiledVecExpr::new"):
            continue
        if sem.admits(s.pc, pLE, None) != {"LogicalExpr::Combining"}:
            continue
        ops = sem.admitted_tuples(s.pc, [pLO], [ULO])
        clo = closure_of(n["args"][0])
        if len(ops) != 1 or not clo:
            continue
        lop = last_seg(next(iter(ops))[0])
        inner = [x for x in S.sites() if sem.within(x, clo)]
        f = {"zip": False, "truncate": None, "n_trunc": 0, "starts_from_first": False, "loops_over_rest": False, "returns_acc": False}
        truncs = [x for x in inner if x.node.get("k") == "MethodCall" and x.node["m"] == "truncate"]
        f["n_trunc"] = len(truncs)
        out_b = sem.root_local(S, truncs[0].node["recv"], truncs[0].frame) if truncs else None
        # the loop that the truncation sits in
        loop = None
        for ls, pat, it in loops:
            if sem.within(ls, clo) and truncs and any(x.node is truncs[0].node for x in S.sites() if x.frame is ls.frame) and \
                    any(y is truncs[0].node for y in walk(ls.node)):
                loop = (ls, pat, it)
        lv = None
        if loop and loop[1] is not None:
            names = [q for q in walk(loop[1]) if q.get("k") == "PBinding"]
            lv = loop[0].frame.binds.get(names[0]["id"]) if names else None
        if out_b is not None and lv is not None:
            t = truncs[0]
            for op, l, r, fr, certain in sem.weak_cmps(t.pc):
                rl, rr = sem.is_method(l, "len"), sem.is_method(r, "len")
                if certain and rl is not None and rr is not None and sem.root_local(S, rl, fr) is lv and sem.root_local(S, rr, fr) is out_b:
                    arg = sem.is_method(t.node["args"][0], "len")
                    f["truncate"] = (op, "len(operand) vs len(acc)", "to len(operand)" if arg is not None and sem.root_local(S, arg, t.frame) is lv else "to ?")
            for z in inner:
                if z.node.get("k") == "MethodCall" and z.node["m"] == "zip":
                    r1, c1 = chain(z.node["recv"])
                    r2, c2 = chain(z.node["args"][0])
                    if S.lookup(r1, z.frame) is out_b and S.lookup(r2, z.frame) is lv and chain_verdict(c1) == "ok" and chain_verdict(c2) == "ok":
                        f["zip"] = True
            # accumulator starts from the first operand, the loop runs over all the others
            if out_b.expr is not None:
                rec = sem.is_method(out_b.expr, "execute")
                if rec is not None:
                    b1, _, _, m1 = sem.provenance(S, rec, out_b.frame)
                    b2, _, _, m2 = sem.provenance(S, loop[2], loop[0].frame)
                    f["starts_from_first"] = b1 is not None and m1[:1] == ["next"] and all(x in ("unwrap", "expect") for x in m1[1:])
                    f["loops_over_rest"] = b1 is not None and b1 is b2 and chain_verdict([{"m": x} for x in m2]) == "ok"
                    f["chain"] = (m1, m2)
            tv, tf = sem.tail_value(S, clo["body"], s.frame)
            f["returns_acc"] = S.lookup(tv, tf) is out_b
        feats[lop] = f
    want_tr = ("Lt", "len(operand) vs len(acc)", "to len(operand)")
    for op in ("And", "Or", "Xor"):
        f = feats.get(op)
        if not f:
            R.violation(rule, LOGIC, "vector %s arm" % op.lower(), "not found")
            continue
        R.check(f["zip"], rule, LOGIC, "vector %s combines element-wise (zip of output and operand)" % op.lower(), str(f), h["span"])
        R.check(f["truncate"] in (want_tr, ("Le",) + want_tr[1:]) and f["n_trunc"] == 1, rule, LOGIC,
                "vector %s truncates the result to the shorter operand" % op.lower(),
                "found %s; without it a longer left operand keeps its unpaired tail" % (f["truncate"],), h["span"])
        R.check(f["starts_from_first"] and f["loops_over_rest"] and f["returns_acc"], rule, LOGIC,
                "vector %s folds all operands starting from the first" % op.lower(), str(f), h["span"])
    if len(feats) == 3:
        vals = [{k: v for k, v in x.items() if k != "chain"} for x in feats.values()]
        R.check(all(v == vals[0] for v in vals), rule, LOGIC, "the three vector arms agree on the feature set", str(feats))


def rule_absent(E, R):
    rule = "R02-absent"
    # BOOL_ARRAY is the empty typed array
    c = [x for x in E.hir_list if "body" in x and norm(x["path"]) == "ast::index_expr::BOOL_ARRAY"]
    ok = bool(c) and norm(tail(c[0]["body"]).get("callee", "")) == "lhs_types::array::TypedArray::new"
    R.check(ok, rule, "ast::index_expr::BOOL_ARRAY", "the absent-container result constant is the empty array", where=c[0]["span"] if c else "")
    hn = E.hir("lhs_types::array::TypedArray::new")
    if hn:
        vn = [x for x in exprs(hn["body"], "Call") if norm(x.get("callee", "")) == "alloc::vec::Vec::new"]
        R.check(len(vn) == 1, rule, "lhs_types::array::TypedArray::new", "TypedArray::new() holds an empty vector", where=hn["span"])
    fn = "ast::index_expr::IndexExpr::compile_vec_with"
    h = E.hir(fn)
    if h:
        S = sem.Sem(E, h)
        closures = [closure_of(c["args"][0]) for c in exprs(h["body"], "Call")
                    if norm(c.get("callee", "")) == "filter::CompiledVecExpr::new" and c.get("args") and closure_of(c["args"][0])]
        R.floor(rule, "run-time closures in compile_vec_with", len(closures), 2)
        for clo in closures:
            inner = [x for x in S.sites() if sem.within(x, clo)]
            # (a) the absent container / index yields the empty constant: the default of `map_or`, or the value of the `None` branch
            empties = [x for x in inner if x.node.get("k") == "Path" and (def_path(x.node) or "").endswith("BOOL_ARRAY")]
            absent_ok = False
            for x in empties:
                as_default = any(y.node.get("k") == "MethodCall" and y.node["m"] in ("map_or", "map_or_else", "unwrap_or") and
                                 y.node.get("args") and strip(y.node["args"][0]) is x.node for y in inner)
                under_none = any(a_.kind == "is" and ((pol and {sem.variant_head(z[0]) for z in a_.alts} == {"Option::None"}) or
                                                      (not pol and {sem.variant_head(z[0]) for z in a_.alts} == {"Option::Some"}))
                                 for a_, pol in sem.is_literals(x.pc))
                absent_ok = absent_ok or as_default or under_none
            R.check(len(empties) == 1 and absent_ok, rule, fn, "absent container / index -> empty result",
                    "%d uses of the empty constant in the closure" % len(empties), clo["sp"])
            # (b) every element of the present container is compared, in iteration order
            ok = False
            fi = [x for x in inner if x.node.get("k") == "Call" and norm(x.node.get("callee", "")).endswith("FromIterator::from_iter")]
            if len(fi) == 1:
                root, ch = chain(fi[0].node["args"][0])
                ms_ = [y["m"] for y in ch]
                rb = S.resolve(root, fi[0].frame).bind or S.lookup(root, fi[0].frame)
                present = rb is not None and (rb.kind == "closure-param" or (rb.kind == "pat" and rb.proj and rb.proj[0][:2] == ("v", "Option::Some")))
                ok = ms_[:2] == ["iter", "unwrap"] and chain_verdict([y for y in ch if y["m"] != "unwrap"]) == "ok" and present and \
                    any(norm(c_.get("callee", "")).endswith("Compare::compare") for c_ in exprs(fi[0].node, "MethodCall"))
            R.check(ok, rule, fn, "every element of the container is compared, in iteration order", where=clo["sp"])
    else:
        R.cannot(rule, fn, "anchor not found")
    fn = "ast::index_expr::IndexExpr::compile_iter_with"
    h = E.hir(fn)
    if h:
        rets = []
        for r in exprs(h["body"], "Ret"):
            e = strip(r.get("e", {}))
            rets.append(norm(e.get("callee", "")))
        ok = len(rets) == 2 and all(x.endswith("Default::default") for x in rets)
        R.check(ok, rule, fn, "absent field / function result -> TypedArray::default() (empty) in both branches", str(rets), h["span"])
        hd = E.hirs(r"^<lhs_types::array::TypedArray<V> as core::default::Default>::default$")
        if len(hd) == 1:
            R.check(norm(tail(hd[0]["body"]).get("callee", "")) == "lhs_types::array::TypedArray::new", rule, norm(hd[0]["path"]),
                    "TypedArray::default() is the empty array", where=hd[0]["span"])
        fi = [x for x in exprs(h["body"], "Call") if norm(x.get("callee", "")).endswith("FromIterator::from_iter")]
        good = len(fi) == 2
        for x in fi:
            root, ch = chain(x["args"][0])
            it_name = let_name(h["body"], lambda i_: norm(i_.get("callee", "")).endswith("MapEachIterator::from_indexes"))
            it_names = {st_["pat"]["name"] for st_ in exprs(h["body"], "SLet") if "init" in st_ and st_["pat"].get("k") == "PBinding" and
                        norm(strip(st_["init"]).get("callee", "")).endswith("MapEachIterator::from_indexes")}
            good = good and local_name(root) in it_names and [y["m"] for y in ch] == ["map"]
        R.check(good, rule, fn, "the result has one entry per element produced by the [*] iterator, in its order", where=h["span"])
    else:
        R.cannot(rule, fn, "anchor not found")
    # no-value on out-of-range / absent key: accessors return Option via slice::get / BTreeMap::get
    for fn2, callee_rx in (("lhs_types::array::InnerArray::get", r"slice::\{impl \[T\]\}::get$|vec::Vec.*::get$"),
                           ("lhs_types::map::InnerMap::get", r"BTreeMap.*::get$")):
        hh = E.hir(fn2)
        if not hh:
            R.cannot(rule, fn2, "anchor not found")
            continue
        gets = [c for c in exprs(hh["body"], "MethodCall") if c["m"] == "get"]
        idx = [i for i in exprs(hh["body"], "Index")]
        R.check(len(gets) >= 2 and not idx, rule, fn2, "lookups are Option-returning get() (no panicking index)", where=hh["span"])
    ha = E.hir("lhs_types::array::Array::extract")
    if ha:
        S = sem.Sem(E, ha)
        acc = [x for x in S.sites() if x.node.get("k") == "MethodCall" and x.node["m"] in ("get_unchecked", "swap_remove", "remove")] + \
              [x for x in S.sites() if x.node.get("k") == "Index"]
        ok = bool(acc)
        for x in acc:
            n = x.node
            idx = n["args"][0] if n.get("k") == "MethodCall" else n["idx"]
            recv = n["recv"] if n.get("k") == "MethodCall" else n["e"]
            ib = sem.provenance(S, idx, x.frame)[0]
            rb = sem.provenance(S, recv, x.frame)[0]
            good = False
            for op, l, r, fr, certain in sem.weak_cmps(x.pc):
                ln = sem.is_method(r, "len")
                if certain and op == "Lt" and ln is not None and sem.provenance(S, l, fr)[0] is ib and ib is not None and \
                        sem.provenance(S, ln, fr)[0] is rb:
                    good = True
            ok = ok and good
        R.check(ok, rule, "lhs_types::array::Array::extract", "index >= len -> no value (checked before the unchecked access)",
                "every unchecked / panicking access must sit on a path where index < len of the same container", ha["span"])
    # get_nested folds with try_fold over all indexes in order
    for fn3 in ("types::LhsValue::get_nested", "types::LhsValue::extract_nested"):
        hh = E.hir(fn3)
        if hh:
            t = tail(hh["body"])
            root, ch = chain(t)
            ok = is_param(root, hh, 1) and [x["m"] for x in ch] == ["iter", "try_fold"] and local_name(ch[1]["args"][0]) == "self"
            if not ok:
                # the same as an explicit loop: `let mut v = self; for idx in indexes { v = v.get(idx)..?; } Some(v)`
                Sn = sem.Sem(E, hh, inline=False)
                loops = sem.for_loops(Sn)
                if len(loops) == 1:
                    ls, pat, it = loops[0]
                    whole = sem.param_index(Sn, it, ls.frame) == 1 and \
                        chain_verdict([{"m": m_} for m_ in sem.provenance(Sn, it, ls.frame)[3]], terminal_ok=()) == "ok"
                    asg = [a_ for a_ in exprs(ls.node, "Assign")]
                    acc = Sn.lookup(sem.peel(asg[0]["l"]), ls.frame) if len(asg) == 1 else None
                    from_self = acc is not None and acc.expr is not None and local_name(acc.expr) == "self"
                    step = len(asg) == 1 and sem.is_try(strip(asg[0]["r"])) and \
                        any(c_["m"] in ("get", "extract") and Sn.lookup(sem.peel(c_["recv"]), ls.frame) is acc for c_ in exprs(asg[0]["r"], "MethodCall"))
                    no_exit = not [b_ for b_ in exprs(ls.node, ("Break", "Continue")) if not b_.get("x")]
                    ret = [x for x in Sn.result_leaves() if norm(x.node.get("callee", "")) == "core::option::Option::Some" and
                           Sn.lookup(sem.peel(x.node["args"][0]), x.frame) is acc]
                    ok = whole and from_self and step and no_exit and len(ret) == 1
            R.check(ok, rule, fn3, "nested access applies every index in order, stopping at the first missing value", where=hh["span"])
    # maps iterate in ascending key order: BTreeMap
    a = E.adt("lhs_types::map::InnerMap")
    if a:
        tys = [norm(f["ty"]) for v in a["variants"] for f in v["fields"]]
        R.check(all("BTreeMap" in t for t in tys), rule, "lhs_types::map::InnerMap", "map storage is a BTreeMap (ascending key iteration)", str(tys), a["span"])


def run(F, R, tier):
    E = F.engine
    rule_quant(E, R)
    rule_trunc(E, R)
    rule_absent(E, R)
    C04.rule_index(E, R)
    # R02-notvec is decided by R01-logic's `not on Vec` instance
    import C01
    sub = Report()
    C01.rule_logic(E, sub)
    for r in sub.results:
        if "not on" in r.label or r.status == "cannot-decide":
            r.rule = "R02-notvec"
            R.results.append(r)
    R.not_decided += ["MapEachIterator traversal (row-major order, flattening of several [*])",
                      "agreement of the three compilation strategies (one / vec / iter)",
                      "get_nested / extract_nested folding beyond order and early stop", "IndexExpr::compile_with_compiler's three paths"]
