"""C02 — indexing, map-each, bool-array logic and any/all follow the reference semantics (table clauses)."""
from lib import *
import common
import C04
import sem

LEVEL = "other"
EXPLANATION = ("Decided (thin, stated plainly): the reduction table of any/all and its absent/`Err` default, "
               "element-wise combination with truncation to the shorter operand in all three vector arms (sibling "
               "agreement on the feature set), element-wise `not`, the empty result for an absent container in "
               "every vector compilation strategy, in-order whole-collection iteration of [*] strategies, no-value "
               "for out-of-range/absent index through Option-returning accessors, and the (container, index kind) "
               "tables shared with C04. The traversal algorithm of MapEachIterator (row-major order, flattening) "
               "and the agreement of the three strategies are NOT decided.")

LOGIC = "<ast::logical_expr::LogicalExpr as ast::Expr>::compile_with_compiler"


def _reduction_kind(S, h, leaves):
    """how the boolean values of parameter #1 are reduced on these result leaves: 'any over param#1', 'all over param#1'
    or a description of what was found instead. Two shapes are read: the iterator adaptor (`.any(|v| v)`/`.all(|v| v)`
    on the parameter) and the for-loop with an early return (`for v in it { if v { return true } } false` and its dual)."""
    def over_param(node, frame):
        b, _, _, ms = sem.provenance(S, node, frame)
        return b is not None and b.kind == "param" and b.index == 1 and b.frame is S.root and \
            all(m in ("into_iter", "iter", "<for>", "by_ref", "copied", "cloned") for m in ms)
    if len(leaves) == 1:
        t = sem.peel(leaves[0].node)
        if t.get("k") == "MethodCall" and t["m"] in ("any", "all") and t.get("args"):
            clo = closure_of(t["args"][0])
            ident = bool(clo) and local_name(tail(clo["body"])) in pat_bindings({"k": "x", "params": clo["params"]})
            if ident and over_param(t["recv"], leaves[0].frame):
                return "%s over param#1" % t["m"]
            return "%s with a non-identity test or over another value" % t["m"]
        return "single leaf %s" % t.get("k")
    if len(leaves) != 2:
        return "%d result leaves" % len(leaves)
    inl = [x for x in leaves if x.in_loop]
    post = [x for x in leaves if not x.in_loop]
    if len(inl) != 1 or len(post) != 1:
        return "leaves in loop: %d, after: %d" % (len(inl), len(post))
    b1, b2 = lit_value(inl[0].node), lit_value(post[0].node)
    if not isinstance(b1, bool) or not isinstance(b2, bool):
        return "non-literal results"

    def elem_literals(lits, frame_ok=True):
        out = []
        for a, pol in lits:
            if a.kind == "local":
                b = S.lookup(sem.peel(a.node), a.frame)
                if b is not None and b.kind == "loopvar" and over_param(a.node, a.frame):
                    out.append(pol)
                    continue
                return None
            if a.kind == "is":
                v = S.resolve(a.scruts[0].node, a.scruts[0].frame)
                n = sem.peel(v.node)
                if "QuantifierOp" in norm(n.get("ty", "")) or sem.is_method(n, "next") is not None or \
                        (n.get("k") == "Call" and norm(n.get("callee", "")).endswith("Iterator::next")):
                    continue
                return None
            if a.kind == "forall":
                continue
            return None
        return out
    lits, ors = sem.literals(inl[0].pc)
    cond = elem_literals(lits)
    if ors or cond is None or len(cond) != 1:
        return "early return under another condition than the element"
    lits2, ors2 = sem.literals(post[0].pc)
    fa = [a for a, pol in lits2 if a.kind == "forall" and pol]
    if ors2 or elem_literals(lits2) != [] or len(fa) != 1 or not over_param(fa[0].l.node, fa[0].l.frame):
        return "fall-through result not after a complete loop over param#1"
    # the loop body is survived exactly when the early-return test fails
    l3, o3 = sem.literals(((fa[0].r, True),))
    c3 = elem_literals(l3)
    if o3 or c3 != [not cond[0]]:
        return "loop body left by something else than the early return"
    if (b1, cond[0], b2) == (True, True, False):
        return "any over param#1"
    if (b1, cond[0], b2) == (False, False, True):
        return "all over param#1"
    return "early return %s when the element is %s, %s otherwise" % (b1, cond[0], b2)


def _reduction_table(E, h):
    S = sem.Sem(E, h)
    UQ = sem.enum_universe(E, "ast::logical_expr::QuantifierOp")
    pQ = lambda v: norm(v.node.get("ty", "")).replace("&", "").strip() in ("ast::logical_expr::QuantifierOp", "Self")
    per = {}
    for x in S.result_leaves():
        for (v,) in sem.admitted_tuples(x.pc, [pQ], [UQ]):
            per.setdefault(last_seg(v), []).append(x)
    return {v: _reduction_kind(S, h, ls) for v, ls in per.items()}



def rule_quant(E, R):
    rule = "R02-quant"
    fn = "ast::logical_expr::QuantifierOp::reduce_bool_iter"
    h = E.hir(fn)
    if not h:
        R.cannot(rule, fn, "anchor not found")
    else:
        tbl = _reduction_table(E, h)
        want = {"Any": "any over param#1", "All": "all over param#1"}
        R.check(tbl == want, rule, fn, "any = exists, all = for-all over every element (so all of an empty result is true)", str(tbl), h["span"])
    fa = "ast::logical_expr::QuantifierOp::reduce_lhs_array"
    ha = E.hir(fa)
    if ha:
        t = fn_result(ha)
        ok = t.get("k") == "MethodCall" and t["m"] == "reduce_bool_iter" and local_name(t["recv"]) == "self"
        if ok:
            root, ch = chain(t["args"][0])
            ok = is_param(root, ha, 1) and chain_verdict(ch) == "ok"
        R.check(ok, rule, fa, "reduces every element of the array, in order", where=ha["span"])
    h = E.hir(LOGIC)
    if not h:
        return R.cannot(rule, LOGIC, "anchor not found")
    # Quantifier over a direct IndexExpr: Ok(Array) -> reduce, Err -> false
    found = False
    Sq = sem.Sem(E, h)
    for st in Sq.sites():
        n = st.node
        if n.get("k") == "Match" and not sem.is_try(n) and arm_variants(st, "QuantifierArgExpr") == ["IndexExpr"]:
            # the scrutinee is the result of executing the compiled argument (possibly handed to a private helper)
            sc = Sq.resolve(n["scrut"], st.frame).node
            if sc.get("k") == "MethodCall" and sc["m"] == "execute":
                found = True
                tbl = {}
                for a in n["arms"]:
                    p = a["pat"]
                    outer = pat_variant(p)
                    inner = pat_variant(p["pats"][0]) if p.get("k") == "PTupleStruct" and p.get("pats") else None
                    t = tail(a["body"])
                    if outer == "core::result::Result::Err":
                        tbl["Err"] = lit_value(t)
                    elif inner and inner.endswith("LhsValue::Array"):
                        tbl["Ok(Array)"] = t.get("m")
                        if t.get("k") == "MethodCall" and t["m"] == "reduce_bool_iter" and t.get("args"):
                            # reduced in place: every element of the array payload, in order
                            root_, ch_ = chain(t["args"][0])
                            if local_name(root_) in pat_bindings(p) and chain_verdict(ch_) == "ok":
                                tbl["Ok(Array)"] = "reduce_lhs_array"
                    else:
                        tbl["Ok(_)"] = "unreachable" if any(norm(c.get("callee", "")).startswith("core::panicking") for c in exprs(a["body"], "Call")) else "?"
                R.check(tbl == {"Ok(Array)": "reduce_lhs_array", "Err": False, "Ok(_)": "unreachable"}, rule, LOGIC,
                        "any/all of an absent boolean-array value is false; of a present one the reduction", str(tbl), n["sp"])
    R.check(found, rule, LOGIC, "quantifier over a value expression found", where=h["span"])
    # Quantifier over a logical expression: reduce the vector result
    ok = False
    for n, st in sem.sem_walk(E, h):
        if n.get("k") == "MethodCall" and n["m"] == "reduce_bool_iter" and arm_variants(st, "QuantifierArgExpr") == ["Logical"]:
            root, ch = chain(n["args"][0])
            vec_names = set()
            for q in walk(h["body"]):
                if q.get("k") == "PTupleStruct" and norm(q["res"].get("path", "")).endswith("CompiledExpr::Vec"):
                    vec_names |= set(pat_bindings(q))
            ok = chain_verdict(ch) == "ok" and local_name(root) in vec_names
    R.check(ok, rule, LOGIC, "any/all of a mapped comparison reduces the whole element-wise result", where=h["span"])


def rule_walk(E, R):
    """iterator protocol of the [*] walk: None is the end of the walk for every consumer, so `next` may answer None only
    when its stack of open containers is exhausted; while it is not, the only value it may hand out is Some(element)"""
    rule = "R02-walk"
    hs = E.hirs(r"MapEachIterator as core::iter::traits::iterator::Iterator>::next$")
    if len(hs) != 1:
        return R.cannot(rule, "MapEachIterator::next", "anchor not found (%d)" % len(hs))
    h = hs[0]
    fn = norm(h["path"])
    S = sem.Sem(E, h)
    leaves = S.result_leaves()
    n_some = n_none = 0
    for x in leaves:
        head = sem.ctor_head(x.node)
        if head == "Option::Some":
            n_some += 1
            b, _, _, ms = sem.provenance(S, x.node["args"][0], x.frame, fields=True)
            ok = b is not None and b.name == "self" and "next" in ms and ".stack" in ms
            R.check(ok, rule, fn, "the element handed out is the one the innermost open container yielded",
                    "value derives from %s via %s" % (b.name if b else None, ms), x.node.get("sp", ""))
        elif head == "Option::None":
            n_none += 1
            R.check(not x.in_loop, rule, fn, "None is answered only after the loop over the open containers has ended",
                    "a `None` inside the loop ends the whole walk while containers are still open: later elements are lost",
                    x.node.get("sp", ""))
        else:
            R.violation(rule, fn, "every answer is Some(element) or the final None",
                        "an Option computed elsewhere is returned as the answer: when it is None the consumer stops although "
                        "elements remain (an absent index/key on one element must only skip that element)", x.node.get("sp", ""))
    user_breaks = [b for b in exprs(h["body"], "Break", into_closures=False) if not b.get("x")]
    R.check(not user_breaks, rule, fn, "the loop is left only when the stack is empty (no break)", where=h["span"])
    empties = [x for x in S.sites() if x.node.get("k") == "MethodCall" and x.node["m"] in ("is_empty", "len", "last_mut", "last", "pop") and
               sem.provenance(S, x.node["recv"], x.frame, fields=True)[3][:1] == [".stack"]]
    R.check(n_some >= 1 and n_none >= 1 and bool(empties), rule, fn, "the walk runs until the stack of open containers is empty", where=h["span"])


def rule_trunc(E, R):
    rule = "R02-trunc"
    h = E.hir(LOGIC)
    if not h:
        return R.cannot(rule, LOGIC, "anchor not found")
    S = sem.Sem(E, h)
    ULO = sem.enum_universe(E, "ast::logical_expr::LogicalOp")
    pLO = lambda v: norm(v.node.get("ty", "")).replace("&", "").strip() == "ast::logical_expr::LogicalOp"
    pLE = lambda v: norm(v.node.get("ty", "")).replace("&", "").replace("mut ", "").strip() in ("ast::logical_expr::LogicalExpr", "Self")
    loops = sem.for_loops(S)
    feats = {}
    for s in S.sites():
        n = s.node
        if not (n.get("k") == "Call" and norm(n.get("callee", "")) == "filter::CompiledVecExpr::new"):
            continue
        if sem.admits(s.pc, pLE, None) != {"LogicalExpr::Combining"}:
            continue
        ops = sem.admitted_tuples(s.pc, [pLO], [ULO])
        clo = closure_of(n["args"][0])
        if len(ops) != 1 or not clo:
            continue
        lop = last_seg(next(iter(ops))[0])
        inner = [x for x in S.sites() if sem.within(x, clo)]
        f = {"zip": False, "truncate": None, "n_trunc": 0, "starts_from_first": False, "loops_over_rest": False, "returns_acc": False}
        truncs = [x for x in inner if x.node.get("k") == "MethodCall" and x.node["m"] == "truncate"]
        f["n_trunc"] = len(truncs)
        out_b = sem.root_local(S, truncs[0].node["recv"], truncs[0].frame) if truncs else None
        # the loop that the truncation sits in
        loop = None
        for ls, pat, it in loops:
            if sem.within(ls, clo) and truncs and any(x.node is truncs[0].node for x in S.sites() if x.frame is ls.frame) and \
                    any(y is truncs[0].node for y in walk(ls.node)):
                loop = (ls, pat, it)
        lv = None
        if loop and loop[1] is not None:
            names = [q for q in walk(loop[1]) if q.get("k") == "PBinding"]
            lv = loop[0].frame.binds.get(names[0]["id"]) if names else None
        if out_b is not None and lv is not None:
            t = truncs[0]
            for op, l, r, fr, certain in sem.weak_cmps(t.pc):
                rl, rr = sem.is_method(l, "len"), sem.is_method(r, "len")
                if certain and rl is not None and rr is not None and sem.root_local(S, rl, fr) is lv and sem.root_local(S, rr, fr) is out_b:
                    arg = sem.is_method(S.resolve(t.node["args"][0], t.frame).node, "len")
                    f["truncate"] = (op, "len(operand) vs len(acc)", "to len(operand)" if arg is not None and sem.root_local(S, arg, t.frame) is lv else "to ?")
            for z in inner:
                if z.node.get("k") == "MethodCall" and z.node["m"] == "zip":
                    r1, c1 = chain(z.node["recv"])
                    r2, c2 = chain(z.node["args"][0])
                    if S.lookup(r1, z.frame) is out_b and S.lookup(r2, z.frame) is lv and chain_verdict(c1) == "ok" and chain_verdict(c2) == "ok":
                        f["zip"] = True
            # accumulator starts from the first operand, the loop runs over all the others
            if out_b.expr is not None:
                rec = sem.is_method(out_b.expr, "execute")
                if rec is not None:
                    b1, _, _, m1 = sem.provenance(S, rec, out_b.frame)
                    b2, _, _, m2 = sem.provenance(S, loop[2], loop[0].frame)
                    f["starts_from_first"] = b1 is not None and m1[:1] == ["next"] and all(x in ("unwrap", "expect") for x in m1[1:])
                    f["loops_over_rest"] = b1 is not None and b1 is b2 and chain_verdict([{"m": x} for x in m2]) == "ok"
                    f["chain"] = (m1, m2)
            tv, tf = sem.tail_value(S, clo["body"], s.frame)
            f["returns_acc"] = S.lookup(tv, tf) is out_b
        feats[lop] = f
    want_tr = ("Lt", "len(operand) vs len(acc)", "to len(operand)")
    for op in ("And", "Or", "Xor"):
        f = feats.get(op)
        if not f:
            R.violation(rule, LOGIC, "vector %s arm" % op.lower(), "not found")
            continue
        R.check(f["zip"], rule, LOGIC, "vector %s combines element-wise (zip of output and operand)" % op.lower(), str(f), h["span"])
        R.check(f["truncate"] in (want_tr, ("Le",) + want_tr[1:]) and f["n_trunc"] == 1, rule, LOGIC,
                "vector %s truncates the result to the shorter operand" % op.lower(),
                "found %s; without it a longer left operand keeps its unpaired tail" % (f["truncate"],), h["span"])
        R.check(f["starts_from_first"] and f["loops_over_rest"] and f["returns_acc"], rule, LOGIC,
                "vector %s folds all operands starting from the first" % op.lower(), str(f), h["span"])
    if len(feats) == 3:
        vals = [{k: v for k, v in x.items() if k != "chain"} for x in feats.values()]
        R.check(all(v == vals[0] for v in vals), rule, LOGIC, "the three vector arms agree on the feature set", str(feats))


def rule_absent(E, R):
    rule = "R02-absent"
    # BOOL_ARRAY is the empty typed array
    c = [x for x in E.hir_list if "body" in x and norm(x["path"]) == "ast::index_expr::BOOL_ARRAY"]
    ok = bool(c) and norm(tail(c[0]["body"]).get("callee", "")) == "lhs_types::array::TypedArray::new"
    R.check(ok, rule, "ast::index_expr::BOOL_ARRAY", "the absent-container result constant is the empty array", where=c[0]["span"] if c else "")
    hn = E.hir("lhs_types::array::TypedArray::new")
    if hn:
        vn = [x for x in exprs(hn["body"], "Call") if norm(x.get("callee", "")) == "alloc::vec::Vec::new"]
        R.check(len(vn) == 1, rule, "lhs_types::array::TypedArray::new", "TypedArray::new() holds an empty vector", where=hn["span"])
    fn = "ast::index_expr::IndexExpr::compile_vec_with"
    h = E.hir(fn)
    if h:
        S = sem.Sem(E, h)
        closures = [closure_of(c["args"][0]) for c in exprs(h["body"], "Call")
                    if norm(c.get("callee", "")) == "filter::CompiledVecExpr::new" and c.get("args") and closure_of(c["args"][0])]
        R.floor(rule, "run-time closures in compile_vec_with", len(closures), 2)
        for clo in closures:
            inner = [x for x in S.sites() if sem.within(x, clo)]
            # (a) the absent container / index yields the empty constant: the default of `map_or`, or the value of the `None` branch
            empties = [x for x in inner if x.node.get("k") == "Path" and (def_path(x.node) or "").endswith("BOOL_ARRAY")]
            absent_ok = False
            for x in empties:
                as_default = any(y.node.get("k") == "MethodCall" and y.node["m"] in ("map_or", "map_or_else", "unwrap_or") and
                                 y.node.get("args") and strip(y.node["args"][0]) is x.node for y in inner)
                under_none = any(a_.kind == "is" and ((pol and {sem.variant_head(z[0]) for z in a_.alts} == {"Option::None"}) or
                                                      (not pol and {sem.variant_head(z[0]) for z in a_.alts} == {"Option::Some"}))
                                 for a_, pol in sem.is_literals(x.pc))
                absent_ok = absent_ok or as_default or under_none
            R.check(len(empties) == 1 and absent_ok, rule, fn, "absent container / index -> empty result",
                    "%d uses of the empty constant in the closure" % len(empties), clo["sp"])
            # (b) every element of the present container is compared, in iteration order
            ok = False
            fi = [x for x in inner if x.node.get("k") == "Call" and norm(x.node.get("callee", "")).endswith("FromIterator::from_iter")]
            if len(fi) == 1:
                root, ch = chain(fi[0].node["args"][0])
                ms_ = [y["m"] for y in ch]
                rb = S.resolve(root, fi[0].frame).bind or S.lookup(root, fi[0].frame)
                present = rb is not None and (rb.kind == "closure-param" or (rb.kind == "pat" and rb.proj and rb.proj[0][:2] == ("v", "Option::Some")))
                ok = ms_[:2] == ["iter", "unwrap"] and chain_verdict([y for y in ch if y["m"] != "unwrap"]) == "ok" and present and \
                    any(norm(c_.get("callee", "")).endswith("Compare::compare") for c_ in exprs_deep(fi[0].node, "MethodCall"))
            R.check(ok, rule, fn, "every element of the container is compared, in iteration order", where=clo["sp"])
    else:
        R.cannot(rule, fn, "anchor not found")
    fn = "ast::index_expr::IndexExpr::compile_iter_with"
    h = E.hir(fn)
    if h:
        rets = []
        for r in exprs(h["body"], "Ret"):
            e = strip(r.get("e", {}))
            rets.append(norm(e.get("callee", "")))
        ok = len(rets) == 2 and all(x.endswith("Default::default") for x in rets)
        R.check(ok, rule, fn, "absent field / function result -> TypedArray::default() (empty) in both branches", str(rets), h["span"])
        hd = E.hirs(r"^<lhs_types::array::TypedArray<V> as core::default::Default>::default$")
        if len(hd) == 1:
            R.check(norm(fn_result(hd[0]).get("callee", "")) == "lhs_types::array::TypedArray::new", rule, norm(hd[0]["path"]),
                    "TypedArray::default() is the empty array", where=hd[0]["span"])
        fi = [x for x in exprs(h["body"], "Call") if norm(x.get("callee", "")).endswith("FromIterator::from_iter")]
        good = len(fi) == 2
        for x in fi:
            root, ch = chain(x["args"][0])
            it_name = let_name(h["body"], lambda i_: norm(i_.get("callee", "")).endswith("MapEachIterator::from_indexes"))
            it_names = {st_["pat"]["name"] for st_ in exprs(h["body"], "SLet") if "init" in st_ and st_["pat"].get("k") == "PBinding" and
                        norm(strip(st_["init"]).get("callee", "")).endswith("MapEachIterator::from_indexes")}
            good = good and local_name(root) in it_names and [y["m"] for y in ch] == ["map"]
        R.check(good, rule, fn, "the result has one entry per element produced by the [*] iterator, in its order", where=h["span"])
    else:
        R.cannot(rule, fn, "anchor not found")
    # no-value on out-of-range / absent key: accessors return Option via slice::get / BTreeMap::get
    for fn2, callee_rx in (("lhs_types::array::InnerArray::get", r"slice::\{impl \[T\]\}::get$|vec::Vec.*::get$"),
                           ("lhs_types::map::InnerMap::get", r"BTreeMap.*::get$")):
        hh = E.hir(fn2)
        if not hh:
            R.cannot(rule, fn2, "anchor not found")
            continue
        gets = [c for c in exprs(hh["body"], "MethodCall") if c["m"] == "get"]
        idx = [i for i in exprs(hh["body"], "Index")]
        R.check(len(gets) >= 2 and not idx, rule, fn2, "lookups are Option-returning get() (no panicking index)", where=hh["span"])
    ha = E.hir("lhs_types::array::Array::extract")
    if ha:
        S = sem.Sem(E, ha)
        acc = [x for x in S.sites() if x.node.get("k") == "MethodCall" and x.node["m"] in ("get_unchecked", "swap_remove", "remove")] + \
              [x for x in S.sites() if x.node.get("k") == "Index"]
        ok = bool(acc)
        for x in acc:
            n = x.node
            idx = n["args"][0] if n.get("k") == "MethodCall" else n["idx"]
            recv = n["recv"] if n.get("k") == "MethodCall" else n["e"]
            ib = sem.provenance(S, idx, x.frame)[0]
            rb = sem.provenance(S, recv, x.frame)[0]
            good = False
            for op, l, r, fr, certain in sem.weak_cmps(x.pc):
                ln = sem.is_method(r, "len")
                if certain and op == "Lt" and ln is not None and sem.provenance(S, l, fr)[0] is ib and ib is not None and \
                        sem.provenance(S, ln, fr)[0] is rb:
                    good = True
            ok = ok and good
        R.check(ok, rule, "lhs_types::array::Array::extract", "index >= len -> no value (checked before the unchecked access)",
                "every unchecked / panicking access must sit on a path where index < len of the same container", ha["span"])
    # get_nested folds with try_fold over all indexes in order
    for fn3 in ("types::LhsValue::get_nested", "types::LhsValue::extract_nested"):
        hh = E.hir(fn3)
        if hh:
            t = fn_result(hh)
            root, ch = chain(t)
            ok = is_param(root, hh, 1) and [x["m"] for x in ch] == ["iter", "try_fold"] and local_name(ch[1]["args"][0]) == "self"
            if not ok:
                # the same as an explicit loop: `let mut v = self; for idx in indexes { v = v.get(idx)..?; } Some(v)`
                Sn = sem.Sem(E, hh, inline=False)
                loops = sem.for_loops(Sn)
                if len(loops) == 1:
                    ls, pat, it = loops[0]
                    whole = sem.param_index(Sn, it, ls.frame) == 1 and \
                        chain_verdict([{"m": m_} for m_ in sem.provenance(Sn, it, ls.frame)[3]], terminal_ok=()) == "ok"
                    asg = [a_ for a_ in exprs(ls.node, "Assign")]
                    acc = Sn.lookup(sem.peel(asg[0]["l"]), ls.frame) if len(asg) == 1 else None
                    from_self = acc is not None and acc.expr is not None and local_name(acc.expr) == "self"
                    step = len(asg) == 1 and sem.is_try(strip(asg[0]["r"])) and \
                        any(c_["m"] in ("get", "extract") and Sn.lookup(sem.peel(c_["recv"]), ls.frame) is acc for c_ in exprs(asg[0]["r"], "MethodCall"))
                    no_exit = not [b_ for b_ in exprs(ls.node, ("Break", "Continue")) if not b_.get("x")]
                    ret = [x for x in Sn.result_leaves() if norm(x.node.get("callee", "")) == "core::option::Option::Some" and
                           Sn.lookup(sem.peel(x.node["args"][0]), x.frame) is acc]
                    ok = whole and from_self and step and no_exit and len(ret) == 1
            R.check(ok, rule, fn3, "nested access applies every index in order, stopping at the first missing value", where=hh["span"])
    # maps iterate in ascending key order: BTreeMap
    a = E.adt("lhs_types::map::InnerMap")
    if a:
        tys = [norm(f["ty"]) for v in a["variants"] for f in v["fields"]]
        R.check(all("BTreeMap" in t for t in tys), rule, "lhs_types::map::InnerMap", "map storage is a BTreeMap (ascending key iteration)", str(tys), a["span"])


def run(F, R, tier):
    E = F.engine
    rule_quant(E, R)
    rule_trunc(E, R)
    rule_absent(E, R)
    rule_walk(E, R)
    C04.rule_index(E, R)
    # R02-notvec is decided by R01-logic's `not on Vec` instance
    import C01
    sub = Report()
    C01.rule_logic(E, sub)
    for r in sub.results:
        if "not on" in r.label or r.status == "cannot-decide":
            r.rule = "R02-notvec"
            R.results.append(r)
    R.not_decided += ["MapEachIterator traversal order (row-major, flattening of several [*]); R02-walk decides only its iterator protocol",
                      "agreement of the three compilation strategies (one / vec / iter)",
                      "get_nested / extract_nested folding beyond order and early stop", "IndexExpr::compile_with_compiler's three paths"]
