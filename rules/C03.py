"""C03 — function calls get the evaluated arguments; map-each and concat as specified; per-call context.

Decided clauses (DESIGN.md §5 C03): accessor agreement of the per-call context object (R03-anyacc),
flow of that object from `context()` through `check_param` into the AST node, `return_type` and `compile`
(R03-ctxflow), order/element preservation of the argument pipeline (R03-order), order of caller arguments
and defaults (R03-defaults), dropping of absent map-each results and typed absences (R03-dropabsent),
concat's skip-absent / in-order joins (R03-concat).
"""
from lib import *
import sem

LEVEL = "other"
EXPLANATION = ("Static rules over the type-checked HIR and MIR of the function-call pipeline: every cast that "
               "produces a `dyn Any` view of the per-call context, every sink of the context object, every iterator "
               "chain that carries call arguments, and every constructor of the default-argument chain are "
               "enumerated from the resolved program and compared with the argument-order/context-identity "
               "contract of the statement. Values computed at run time are not decided.")

LEX_FN = "ast::function_expr::FunctionCallExpr::lex_with_function"
NEW_FN = "ast::function_expr::FunctionCallExpr::new"
RET_FN = "ast::function_expr::FunctionCallExpr::return_type"
COMPILE_FN = "<ast::function_expr::FunctionCallExpr as ast::ValueExpr>::compile_with_compiler"
COMPUTE_FN = COMPILE_FN + "::compute"
SIMPLE_COMPILE = "<functions::SimpleFunctionDefinition as functions::FunctionDefinition>::compile"
CHAIN_NEW = "functions::ExactSizeChain::new"


def rule_anyacc(crate, R, rule="R03-anyacc"):
    """no `&[mut] Box<dyn Tr>` -> `&[mut] dyn Any` unsizing: that views the box, not its content"""
    n_casts = 0
    n_any = 0
    for m in crate.mir_list:
        for bi, bl in enumerate(m["blocks"]):
            for s in bl["stmts"]:
                if s["k"] != "Assign" or s["rv"]["k"] != "Cast":
                    continue
                rv = s["rv"]
                if "Unsize" not in rv["ck"]:
                    continue
                n_casts += 1
                if rv.get("dst_dyn") != "core::any::Any":
                    continue
                n_any += 1
                label = "unsize %s -> dyn Any" % norm(rv.get("src_pointee", "?"))
                if rv.get("src_pointee_is_box") and rv.get("src_box_dyn"):
                    R.violation(rule, norm(m["path"]), label,
                                "a reference to the Box itself is coerced to `dyn Any`: downcasting the result to the "
                                "boxed value's type fails while the sibling accessors (`&*self.inner`) succeed",
                                s.get("sp", ""))
                else:
                    R.ok(rule, norm(m["path"]), label, where=s.get("sp", ""))
    return n_casts, n_any


def _ctx_accessors(E, R):
    """sibling agreement: every FunctionDefinitionContext accessor handing out `dyn Any` reads through `inner`"""
    rule = "R03-anyacc"
    n = 0
    for it in E.fns():
        if it.get("self_adt") != "functions::FunctionDefinitionContext":
            continue
        out = it.get("output", "")
        if "dyn core::any::Any" not in out or not out.startswith("&"):
            continue
        n += 1
        h = E.hir_by_dp.get(it["dp"])
        if not h or "body" not in h:
            R.cannot(rule, norm(it["path"]), "no HIR body")
            continue
        # the returned expression must go *through* the box: `&*self.inner`, `&mut *self.inner`,
        # `self.inner.as_ref()/as_mut()/deref()`; a bare `&[mut] self.inner` names the Box itself
        cur = h["body"]
        while cur.get("k") == "Block" and cur.get("expr") is not None:
            cur = cur["expr"]
        ok = True
        while cur.get("k") in ("AddrOf", "Use", "Type"):
            cur = cur["e"]
        if cur.get("k") == "Field" and cur.get("name") == "inner" and local_name(cur["e"]) == "self":
            ok = False
        R.check(ok, rule, norm(it["path"]), "accessor derefs `inner` before unsizing",
                "the returned `dyn Any` must be the boxed value (`&[mut] *self.inner`)", it["span"])
    R.floor(rule, "FunctionDefinitionContext `dyn Any` accessors", n, 2)


def rule_ctxflow(E, R):
    rule = "R03-ctxflow"
    h = E.hir(LEX_FN)
    if not h:
        return R.cannot(rule, LEX_FN, "anchor not found")
    body = h["body"]
    # 1. exactly one context() call, bound by a `let`
    ctx_calls = list(calls(body, r"functions::FunctionDefinition::context$"))
    ctx_local = None
    for st in exprs(body, "SLet"):
        init = st.get("init")
        if init is not None and strip(init) in ctx_calls and st["pat"].get("k") == "PBinding":
            ctx_local = st["pat"]["name"]
    if not R.check(len(ctx_calls) == 1 and ctx_local is not None, rule, LEX_FN, "single context() bound to a local",
                   "found %d context() calls" % len(ctx_calls), h["span"]):
        return
    # 2. every check_param gets that local (as_mut)
    cps = list(calls(body, r"functions::FunctionDefinition::check_param$"))
    R.floor(rule, "check_param calls in lex_with_function", len(cps), 1)
    for c in cps:
        a = c["args"][-1]
        root, ch = chain(a)
        good = local_name(root) == ctx_local and [x["m"] for x in ch] in (["as_mut"], ["as_deref_mut"])
        R.check(good, rule, LEX_FN, "check_param receives the context created by context()",
                "4th argument must be `%s.as_mut()`" % ctx_local, c["sp"])
    # 3. the node is built from that local
    news = list(calls(body, r"^" + NEW_FN.replace(":", r"\:") + "$")) + \
        [s for s in exprs(body, "Struct") if norm(s["res"].get("path", "")).endswith("FunctionCallExpr")]
    R.floor(rule, "FunctionCallExpr constructions in lex_with_function", len(news), 1)
    for c in news:
        if c["k"] == "Call":
            good = local_name(c["args"][2]) == ctx_local
        else:
            f = [x for x in c["fields"] if x["name"] == "context"]
            good = bool(f) and local_name(f[0]["e"]) == ctx_local
        R.check(good, rule, LEX_FN, "FunctionCallExpr stores the checked context",
                "the `context` of the node must be the local `%s`" % ctx_local, c["sp"])
    # 4. FunctionCallExpr::new stores its parameter
    hn = E.hir(NEW_FN)
    if hn:
        lits = [s for s in exprs(hn["body"], "Struct")]
        for s in lits:
            f = [x for x in s["fields"] if x["name"] == "context"]
            R.check(bool(f) and is_param(f[0]["e"], hn, 2), rule, NEW_FN, "new() stores its context parameter",
                    where=s["sp"])
    else:
        R.cannot(rule, NEW_FN, "anchor not found")
    # 5. constructors elsewhere: every construction of a FunctionCallExpr in non-test code is one of the above
    for hb in E.hir_list:
        if "body" not in hb:
            continue
        p = norm(hb["path"])
        if p in (LEX_FN, NEW_FN):
            continue
        for c in calls(hb["body"], r"^ast::function_expr::FunctionCallExpr::new$"):
            R.violation(rule, p, "FunctionCallExpr::new outside lex_with_function",
                        "a second construction site must also carry the context that was passed to check_param", c["sp"])
        for s in exprs(hb["body"], "Struct"):
            if norm(s["res"].get("path", "")) == "ast::function_expr::FunctionCallExpr" and not s.get("x"):
                R.violation(rule, p, "FunctionCallExpr literal outside new()", where=s["sp"])
    # 6. return_type passes self.context.as_ref()
    hr = E.hir(RET_FN)
    if hr:
        rc = list(calls(hr["body"], r"functions::FunctionDefinition::return_type$"))
        R.floor(rule, "return_type delegation", len(rc), 1)
        for c in rc:
            a = c["args"][-1]
            good = root_is_field(a, "self", "context") and [x["m"] for x in chain(a)[1]] in (["as_ref"], ["as_deref"])
            R.check(good, rule, RET_FN, "return_type receives self.context", where=c["sp"])
    else:
        R.cannot(rule, RET_FN, "anchor not found")
    # 7. compile receives the destructured context
    hc = E.hir(COMPILE_FN)
    if hc:
        cc = list(calls(hc["body"], r"functions::FunctionDefinition::compile$"))
        R.floor(rule, "compile delegation", len(cc), 1)
        bound = None
        for st in exprs(hc["body"], "SLet"):
            if st["pat"].get("k") == "PStruct" and local_name(st.get("init", {})) == "self":
                for f in st["pat"]["fields"]:
                    if f["name"] == "context" and f["pat"].get("k") == "PBinding":
                        bound = f["pat"]["name"]
        for c in cc:
            a = c["args"][-1]
            good = (bound is not None and local_name(a) == bound) or root_is_field(a, "self", "context")
            R.check(good, rule, COMPILE_FN, "compile receives the node's context",
                    "second argument must be the `context` field moved out of self", c["sp"])
    else:
        R.cannot(rule, COMPILE_FN, "anchor not found")


def _chains_over(body, names, fields=()):
    """method chains (outermost call node) whose root is one of the locals `names` or self.<field>"""
    out = []
    inner = set()
    for c in exprs(body, "MethodCall"):
        root, ch = chain(c, follow=False)
        if local_name(root) in names or any(root_is_field(c, "self", f) for f in fields):
            out.append((c, root, ch))
            for x in ch[:-1]:
                inner.add(id(x))
    return [(c, r, ch) for c, r, ch in out if id(c) not in inner]


def rule_order(E, R):
    rule = "R03-order"
    # lexing: args only grows by push
    h = E.hir(LEX_FN)
    if h:
        accepted = {local_name(chain(c_["args"][1])[0]) for c_ in calls(h["body"], r"^" + NEW_FN.replace(":", r"\:") + "$") if len(c_["args"]) > 1}
        accepted.discard(None)
        muts = [c for c in exprs(h["body"], "MethodCall") if local_name(chain(c)[0]) in accepted
                and c["m"] in ("push", "insert", "remove", "pop", "swap", "truncate", "clear", "reverse", "sort",
                               "extend", "drain", "retain", "swap_remove", "dedup", "rotate_left", "rotate_right")
                and strip(c["recv"]).get("k") == "Path"]
        pushes = [c for c in muts if c["m"] == "push"]
        R.floor(rule, "args.push in lex_with_function", len(pushes), 1)
        for c in muts:
            R.check(c["m"] == "push", rule, LEX_FN, "argument list mutated by `%s`" % c["m"],
                    "arguments must be appended in source order", c["sp"])
    else:
        R.cannot(rule, LEX_FN, "anchor not found")
    # compile / execute: every chain over args
    hc = E.hir(COMPILE_FN)
    if not hc:
        return R.cannot(rule, COMPILE_FN, "anchor not found")
    n = 0
    removes = []
    arg_names = _arg_locals(hc)
    for c, root, ch in _chains_over(hc["body"], arg_names):
        ms = [x["m"] for x in ch]
        ty = c.get("ty", "")
        if ms == ["remove"]:
            removes.append(c)
            continue
        if ms in (["is_empty"], ["len"]):
            continue
        if ty == "bool" or ms[:1] == ["first"]:
            # predicates over the argument list (memoisation heuristic, map_each_count) carry no values
            continue
        n += 1
        v = chain_verdict(ch)
        label = "chain args.%s" % ".".join(ms)
        if v == "ok":
            R.ok(rule, COMPILE_FN, label, where=c["sp"])
        elif v.startswith("lossy"):
            R.violation(rule, COMPILE_FN, label, "adaptor `%s` drops or reorders call arguments" % v[6:], c["sp"])
        else:
            R.undecided(rule, COMPILE_FN, label, "unrecognised adaptor `%s`" % v[8:], c["sp"])
    R.floor(rule, "argument chains in FunctionCallExpr::compile_with_compiler", n, 4)
    # map-each: the mapped argument is taken from the front, only under map_each_count > 0
    R.floor(rule, "args.remove(..) for the mapped argument", len(removes), 1)
    for c in removes:
        R.check(lit_value(c["args"][0]) == 0, rule, COMPILE_FN, "mapped argument is args.remove(0)", where=c["sp"])
    # return_type / check_param iterate self.args / args in order
    for fn, names, fields in ((RET_FN, set(), ("args",)), (LEX_FN, None, ())):
        hh = E.hir(fn)
        if not hh:
            continue
        if names is None:
            names = {local_name(chain(c_["args"][1])[0]) for c_ in calls(hh["body"], r"^" + NEW_FN.replace(":", r"\:") + "$") if len(c_["args"]) > 1}
        for c, root, ch in _chains_over(hh["body"], names, fields):
            ms = [x["m"] for x in ch]
            if ms in (["push"], ["len"], ["is_empty"]):
                continue
            v = chain_verdict(ch)
            label = "chain args.%s" % ".".join(ms)
            if v == "ok":
                R.ok(rule, fn, label, where=c["sp"])
            elif v.startswith("lossy"):
                R.violation(rule, fn, label, "adaptor `%s` drops or reorders parameters" % v[6:], c["sp"])
            else:
                R.undecided(rule, fn, label, "unrecognised adaptor `%s`" % v[8:], c["sp"])


def _arg_locals(hb):
    """locals of a function body that hold the call's argument list: the binding of the struct field `args` taken out of
    self, and every local initialised from an order-preserving chain over one of them"""
    names = set()
    for q in walk(hb["body"]):
        if q.get("k") == "PStruct":
            for fld in q["fields"]:
                if fld["name"] == "args":
                    names |= set(pat_bindings(fld["pat"]))
    changed = True
    while changed:
        changed = False
        for st in exprs(hb["body"], "SLet"):
            if "init" in st and st["pat"].get("k") == "PBinding" and st["pat"]["name"] not in names:
                root, ch = chain(st["init"], follow=False)
                if local_name(root) in names and ch and ch[-1]["m"] in ("collect", "into_boxed_slice", "into_iter", "iter"):
                    names.add(st["pat"]["name"])
                    changed = True
    return names


def _origin(e, hb, role_of=None):
    """classify an ExactSizeChain::new operand: 'once-ok:<role>', 'local:<role>' (root of its chain) or '?';
    roles: 'closure-param', 'args' (see _arg_locals), 'defaults' (built from default_value), else the spelling"""
    cparams = set()
    for c in exprs(hb["body"], "Closure"):
        cparams |= set(closure_param_names(c))
    args = _arg_locals(hb)

    def role(nm):
        if role_of and nm in role_of:
            return role_of[nm]
        if nm in args:
            return "args"
        if nm in cparams:
            return "closure-param"
        return nm
    stop = set(args) | cparams | set(role_of or {})
    e = strip(e)
    if not (e.get("k") == "Path" and e.get("res", {}).get("name") in stop):
        e = deref(e)
    if e.get("k") == "Call" and norm(e.get("callee", "")).endswith("iter::sources::once::once"):
        inner = deref(e["args"][0])
        if inner.get("k") == "Call" and norm(inner.get("callee", "")).endswith("Result::Ok"):
            return "once-ok:" + str(role(local_name(inner["args"][0])))
        return "once:?"
    root, ch = chain(e, stop=stop)
    nm = local_name(root)
    if nm:
        v = chain_verdict(ch)
        return "local:%s%s" % (role(nm), "" if v == "ok" else "!" + v)
    return "?"


def rule_defaults(E, R):
    rule = "R03-defaults"
    # ExactSizeChain::new itself: a.chain(b)
    h = E.hir(CHAIN_NEW)
    if not h:
        R.cannot(rule, CHAIN_NEW, "anchor not found")
    else:
        cs = [c for c in exprs(h["body"], "MethodCall") if c["m"] == "chain"]
        R.floor(rule, "chain() in ExactSizeChain::new", len(cs), 1)
        for c in cs:
            R.check(is_param(c["recv"], h, 0) and is_param(c["args"][0], h, 1), rule, CHAIN_NEW,
                    "first operand is iterated before the second", "must be `a.chain(b)`", c["sp"])
    sites = []
    for hb in E.hir_list:
        if "body" not in hb:
            continue
        for c in calls(hb["body"], r"^functions::ExactSizeChain::new$", into_closures=True):
            sites.append((norm(hb["path"]), c, hb))
    R.floor(rule, "ExactSizeChain::new call sites", len(sites), 3)
    for fn, c, hb_ in sites:
        defaults = {}
        for st in exprs(hb_["body"], "SLet"):
            if "init" in st and st["pat"].get("k") == "PBinding" and any(f["name"] == "default_value" for f in exprs_deep(st["init"], "Field")) and \
                    not closure_of(st["init"]):
                defaults[st["pat"]["name"]] = "defaults"
        a, b = _origin(c["args"][0], hb_, defaults), _origin(c["args"][1], hb_, defaults)
        if fn == SIMPLE_COMPILE:
            good = a == "local:closure-param" and b == "local:defaults"
            R.check(good, rule, fn, "caller arguments before declared defaults",
                    "got (%s, %s); expected the call's `args` followed by `opt_args`" % (a, b), c["sp"])
        elif fn == COMPILE_FN:
            good = a == "once-ok:closure-param" and b == "local:args"
            R.check(good, rule, fn, "mapped element first, remaining arguments after it (%s)" % ("memoised" if "extra" in str(deref(c["args"][1]).get("recv", c["args"][1])) or "extra" in str(c["args"][1]) else "re-evaluated"),
                    "got (%s, %s)" % (a, b), c["sp"])
        else:
            R.undecided(rule, fn, "unreviewed ExactSizeChain::new site", "(%s, %s)" % (a, b), c["sp"])
    # defaults are the declared default values in declaration order
    hs = E.hir(SIMPLE_COMPILE)
    if hs:
        ok = False
        for st in exprs(hs["body"], "SLet"):
            if st["pat"].get("k") == "PBinding" and "init" in st and any(f["name"] == "default_value" for f in exprs_deep(st["init"], "Field")) and \
                    not closure_of(st["init"]):
                root, ch = chain(st["init"])
                src = let_init(hs["body"], local_name(root)) if local_name(root) else None
                from_suffix = src is not None and any(root_is_field(i_["e"], "self", "opt_params") for i_ in exprs(src, "Index"))
                if from_suffix and chain_verdict(ch) == "ok":
                    cl = [closure_of(x["args"][0]) for x in ch if x["m"] == "map"]
                    if cl and cl[0]:
                        flds = [f for f in exprs(cl[0]["body"], "Field") if f["name"] == "default_value"]
                        ok = bool(flds)
        R.check(ok, rule, SIMPLE_COMPILE, "opt_args are the declared default_value of each omitted parameter, in order",
                where=hs["span"])
        # opt_params slice starts at (given - mandatory)
        sl = [i for i in exprs(hs["body"], "Index") if root_is_field(i["e"], "self", "opt_params")]
        R.check(len(sl) >= 1, rule, SIMPLE_COMPILE, "defaults taken from a suffix of self.opt_params", where=hs["span"])
    else:
        R.cannot(rule, SIMPLE_COMPILE, "anchor not found")


def _ty(n):
    return norm(n.get("ty", "")).replace("&mut ", "").replace("&", "").strip()


def _type_param_rooted(S, n, frame):
    """the expression is a local of type types::Type, possibly converted/cloned (the declared return type travelling as a value)"""
    n = sem.peel(n)
    while n.get("k") == "MethodCall" and n["m"] in ("into", "clone") and not n["args"]:
        n = sem.peel(n["recv"])
    b = S.lookup(n, frame)
    return b is not None and b.pat is not None and _ty(b.pat) == "types::Type"


def rule_dropabsent(E, R):
    rule = "R03-dropabsent"
    h = E.hir(COMPUTE_FN)
    if not h:
        # the per-element evaluation may be a private function of the same file instead of a nested one: the function called
        # from the run-time closures of compile_with_compiler that maps the elements (filter_map_to)
        hc0 = E.hir(COMPILE_FN)
        cands = {}
        if hc0:
            for c_ in exprs(hc0["body"], ("Call", "MethodCall")):
                hh = E.hir_by_dp.get(c_.get("resolved_dp") or c_.get("callee_dp") or "")
                if hh and "body" in hh and hh.get("span", "").rsplit(":", 1)[0] == hc0.get("span", "").rsplit(":", 1)[0] and \
                        any(m_["m"] == "filter_map_to" for m_ in exprs(hh["body"], "MethodCall")):
                    cands[hh["dp"]] = hh
        if len(cands) == 1:
            h = list(cands.values())[0]
    if not h:
        return R.cannot(rule, COMPUTE_FN, "anchor not found")
    COMPUTE = norm(h["path"])
    S = sem.Sem(E, h)
    pRes = lambda v: _ty(v.node).startswith("core::result::Result<types::LhsValue")
    pVal = lambda v: _ty(v.node) == "types::LhsValue"
    UV = sem.enum_universe(E, "types::LhsValue")
    # absent first argument -> Err(Array(return_type))
    found_err = False
    for x in S.result_leaves():
        e = x.node
        if e.get("k") == "Call" and norm(e.get("callee", "")) == "core::result::Result::Err":
            inner = strip(e["args"][0])
            if inner.get("k") == "Call" and norm(inner.get("callee", "")) == "types::Type::Array" and \
                    _type_param_rooted(S, inner["args"][0], x.frame):
                adm = sem.admitted_tuples(x.pc, [pRes], [["Result::Ok", "Result::Err"]])
                found_err = found_err or adm == {("Result::Err",)}
    R.check(found_err, rule, COMPUTE_FN if COMPUTE == COMPUTE_FN else COMPUTE, "absent mapped argument -> Err(Array(return_type))", where=h["span"])
    # element results: filter_map / filter_map_to
    def value_variants(pc):
        """LhsValue variants a site is restricted to, read from `is` literals on the value itself or on the
        Result<LhsValue, _> that carries it (`Ok(LhsValue::Map(..))`)"""
        best = None
        for a, pol in sem.is_literals(pc):
            if not pol:
                continue
            for i, v in enumerate(a.scruts):
                if not (pVal(v) or pRes(v)):
                    continue
                vs = set()
                for alt in a.alts:
                    m_ = re.search(r"LhsValue::(\w+)", alt[i])
                    if not m_:
                        vs = None
                        break
                    vs.add("LhsValue::" + m_.group(1))
                if vs is not None:
                    best = vs if best is None else (best & vs)
        return best
    for variant, meth in (("LhsValue::Map", "filter_map"), ("LhsValue::Array", "filter_map_to")):
        good = False
        bad = []
        for x in S.sites():
            if x.node.get("k") != "MethodCall" or x.in_closure:
                continue
            if value_variants(x.pc) != {variant}:
                continue
            if x.node["m"] == meth:
                good = True
            if x.node["m"] in ("map", "map_to", "flat_map"):
                bad.append(x.node["m"])
        R.check(good and not bad, rule, COMPUTE_FN if COMPUTE == COMPUTE_FN else COMPUTE, "%s elements go through %s (absent results dropped)" % (last_seg(variant), meth),
                "found also %s" % bad if bad else "", h["span"])
    # non map-each: Some(v) => Ok(v), None => Err(return_type)
    hc = E.hir(COMPILE_FN)
    ok = False
    if hc:
        Sc = sem.Sem(E, hc)
        for c in exprs(hc["body"], "Call"):
            if norm(c.get("callee", "")) != "filter::CompiledValueExpr::new":
                continue
            clo = closure_of(c["args"][0])
            if not clo:
                continue
            some_ok = err_rt = False
            for x in Sc.closure_leaves(clo):
                e = x.node
                if e.get("k") != "Call":
                    continue
                lits = [(a, pol) for a, pol in sem.is_literals(x.pc) if len(a.scruts) == 1 and
                        sem.peel(a.scruts[0].node).get("k") == "Call" and path_res(sem.peel(a.scruts[0].node).get("f", {})) and
                        path_res(sem.peel(a.scruts[0].node)["f"]).get("r") == "local"]
                if not lits:
                    continue
                a, pol = lits[-1]
                heads = {sem.variant_head(y[0]) for y in a.alts}
                is_some = (pol and heads == {"Option::Some"}) or (not pol and heads == {"Option::None"})
                is_none = (pol and heads == {"Option::None"}) or (not pol and heads == {"Option::Some"})
                if norm(e.get("callee", "")) == "core::result::Result::Ok" and is_some:
                    b_ = Sc.lookup(sem.peel(e["args"][0]), x.frame)
                    some_ok = b_ is not None and b_.expr is not None and sem.peel(b_.expr) is sem.peel(a.scruts[0].node)
                if norm(e.get("callee", "")) == "core::result::Result::Err" and is_none:
                    err_rt = _type_param_rooted(Sc, e["args"][0], x.frame) and sem.peel(e["args"][0]).get("k") == "Path"
            ok = ok or (some_ok and err_rt)
    R.check(ok, rule, COMPILE_FN, "plain call: Some(v) -> Ok(v), None -> Err(return_type)",
            "an absent result must behave like an absent field of the declared return type", hc["span"] if hc else "")


def _mentions_arg_result(f):
    """does a formula test a value of type Result<LhsValue, Type> (an evaluated argument)?"""
    t = f[0]
    if t == "not":
        return _mentions_arg_result(f[1])
    if t in ("and", "or"):
        return any(_mentions_arg_result(g) for g in f[1])
    if t != "atom":
        return False
    a = f[1]
    nodes = [v.node for v in (a.scruts or []) if hasattr(v, "node")] + [v.node for v in (a.l, a.r) if v is not None and hasattr(v, "node")] + \
        ([a.node] if a.node is not None else [])
    for n in nodes:
        n = strip(n)
        tops = [n] + ([n["recv"]] + n["args"] if n.get("k") == "MethodCall" else (n.get("args", []) if n.get("k") == "Call" else []))
        for x in tops:
            if _ty(strip(x)).startswith("core::result::Result<types::LhsValue"):
                return True
    if a.kind == "forall":
        return _mentions_arg_result(a.r)
    return False


def rule_absence(E, R):
    """an argument without a value is passed on as a typed absence: evaluated arguments reach the function as
    `Result<LhsValue, Type>` unmodified, in both the memoised and the re-evaluating path, and the run-time closures
    never leave early because of the outcome of evaluating an argument"""
    rule = "R03-absence"
    hc = E.hir(COMPILE_FN)
    if not hc:
        return R.cannot(rule, COMPILE_FN, "anchor not found")
    S = sem.Sem(E, hc)
    n = 0
    # every run-time closure handed to CompiledValueExpr::new
    for c in exprs(hc["body"], "Call"):
        if norm(c.get("callee", "")) != "filter::CompiledValueExpr::new":
            continue
        clo = closure_of(c["args"][0])
        if not clo:
            continue
        n += 1
        own = [x for x in S.sites() if x.node is clo]
        base = len(own[0].pc) if own else 0
        bad_rets = []
        for x in S.sites():
            if x.node.get("k") in ("Ret", "Break") and sem.within(x, clo) and x.in_closure[-1] is clo and x.frame is S.root:
                if any(_mentions_arg_result(f) for f, pol in x.pc[base:]):
                    bad_rets.append(x.node.get("sp", ""))
        R.check(not bad_rets, rule, COMPILE_FN, "run-time closure #%d has no early return (an absent argument does not short-circuit the call)" % n,
                "the closure leaves early depending on an argument's evaluation result (%s): bailing out when an argument is absent makes "
                "memoised and re-evaluated arguments disagree and hides the typed absence from the function" % bad_rets, clo["sp"])
        for m in exprs(clo["body"], "MethodCall"):
            if m["m"] != "collect":
                continue
            root, ch = chain(m)
            if not any(x["m"] == "map" and closure_of(x["args"][0]) and
                       any(y["m"] == "execute" for y in exprs(closure_of(x["args"][0])["body"], "MethodCall")) for x in ch):
                continue
            ty = norm(m.get("ty", ""))
            good = ty.startswith("alloc::vec::Vec<core::result::Result<types::LhsValue, types::Type>")
            R.check(good, rule, COMPILE_FN, "evaluated extra arguments are kept as Vec<Result<LhsValue, Type>> (absences preserved)",
                    "collected into `%s`" % ty[:120], m["sp"])
        bad = [m["m"] for m in exprs(clo["body"], "MethodCall")
               if m["m"] in ("ok", "unwrap", "unwrap_or", "unwrap_or_default", "unwrap_or_else", "flatten", "filter_map", "expect") and
               norm(m["recv"].get("ty", "")).startswith("core::result::Result<types::LhsValue")]
        R.check(not bad, rule, COMPILE_FN, "closure #%d does not unwrap or drop an argument's Result" % n, str(bad), clo["sp"])
    R.floor(rule, "run-time closures of a compiled call", n, 4)


def _keeps_present(S, call):
    """a `filter_map(|arg| ..)` / `flat_map(|arg| ..)` over the arguments that lets every present value through: its closure
    answers Some(value) for a present (`Ok`) argument; what it drops is absent (or of another kind, which typing excludes)"""
    if call.get("k") != "MethodCall" or call["m"] not in ("filter_map", "flat_map") or not call.get("args"):
        return False
    clo = closure_of(call["args"][0])
    if not clo:
        return False
    pRes = lambda v: _ty(v.node).startswith("core::result::Result<types::LhsValue")
    somes = [x for x in S.closure_leaves(clo) if sem.ctor_head(x.node) == "Option::Some"]
    others = [x for x in S.closure_leaves(clo) if sem.ctor_head(x.node) not in ("Option::Some", "Option::None")]
    # `arg.ok()` as the whole closure is the flat_map idiom
    if others and all(sem.is_method(x.node, "ok") is not None for x in others) and not somes:
        return True
    return bool(somes) and not others and all(sem.admitted_tuples(x.pc, [pRes], [["Result::Ok", "Result::Err"]]) == {("Result::Ok",)} for x in somes)


def _for_each_over(S, pidx):
    """[(site, closure)] of `<iterator rooted in parameter pidx>.for_each(closure)` whose chain neither drops nor reorders a
    present element"""
    out = []
    for x in S.sites():
        n = x.node
        if n.get("k") == "MethodCall" and n["m"] == "for_each" and n.get("args") and closure_of(n["args"][0]):
            if sem.param_index(S, n["recv"], x.frame, through_mut=True) != pidx:
                continue
            root, ch = chain(n["recv"])
            if all(c["m"] in ORDER_PRESERVING or _keeps_present(S, c) for c in ch):
                out.append((x, closure_of(n["args"][0])))
    return out


def rule_concat(E, R):
    rule = "R03-concat"
    fn = "functions::concat::concat_impl"
    h = E.hir(fn)
    if not h:
        return R.cannot(rule, fn, "anchor not found")
    S = sem.Sem(E, h, inline=False)
    pRes = lambda v: _ty(v.node).startswith("core::result::Result<types::LhsValue")
    UR = ["Result::Ok", "Result::Err"]
    somes = [x for x in S.result_leaves() if x.node.get("k") == "Call" and norm(x.node.get("callee", "")) == "core::option::Option::Some"]
    present = [x for x in somes if sem.admitted_tuples(x.pc, [pRes], [UR]) == {("Result::Ok",)}]
    # both joiners are reached for a present argument of their kind, inside a returned Some(..) (one Some per kind, or
    # one Some around a match on the kind)
    joins = {}
    for x in S.sites():
        if x.node.get("k") == "Call" and norm(x.node.get("callee", "")) in ("functions::concat::concat_array", "functions::concat::concat_bytes"):
            kinds = sem.nested_variants(x.pc, lambda v: True, "LhsValue")
            inside = any(any(y is x.node for y in walk(sm.node)) for sm in present)
            joins[last_seg(norm(x.node["callee"]))] = (sem.admitted_tuples(x.pc, [pRes], [UR]) == {("Result::Ok",)}, sorted(kinds or []), inside)
    want = {"concat_array": (True, ["Array"], True), "concat_bytes": (True, ["Bytes"], True)}
    R.check(len(present) >= 1 and len(present) == len(somes) and joins == want, rule, fn,
            "returns Some(..) as soon as a present argument is found", "Some leaves %d (for a present argument: %d); joiners %s" % (len(somes), len(present), joins), h["span"])
    nones = [x for x in S.result_leaves() if def_path(x.node) == "core::option::Option::None"]
    tries = [x for x in S.sites() if sem.is_try(x.node) and sem.is_method(sem.try_inner(x.node), "next") is not None and
             norm(x.node.get("ty", "")).startswith("core::result::Result<types::LhsValue")]
    none_ok = (bool(nones) and all(not any(_mentions_arg_result(f) for f, _ in x.pc) for x in nones)) or (not nones and bool(tries))
    R.check(none_ok, rule, fn, "all arguments absent -> None", where=h["span"])
    exits = [x for x in S.sites() if x.node.get("k") in ("Ret", "Break") and not x.node.get("x") and x.frame is S.root]
    err_skips = all(("Result::Err",) not in sem.admitted_tuples(x.pc, [pRes], [UR]) or
                    not any(_mentions_arg_result(f) for f, _ in x.pc) for x in exits)
    R.check(err_skips and bool(exits), rule, fn, "an absent argument is skipped (no return/break)", where=h["span"])
    # concat_array: every present array is appended, in order
    fa = "functions::concat::concat_array"
    ha = E.hir(fa)
    if ha:
        Sa = sem.Sem(E, ha)      # a private helper that does the appending is followed

        def root_of(n_, fr_, limit=6):
            """the caller's local a place expression denotes, through the parameters of followed helpers"""
            b_ = sem.root_local(Sa, n_, fr_)
            while b_ is not None and b_.kind == "arg" and b_.expr is not None and limit > 0:
                limit -= 1
                b_ = sem.root_local(Sa, b_.expr, b_.frame)
            return b_
        tv = [x for x in Sa.sites() if x.node.get("k") == "Call" and norm(x.node.get("callee", "")).endswith("Array::try_from_vec")]
        V = sem.root_local(Sa, tv[0].node["args"][1], tv[0].frame) if tv and len(tv[0].node["args"]) > 1 else None
        ext = [x for x in Sa.sites() if x.node.get("k") == "MethodCall" and x.node["m"] == "extend" and V is not None and
               root_of(x.node["recv"], x.frame) is V]
        # (a) every element taken out of the argument iterator with next() ends up in an extend
        nexts = [x for x in Sa.sites() if x.node.get("k") == "MethodCall" and x.node["m"] == "next" and
                 sem.param_index(Sa, x.node["recv"], x.frame, through_mut=True) == 1]
        taken_ok = all(any(sem.passes_through(Sa, e.node["args"][0], e.frame, nx.node) for e in ext) for nx in nexts)
        # (b) a loop over the whole rest of the iterator extends with each element
        loop_ok = False
        for ls, pat, it in sem.for_loops(Sa):
            its = [it]
            cur = sem.peel(it)
            while cur.get("k") == "MethodCall":
                if cur["m"] == "chain":
                    its.append(cur["args"][0])
                cur = sem.peel(cur["recv"])
            whole = False
            for cand in its:
                b_, _, _, ms = sem.provenance(Sa, cand, ls.frame, through_mut=True)
                if b_ is not None and sem.param_index(Sa, cand, ls.frame, through_mut=True) == 1 and \
                        chain_verdict([{"m": m_} for m_ in ms if m_ not in ("flat_map", "chain", "once")], terminal_ok=()) == "ok":
                    whole = True
            def in_this_loop(e_):
                if any(y is e_.node for y in walk(ls.node)):
                    return True
                fr_ = e_.frame
                while fr_ is not None and fr_.call is not None:      # appended by a helper called from the loop body
                    if any(y is fr_.call for y in walk(ls.node)):
                        return True
                    fr_ = fr_.parent
                return False
            if whole and any(in_this_loop(e) for e in ext):
                loop_ok = True
        # the same walk written as `<rest>.for_each(|arg| .. extend ..)`
        for fe in _for_each_over(Sa, 1):
            if any(sem.within(e, fe[1]) for e in ext):
                loop_ok = True
        R.check(bool(ext) and taken_ok and loop_ok, rule, fa, "every present array is appended with extend()",
                "extend sites %d, next()-taken elements appended: %s, loop over the rest appends: %s" % (len(ext), taken_ok, loop_ok), ha["span"])
        bad = [c["m"] for c in exprs(ha["body"], "MethodCall") if c["m"] in LOSSY - {"flat_map", "next"} and not _keeps_present(Sa, c)]
        R.check(not bad, rule, fa, "no lossy adaptor on the argument iterator", str(bad), ha["span"])
        acc_ok = V is not None and V.expr is not None and sem.param_index(Sa, V.expr, V.frame) == 0 and \
            sem.provenance(Sa, V.expr, V.frame)[3] == ["into_vec"]
        R.check(acc_ok, rule, fa, "result starts with the first present array (accumulator.into_vec())", where=ha["span"])
    else:
        R.cannot(rule, fa, "anchor not found")
    fb = "functions::concat::concat_bytes"
    hb = E.hir(fb)
    if hb:
        Sb = sem.Sem(E, hb, inline=False)
        ext = [x for x in Sb.sites() if x.node.get("k") == "MethodCall" and x.node["m"] == "extend_from_slice" and
               sem.param_index(Sb, x.node["recv"], x.frame, through_mut=True) == 0]
        in_loop = False
        for ls, pat, it in sem.for_loops(Sb):
            b_, _, _, ms = sem.provenance(Sb, it, ls.frame)
            if sem.param_index(Sb, it, ls.frame) == 1 and chain_verdict([{"m": m_} for m_ in ms], terminal_ok=()) == "ok" and \
                    any(any(y is e.node for y in walk(ls.node)) for e in ext):
                in_loop = True
        for fe in _for_each_over(Sb, 1):
            if any(sem.within(e, fe[1]) for e in ext):
                in_loop = True
        R.check(len(ext) == 1 and in_loop, rule, fb, "every present byte string is appended with extend_from_slice()", where=hb["span"])
        bad = [c["m"] for c in exprs(hb["body"], "MethodCall") if c["m"] in LOSSY - {"next"} and not _keeps_present(Sb, c)]
        R.check(not bad, rule, fb, "no lossy adaptor on the argument iterator", str(bad), hb["span"])
    else:
        R.cannot(rule, fb, "anchor not found")


def run(F, R, tier):
    E = F.engine
    total = 0
    for c in F.crates:
        n_casts, n_any = rule_anyacc(c, R)
        total += n_casts
    R.analysed["unsize_casts_scanned"] = total
    _ctx_accessors(E, R)
    rule_ctxflow(E, R)
    rule_order(E, R)
    rule_defaults(E, R)
    rule_dropabsent(E, R)
    rule_absence(E, R)
    rule_concat(E, R)
    R.analysed["bodies"] = {c.name: len(c.mir_list) for c in F.crates}
    R.not_decided += [
        "values computed by user functions and by concat beyond skip-absent/in-order structure",
        "equality of memoised and re-evaluated argument values (run-time)",
        "the `opt_params[(given - mandatory)..]` slice arithmetic",
        "iteration order of `[*]` over maps (BTreeMap order, see C02)",
    ]
    R.assumptions += ["std iterator adaptors in the order-preserving list behave as documented",
                      "user `FunctionDefinition` implementations are outside the claim"]
