"""C04 — parsing accepts exactly the well-typed filters; accepted ones never fail later."""
from lib import *
import os
import C20
import sem

LEVEL = "other"
EXPLANATION = ("Static rules: the (left type x operator) admissibility matrix and the literal lexer chosen per arm are "
               "extracted from the comparison parser and compared with the documented matrix; every Compare "
               "implementation casts the run-time value to the variant the parser admitted for its operator "
               "(parser<->compiler agreement); the (container, index kind) tables of the parser, of static typing and "
               "of the three run-time accessors are the same table; each documented typing check sits on the only "
               "path to the corresponding Ok/AST construction; the static type of every logical node is Bool or "
               "Array(Bool) (what its compiled form yields). Exact acceptance of arbitrary compositions and "
               "panic-freedom of all accepted programs are not decided.")

LEX_LHS = "ast::field_expr::ComparisonExpr::lex_with_lhs"
CMP_COMPILE = "<ast::field_expr::ComparisonExpr as ast::Expr>::compile_with_compiler"


def tuple_pairs(p):
    """[(variant0, variant1)] of an (or-)pattern of 2-tuples of variant patterns"""
    ps = p["pats"] if p.get("k") == "POr" else [p]
    out = []
    for q in ps:
        if q.get("k") == "PTuple" and len(q["pats"]) == 2:
            a, b = pat_variant(q["pats"][0]), pat_variant(q["pats"][1])
            out.append((last_seg(a) if a else "_", last_seg(b) if b else "_"))
        else:
            return None
    return out


def built_variants(n, enum_suffix):
    """last segments of `Enum::Variant` constructed (struct literal, tuple ctor call or unit path) inside n"""
    out = set()
    for x in exprs(n, ("Struct", "Call", "Path")):
        if x["k"] == "Struct":
            d = norm(x["res"].get("path", ""))
        elif x["k"] == "Call":
            d = norm(x.get("callee", "")) if x.get("callee_kind", "").startswith("Ctor") else ""
        else:
            r = x["res"]
            d = norm(r.get("path", "")) if r.get("r") == "def" and str(r.get("dk", "")).startswith("Ctor") else ""
        if ("::" + enum_suffix + "::") in ("::" + d):
            out.add(last_seg(d))
    return out


def lexers_called(n):
    out = set()
    for c in exprs(n, ("Call", "MethodCall")):
        cal = norm(c.get("resolved") or c.get("callee") or "")
        cal0 = norm(c.get("callee") or "")
        if cal0.endswith("lex::Lex::lex") or cal0.endswith("::lex_with") or cal0.endswith("LexWith::lex_with"):
            # name by the type lexed
            t = c.get("ty", "")
            m = re.search(r"Result<\((.*?), &str\)", norm(t))
            out.add(m.group(1) if m else cal)
    return out


def _ctor_site_variant(n, enum_suffix):
    """the `Enum::Variant` an expression node constructs (struct literal, tuple ctor call, unit path), else None"""
    k = n.get("k")
    d = ""
    if k == "Struct":
        d = norm(n["res"].get("path", ""))
    elif k == "Call":
        d = norm(n.get("callee", "")) if n.get("callee_kind", "").startswith("Ctor") else ""
    elif k == "Path":
        r = n["res"]
        d = norm(r.get("path", "")) if r.get("r") == "def" and str(r.get("dk", "")).startswith("Ctor(Variant, Const") else ""
    if ("::" + enum_suffix + "::") in ("::" + d):
        return last_seg(d)
    return None


def _lexed_type(c):
    cal0 = norm(c.get("callee") or "")
    if cal0.endswith("lex::Lex::lex") or cal0.endswith("::lex_with") or cal0.endswith("LexWith::lex_with"):
        m = re.search(r"Result<\((.*?), &str\)", norm(c.get("ty", "")))
        return m.group(1) if m else norm(c.get("resolved") or cal0)
    return None


def _ty_is(v, name):
    return norm(v.node.get("ty", "")).replace("&", "").replace("mut ", "").strip() == name


def rule_admit(E, R):
    rule = "R04-admit"
    h = E.hir(LEX_LHS)
    if not h:
        return R.cannot(rule, LEX_LHS, "anchor not found")
    S = sem.Sem(E, h)
    UT = sem.enum_universe(E, "types::Type")
    UO = sem.enum_universe(E, "ast::field_expr::ComparisonOp")
    UB = sem.enum_universe(E, "ast::field_expr::BytesOp")
    pT = lambda v: _ty_is(v, "types::Type")
    pO = lambda v: _ty_is(v, "ast::field_expr::ComparisonOp")
    pB = lambda v: _ty_is(v, "ast::field_expr::BytesOp")
    import itertools
    full = set(itertools.product(UT, UO))
    built = {}      # (type, op) -> set of node variants built under it
    lexed = {}      # (type, op) -> set of lexed types
    built_b, lexed_b = {}, {}
    unsupported = set()
    n_sites = 0
    lhs_ty_ok = []
    for s in S.sites():
        n = s.node
        v = _ctor_site_variant(n, "ComparisonOpExpr")
        lt = _lexed_type(n) if n.get("k") in ("Call", "MethodCall") else None
        if v is None and lt is None and _ctor_site_variant(n, "LexErrorKind") != "UnsupportedOp":
            continue
        adm = sem.admitted_tuples(s.pc, [pT, pO], [UT, UO])
        if _ctor_site_variant(n, "LexErrorKind") == "UnsupportedOp":
            unsupported |= adm
            continue
        if adm == full or not any(a.kind == "is" and any(pO(x) for x in a.scruts) for a, _ in sem.is_literals(s.pc) + _is_atoms_anywhere(s.pc)):
            continue        # not under the (type, operator) decision
        n_sites += 1
        short = {(last_seg(a), last_seg(b)) for a, b in adm}
        for pr in short:
            if v is not None:
                built.setdefault(pr, set()).add(v)
            if lt is not None:
                lexed.setdefault(pr, set()).add(lt)
        admb = sem.nested_variants(s.pc, lambda v_: True, "BytesOp") or set()      # also `ComparisonOp::Bytes(BytesOp::X)` in a tuple pattern
        if admb and len(admb) < len(UB):
            for bo in admb:
                if v is not None:
                    built_b.setdefault(bo, set()).add(v)
                if lt is not None:
                    lexed_b.setdefault(bo, set()).add(lt)
        # the In / Ordering literals are lexed with the *lhs type*
        if lt is not None and "RhsValue" in lt:
            args = call_args(n)
            tycomp = None
            for a, pol in sem.is_literals(s.pc) + _is_atoms_anywhere(s.pc):
                for x in a.scruts:
                    if pT(x):
                        tycomp = x
            lhs_ty_ok.append((bool(tycomp is not None and args and S.same(args[-1], s.frame, tycomp.node, tycomp.frame)), n["sp"]))
    want_pairs = {("Ip", "In"), ("Bytes", "In"), ("Int", "In"), ("Ip", "Ordering"), ("Bytes", "Ordering"), ("Int", "Ordering"),
                  ("Int", "Int"), ("Bytes", "Bytes")}
    got_pairs = set(built)
    R.check(got_pairs == want_pairs, rule, LEX_LHS, "admitted (left type, operator) pairs equal the documented matrix",
            "extra %s missing %s" % (sorted(got_pairs - want_pairs), sorted(want_pairs - got_pairs)), h["span"])
    # pairs that can reach the decision at all: every left type that is not handled before it (Bool, containers of Bool)
    reach = set()
    for s in S.sites():
        if s.node.get("k") == "Match" and not sem.is_try(s.node) and "ComparisonOp)" in norm(s.node["scrut"].get("ty", "")):
            reach |= {(last_seg(a), last_seg(b)) for a, b in sem.admitted_tuples(s.pc, [pT, pO], [UT, UO])}
    if not reach:
        reach = {(last_seg(a), last_seg(b)) for a, b in full if last_seg(a) != "Bool"}
    need = {(last_seg(a), last_seg(b)) for a, b in full if last_seg(a) != "Bool"}
    R.check(need <= reach, rule, LEX_LHS, "the operator decision is reached for every non-Bool left type", "missing %s" % sorted(need - reach), h["span"])
    rest = reach - want_pairs
    uns = {(last_seg(a), last_seg(b)) for a, b in unsupported}
    R.check(rest <= uns, rule, LEX_LHS, "every other pair is rejected with UnsupportedOp",
            "pairs neither admitted nor rejected with UnsupportedOp: %s" % sorted(rest - uns), h["span"])
    for pr in sorted(got_pairs & want_pairs):
        b_, lx = built.get(pr, set()), lexed.get(pr, set())
        d = "builds %s with %s" % (sorted(b_), sorted(lx))
        if pr[1] == "In":
            ok = b_ == {"InList", "OneOf"} and any("RhsValues" in x for x in lx) and any("ListName" in x for x in lx)
        elif pr[1] == "Ordering":
            ok = b_ == {"Ordering"} and any(x.endswith("types::RhsValue") for x in lx)
        elif pr[1] == "Int":
            ok = b_ == {"Int"} and "i64" in lx
        else:
            ok = b_ == {"Contains", "Matches", "Wildcard", "StrictWildcard"}
        R.check(ok, rule, LEX_LHS, "arm (%s, %s) builds the operator node from a literal of the right kind" % pr, d, h["span"])
    for ok, sp_ in lhs_ty_ok:
        R.check(ok, rule, LEX_LHS, "literal lexed with the left-hand side's type", where=sp_)
    R.floor(rule, "right-hand side literals lexed with a type", len(lhs_ty_ok), 2)
    want_inner = {"Contains": ("Contains", "BytesExpr"), "Matches": ("Matches", "Regex"),
                  "Wildcard": ("Wildcard", "Wildcard<false>"), "StrictWildcard": ("StrictWildcard", "Wildcard<true>")}
    for op, (node, lit) in want_inner.items():
        gb, gl = built_b.get(op), lexed_b.get(op, set())
        ok = gb == {node} and any(x.endswith(lit) for x in gl)
        R.check(ok, rule, LEX_LHS, "bytes operator %s -> %s(%s literal)" % (op, node, lit), "extracted %s with %s" % (gb, sorted(gl)), h["span"])
    # IsTrue branches: built only for Bool / containers of Bool, and [*] over containers of Bool containers rejected
    ist = [s for s in S.sites() if _ctor_site_variant(s.node, "ComparisonOpExpr") == "IsTrue"]
    bool_branch = vec_branch = mapeach_rejected = False
    for s in ist:
        for a, pol in sem.is_literals(s.pc):
            if not pol:
                continue
            alts = {x[0] for x in a.alts}
            if len(a.scruts) == 1 and pT(a.scruts[0]) and alts == {"Type::Bool"}:
                bool_branch = True
            if len(a.scruts) == 1 and alts == {"Option::Some(Type::Bool)"} and sem.is_method(a.scruts[0].node, "next") is not None:
                vec_branch = True
                for f in sem.refuted(s.pc):
                    for op, l, r, fr, c in sem.weak_cmps(((f, True),)):
                        if (op, lit_value(l)) in (("Lt", 0), ("Le", 1)) and sem.is_method(r, "map_each_count") is not None:
                            mapeach_rejected = True
                        if op == "Ne" and lit_value(r) == 0 and sem.is_method(l, "map_each_count") is not None:
                            mapeach_rejected = True
    R.check(bool_branch, rule, LEX_LHS, "a Bool left side takes no operator (IsTrue)", where=h["span"])
    R.check(vec_branch, rule, LEX_LHS, "a container of Bool takes no operator (IsTrue)", where=h["span"])
    R.check(mapeach_rejected, rule, LEX_LHS, "[*] on a container of Bool containers is rejected", where=h["span"])


def _is_atoms_anywhere(pc):
    """`is` atoms occurring anywhere in a path condition (also under disjunctions), with polarity None"""
    out = []

    def go(f):
        if f[0] == "atom":
            if f[1].kind == "is":
                out.append((f[1], None))
        elif f[0] == "not":
            go(f[1])
        elif f[0] in ("and", "or"):
            for g in f[1]:
                go(g)
    for f, _ in pc:
        go(f)
    return out


def cast_variant(E, hb):
    """LhsValue variant(s) a compare body assumes for its value: for every explicit panic site (also in private helpers
    of the same file) whose path condition restricts an LhsValue, the variants under which it does NOT panic"""
    S = sem.Sem(E, hb)
    U = sem.enum_universe(E, "types::LhsValue")

    def pv(v):
        return norm(v.node.get("ty", "")).replace("&", "").replace("mut ", "").strip() == "types::LhsValue"
    out = []
    for s in S.sites():
        n = s.node
        if n.get("k") == "Call" and norm(n.get("callee", "")).startswith("core::panicking"):
            adm = sem.admitted_tuples(s.pc, [pv], [U])
            if len(adm) < len(U):
                out.append(tuple(sorted(last_seg(u) for u in U if (u,) not in adm)))
    return out


def rule_cast(E, R):
    rule = "R04-cast"
    impls = [i for i in E.impls if i.get("trait") == "ast::index_expr::Compare"]
    R.floor(rule, "Compare implementations", len(impls), 16)
    # expected cast for impls nested in compile_with_compiler: from the enclosing arm
    h = E.hir(CMP_COMPILE)
    nested_expect = {}
    if h:
        for n, st in sem.sem_walk(E, h):
            if n.get("k") == "SItem" and n.get("ik") == "Impl" and n.get("trait", "").endswith("Compare"):
                rv = arm_variants(st, "RhsValue") or arm_variants(st, "RhsValues")
                cmp_ = arm_variants(st, "ComparisonOpExpr")
                exp = None
                if rv and len(rv) == 1:
                    exp = rv[0]
                elif cmp_:
                    exp = {"IsTrue": "Bool", "Int": "Int", "Contains": "Bytes", "InList": None}.get(cmp_[0], "?")
                for it in n["items"]:
                    nested_expect[it["dp"]] = (exp, cmp_, rv)
    else:
        R.cannot(rule, CMP_COMPILE, "anchor not found")
    top_expect = {"rhs_types::wildcard::Wildcard<STRICT>": "Bytes", "rhs_types::regex::imp_real::Regex": "Bytes",
                  "rhs_types::regex::Regex": "Bytes", "searcher::EmptySearcher": None, "searcher::MemmemSearcher": "Bytes",
                  "sliceslice::MemchrSearcher": "Bytes"}
    for imp in impls:
        for it in imp["items"]:
            if it["name"] != "compare":
                continue
            hb = E.hir_by_dp.get(it["dp"])
            if not hb or "body" not in hb:
                R.cannot(rule, norm(it["path"]), "no body")
                continue
            casts = cast_variant(E, hb)
            fn = norm(it["path"])
            if it["dp"] in nested_expect:
                exp, cmp_, rv = nested_expect[it["dp"]]
                ctx = "%s%s" % ("/".join(cmp_ or []), ("[" + "/".join(rv) + "]") if rv else "")
            else:
                key = norm(imp["self_ty"])
                exp = top_expect.get(key, "?")
                ctx = key
            if exp == "?":
                R.undecided(rule, fn, "unreviewed Compare impl", "casts %s" % casts, hb["span"])
                continue
            if exp is None:
                R.check(casts == [], rule, fn, "%s: compares without assuming a value variant" % ctx, "casts %s" % casts, hb["span"])
            else:
                R.check(casts == [(exp,)], rule, fn, "%s: value cast to LhsValue::%s, as admitted by the parser" % (ctx, exp),
                        "casts %s" % casts, hb["span"])
    # RhsValue::lex_with(ty) produces variant ty (macro table)
    for enum in ("RhsValue", "RhsValues"):
        fn = "<types::%s as lex::LexWith<types::Type>>::lex_with" % enum
        hl = E.hir(fn)
        if not hl:
            R.cannot(rule, fn, "anchor not found")
            continue
        tbl = {}
        for m in find_matches(hl["body"], r"^types::Type$"):
            for a in m["arms"]:
                for v in pat_variants(a["pat"]):
                    tbl[last_seg(v)] = built_variants(a["body"], enum)
        ok = len(tbl) == 6 and all(tbl[k] == {k} for k in tbl)
        R.check(ok, rule, fn, "a literal lexed for type T is the %s::T variant" % enum, str({k: sorted(v) for k, v in tbl.items()}), hl["span"])


def _pair_tables(E, h, accept_pred, reject_pred, container_re):
    """(accepted pairs from the accepting sites, accepted pairs as the complement of the rejecting sites, #accept, #reject)
    pairs are (container variant, index kind) by last segment"""
    S = sem.Sem(E, h)
    UA = sem.enum_universe(E, "types::Type") if "Type" in container_re else sem.enum_universe(E, "types::LhsValue")
    UB = sem.enum_universe(E, "scheme::FieldIndex")
    rx = re.compile(container_re)

    def pa(v):
        return bool(rx.search(norm(v.node.get("ty", "")).replace("&", "").replace("mut ", "")))

    def pb(v):
        return norm(v.node.get("ty", "")).replace("&", "").replace("mut ", "").strip() == "scheme::FieldIndex"
    acc, rej = None, None
    na = nr = 0
    for s in S.sites():
        if accept_pred(S, s):
            na += 1
            acc = (acc or set()) | sem.admitted_tuples(s.pc, [pa, pb], [UA, UB])
        if reject_pred(S, s):
            nr += 1
            rej = (rej or set()) | sem.admitted_tuples(s.pc, [pa, pb], [UA, UB])
    import itertools
    comp = (set(itertools.product(UA, UB)) - rej) if rej is not None else None
    short = lambda t: None if t is None else {(last_seg(x), last_seg(y)) for x, y in t}
    return short(acc), short(comp), na, nr


def rule_index(E, R):
    rule = "R04-index"
    ALL = {("Array", "ArrayIndex"), ("Map", "MapKey"), ("Array", "MapEach"), ("Map", "MapEach")}
    DIRECT = {("Array", "ArrayIndex"), ("Map", "MapKey")}

    def is_err_struct(S, s):
        return s.node.get("k") == "Struct" and norm(s.node["res"].get("path", "")).endswith("scheme::IndexAccessError")

    def is_panic(S, s):
        return s.node.get("k") == "Call" and norm(s.node.get("callee", "")).startswith("core::panicking")

    def is_reject(S, s):
        return is_err_struct(S, s) or is_panic(S, s)

    def push_index(S, s):
        n = s.node
        return n.get("k") == "MethodCall" and n["m"] == "push" and "Vec<scheme::FieldIndex>" in norm(strip(n["recv"]).get("ty", ""))

    def ok_leaf_pred(h):
        def pred(S, s, cache={}):
            if "l" not in cache:
                cache["l"] = {id(x.node) for x in S.result_leaves()
                              if x.node.get("k") == "Call" and norm(x.node.get("callee", "")) == "core::result::Result::Ok"}
            return id(s.node) in cache["l"]
        return pred

    specs = [
        ("<ast::index_expr::IndexExpr as lex::LexWith<&ast::parse::FilterParser>>::lex_with", ALL, push_index, is_reject, r"^types::Type$"),
        ("<ast::index_expr::IndexExpr as types::GetType>::get_type", ALL, lambda S, s: False, is_reject, r"^types::Type$"),
        ("types::LhsValue::get", DIRECT, None, is_reject, r"^types::LhsValue$"),
        ("types::LhsValue::extract", DIRECT, None, is_reject, r"^types::LhsValue$"),
        ("ast::index_expr::FieldIndexIterator::new", ALL, None, is_reject, r"^types::LhsValue$"),
    ]
    n = 0
    for fn, want, acc_pred, rej_pred, cre in specs:
        h = E.hir(fn)
        if not h:
            R.cannot(rule, fn, "anchor not found")
            continue
        acc, comp, na, nr = _pair_tables(E, h, acc_pred or ok_leaf_pred(h), rej_pred, cre)
        if acc is None and comp is None:
            R.cannot(rule, fn, "neither an accepting nor a rejecting site was found")
            continue
        n += 1
        got = acc if acc is not None else comp
        ok = (acc is None or acc == want) and (comp is None or comp == want)
        R.check(ok, rule, fn, "accepted (container, index kind) pairs",
                "accepting sites (%d) admit %s; rejecting sites (%d) leave %s; expected %s" % (
                    na, sorted(acc) if acc is not None else "-", nr, sorted(comp) if comp is not None else "-", sorted(want)), h["span"])
    R.floor(rule, "index tables extracted", n, 5)


def _get_type_recv(S, v):
    """if the value is `X.get_type()` (after resolving locals) return (X node, frame)"""
    rv = S.resolve(v.node, v.frame)
    r = sem.is_method(rv.node, "get_type")
    return (r, rv.frame) if r is not None else None


def _admitted(S, pc, pred):
    return sem.admits(pc, pred, None)


def rule_guards(E, R):
    rule = "R04-guards"
    # ---- root of a filter must be Bool
    fn = "<ast::FilterAst as lex::LexWith<&ast::parse::FilterParser>>::lex_with"
    h = E.hir(fn)
    if h:
        S = sem.Sem(E, h)
        sites = [s for s in S.sites() if s.node.get("k") == "Struct" and norm(s.node["res"].get("path", "")).endswith("ast::FilterAst")]
        R.check(len(sites) >= 1, rule, fn, "FilterAst construction site found", where=h["span"])
        for s in sites:
            opf = [f["e"] for f in s.node["fields"] if f["name"] == "op"]

            def is_root_type(v, s=s, opf=opf):
                g = _get_type_recv(S, v)
                return bool(g and opf and S.same(g[0], g[1], opf[0], s.frame))
            adm = sem.admits(s.pc, lambda v: _get_type_recv(S, v) is not None, None)
            R.check(adm == {"Type::Bool"}, rule, fn, "a FilterAst is built only when the root type is Bool",
                    "the construction is reached with the root type restricted to %s" % (sorted(adm) if adm else "nothing"), s.node["sp"])
            adm2 = sem.admits(s.pc, is_root_type, None)
            R.check(adm2 == {"Type::Bool"}, rule, fn, "the checked type is the root expression's static type",
                    "the Bool test is not on get_type() of the expression stored in FilterAst.op", s.node["sp"])
    else:
        R.cannot(rule, fn, "anchor not found")
    # ---- a value expression must not contain [*]
    fn = "<ast::FilterValueAst as lex::LexWith<&ast::parse::FilterParser>>::lex_with"
    h = E.hir(fn)
    if h:
        S = sem.Sem(E, h)
        sites = [s for s in S.sites() if s.node.get("k") == "Struct" and norm(s.node["res"].get("path", "")).endswith("ast::FilterValueAst")]
        R.check(len(sites) >= 1, rule, fn, "FilterValueAst construction site found", where=h["span"])
        for s in sites:
            opf = [f["e"] for f in s.node["fields"] if f["name"] == "op"]
            ok = False
            for op, l, r, fr, certain in sem.weak_cmps(s.pc):
                if not certain:
                    continue
                for cnt, lit, o in ((l, r, op), (r, l, {"Lt": "Gt", "Le": "Ge"}.get(op, op))):
                    recv = sem.is_method(cnt, "map_each_count")
                    v = lit_value(lit)
                    if recv is None or not isinstance(v, int):
                        continue
                    zero = (o, v) in (("Le", 0), ("Eq", 0), ("Lt", 1))
                    if zero and opf and S.same(recv, fr, opf[0], s.frame):
                        ok = True
            R.check(ok, rule, fn, "a value expression containing [*] is rejected",
                    "FilterValueAst must be built only where op.map_each_count() is known to be 0", s.node["sp"])
    else:
        R.cannot(rule, fn, "anchor not found")
    # ---- quantifier argument
    fn = "<ast::logical_expr::QuantifierArgExpr as lex::LexWith<&ast::parse::FilterParser>>::lex_with"
    h = E.hir(fn)
    if h:
        S = sem.Sem(E, h)
        oks = [s for s in S.result_leaves() if s.node.get("k") == "Call" and norm(s.node.get("callee", "")) == "core::result::Result::Ok"]
        R.check(len(oks) >= 1, rule, fn, "accepting return found", where=h["span"])
        for s in oks:
            adm = sem.admits(s.pc, lambda v: _get_type_recv(S, v) is not None, None)
            R.check(adm == {"Type::Array(Type::Bool)"}, rule, fn, "quantifier argument accepted only when its type is Array(Bool)",
                    "accepted with the argument type restricted to %s" % (sorted(adm) if adm else "nothing"), s.node["sp"])
            kinds = sem.admits(s.pc, lambda v: "FunctionCallArgExpr" in norm(v.node.get("ty", "")), None)
            R.check(kinds is not None and "FunctionCallArgExpr::Literal" not in kinds, rule, fn, "a literal quantifier argument is rejected",
                    "accepted argument kinds: %s" % (sorted(kinds) if kinds else "unrestricted"), s.node["sp"])
        hb = E.hir("ast::logical_expr::bool_array_type")
        if hb:
            R.check(sem.expr_variant_repr(fn_result(hb)) == "Type::Array(Type::Bool)", rule, "ast::logical_expr::bool_array_type",
                    "bool_array_type() is Array(Bool)")
    else:
        R.cannot(rule, fn, "anchor not found")
    # ---- logical operands
    fn = "ast::logical_expr::LogicalExpr::lex_more_with_precedence"
    h = E.hir(fn)
    if h:
        S = sem.Sem(E, h)
        sites = []
        for s in S.sites():
            n = s.node
            if n.get("k") == "Struct" and norm(n["res"].get("path", "")).endswith("LogicalExpr::Combining"):
                sites.append(s)
            elif n.get("k") == "MethodCall" and n["m"] in ("push", "extend", "insert") and \
                    "LogicalExpr" in norm(strip(n["recv"]).get("ty", "")) and "Vec<" in norm(strip(n["recv"]).get("ty", "")):
                sites.append(s)
        R.check(len(sites) >= 2, rule, fn, "Combining construction sites found", "found %d" % len(sites), h["span"])
        for s in sites:
            best = None
            for a, pol in sem.is_literals(s.pc):
                if not pol or len(a.scruts) != 2:
                    continue
                if all(_get_type_recv(S, v) is not None for v in a.scruts):
                    best = a
            alts = {tuple(sem.variant_head(x) for x in alt) for alt in best.alts} if best else None
            R.check(alts == {("Type::Bool", "Type::Bool"), ("Type::Array", "Type::Array")}, rule, fn,
                    "Combining built/extended only after the (Bool,Bool)|(Array,Array) operand check",
                    "operand types restricted to %s" % (sorted(alts) if alts else "nothing"), s.node.get("sp", h["span"]))
            # the two checked types are those of the two operands that are combined
            good = False
            if best:
                roots = [sem.root_local(S, *_get_type_recv(S, v)) for v in best.scruts]
                used = {id(b) for b in sem.locals_in(S, s.node, s.frame)}
                good = all(b is not None for b in roots) and roots[0] is not roots[1] and any(id(b) in used for b in roots)
            R.check(good, rule, fn, "the checked types are the static types of both operands", where=s.node.get("sp", h["span"]))
    else:
        R.cannot(rule, fn, "anchor not found")
    # ---- function call arguments
    fn = "ast::function_expr::FunctionCallExpr::lex_with_function"
    h = E.hir(fn)
    if not h:
        return R.cannot(rule, fn, "anchor not found")
    S = sem.Sem(E, h)
    # the vector handed to FunctionCallExpr::new
    news = [s for s in S.sites() if s.node.get("k") == "Call" and norm(s.node.get("callee", "")) == "ast::function_expr::FunctionCallExpr::new"]
    argvec = sem.root_local(S, news[0].node["args"][1], news[0].frame) if news and len(news[0].node["args"]) >= 2 else None
    pushes = [s for s in S.sites() if s.node.get("k") == "MethodCall" and s.node["m"] == "push" and argvec is not None and
              sem.root_local(S, s.node["recv"], s.frame) is argvec]
    R.floor(rule, "pushes onto the accepted-arguments vector", len(pushes), 1)

    def from_arg_count(b, i):
        return sem.bind_from_call(b, r"FunctionDefinition::arg_count$|::arg_count$", (("t", i),))

    for s in pushes:
        cmps = sem.weak_cmps(s.pc)
        # (1) [*] only in the first argument: on this path `map_each_count() > 0 && index != 0` is false
        mapeach = False
        for f in sem.refuted(s.pc):
            sub = [x for x in sem.weak_cmps(((f, True),))]
            me = [1 for op, l, r, fr, c in sub if (op == "Lt" and lit_value(l) == 0 and sem.is_method(r, "map_each_count") is not None) or
                  (op == "Ne" and lit_value(r) == 0 and sem.is_method(l, "map_each_count") is not None)]
            first = [1 for op, l, r, fr, c in sub if op == "Ne" and ((lit_value(r) == 0 and _is_counter(S, l, fr, argvec)) or
                                                                    (lit_value(l) == 0 and _is_counter(S, r, fr, argvec)))]
            first += [1 for op, l, r, fr, c in sub if op == "Lt" and lit_value(l) == 0 and _is_counter(S, r, fr, argvec)]
            if me and first:
                mapeach = True
        R.check(mapeach, rule, fn, "[*] accepted in the first argument only",
                "no early exit on `map_each_count() > 0 && <argument position> != 0` precedes the push", s.node["sp"])
        # (2) upper arity bound: on this path `position >= mandatory + optional` is false (when optional is Some)
        arity = None
        for op, l, r, fr, c in cmps:
            bl = sem.locals_in(S, l, fr) + _closure_recv_binds(S, l, fr)
            br = sem.locals_in(S, r, fr) + _closure_recv_binds(S, r, fr)
            if any(from_arg_count(b, 0) for b in br) and _is_counter(S, l, fr, argvec) and \
                    (any(from_arg_count(b, 1) for b in br) or _mentions_optional(S, s.pc, from_arg_count)):
                adds = [x for x in exprs(r, "Binary") if x["op"] == "Add"]
                if adds:
                    arity = op
        R.check(arity == "Lt", rule, fn, "argument count bounded by mandatory + optional before the push",
                "on the path to the push the position must be < mandatory + optional; found %s" % (arity or "no such comparison"), s.node["sp"])
        # (3) check_param's verdict propagated before the argument is accepted
        checked = False
        for a, pol in sem.literals(s.pc)[0]:
            if a.kind == "ok" and pol:
                root, ch = chain(a.node)
                ms_ = [x["m"] for x in ch]
                # what is applied to check_param's result before `?` only converts the error
                if "check_param" in ms_ and all(m_ == "map_err" for m_ in ms_[ms_.index("check_param") + 1:]):
                    checked = True
        R.check(checked, rule, fn, "check_param's verdict is propagated (`?`) before the argument is accepted", where=s.node["sp"])
    # (4) lower arity bound before the accepting return
    for s in news:
        low = None
        for op, l, r, fr, c in sem.weak_cmps(s.pc):
            if not c:
                continue
            if any(from_arg_count(b, 0) for b in sem.locals_in(S, l, fr)) and _is_counter(S, r, fr, argvec):
                low = op
            elif any(from_arg_count(b, 0) for b in sem.locals_in(S, r, fr)) and _is_counter(S, l, fr, argvec):
                low = {"Lt": "Gt", "Le": "Ge"}.get(op, op)
        R.check(low == "Le", rule, fn, "fewer than the mandatory number of arguments is rejected",
                "the call node must be built only where mandatory <= number of arguments; found %s" % (low or "no such comparison"), s.node["sp"])
    R.floor(rule, "FunctionCallExpr::new sites", len(news), 1)
    # the parameter description handed to check_param is the argument's own static type / literal
    fp = "ast::function_expr::{impl core::convert::From<&ast::function_expr::FunctionCallArgExpr> for functions::FunctionParam}::from"
    hp = E.hir(fp)
    if hp:
        tbl = {}
        for m in find_matches(hp["body"], r"FunctionCallArgExpr"):
            for a in m["arms"]:
                for v in pat_variants(a["pat"]):
                    tbl[last_seg(v)] = sorted(built_variants(a["body"], "FunctionParam"))
        R.check(tbl == {"IndexExpr": ["Variable"], "Logical": ["Variable"], "Literal": ["Constant"]}, rule, fp,
                "argument kind table: expressions are variables, literals are constants", str(tbl), hp["span"])
    else:
        R.cannot(rule, fp, "anchor not found")


def _is_counter(S, n, frame, argvec):
    """n counts the arguments accepted so far: `<argvec>.len()` or a mutable local that starts at 0 and is incremented by 1"""
    n = sem.peel(n)
    recv = sem.is_method(n, "len")
    if recv is not None:
        return argvec is not None and sem.root_local(S, recv, frame) is argvec
    b = S.lookup(n, frame)
    if b is None:
        return False
    if b.expr is not None and lit_value(b.expr) == 0 and b.mutable:
        for a in exprs(frame.h["body"], "AssignOp"):
            if a["op"] in ("Add", "AddAssign") and S.lookup(a["l"], frame) is b and lit_value(a["r"]) == 1:
                return True
    if b.expr is not None and not b.assigns:
        return _is_counter(S, b.expr, b.frame, argvec)
    return False


def _closure_recv_binds(S, n, frame):
    """for a closure parameter used in n: the bindings of the receiver of the method call the closure is passed to
    (`opt.is_some_and(|o| .. o ..)`: o stands for the content of opt)"""
    out = []
    for p in exprs(n, "Path"):
        b = S.lookup(p, frame)
        if b is not None and b.kind == "closure-param":
            for mc in exprs(frame.h["body"], "MethodCall"):
                if any(closure_of(a) is b.owner for a in mc["args"]):
                    out += sem.locals_in(S, mc["recv"], frame)
    return out


def _mentions_optional(S, pc, from_arg_count):
    for f, pol in pc:
        for a, _ in sem.literals(((f, True),))[0] + sem.literals(((f, False),))[0]:
            for nd in ([a.node] if a.node is not None else []) + [v.node for v in (a.scruts or [])]:
                if any(from_arg_count(b, 1) for b in sem.locals_in(S, nd, a.frame)):
                    return True
    return False


LOGICAL_TYPES = ("ast::logical_expr::LogicalExpr", "ast::field_expr::ComparisonExpr", "ast::logical_expr::ParenthesizedExpr")


def rule_kind(E, R):
    rule = "R04-kind"
    n = 0
    for ty in ("ast::logical_expr::LogicalExpr", "ast::field_expr::ComparisonExpr"):
        fn = "<%s as types::GetType>::get_type" % ty
        h = E.hir(fn)
        if not h:
            R.cannot(rule, fn, "anchor not found")
            continue
        for leaf, _ in C20.return_leaves(h["body"]):
            l = strip(leaf)
            n += 1
            d = def_path(l)
            if d == "types::Type::Bool":
                R.ok(rule, fn, "returns Bool", where=l.get("sp", ""))
                continue
            if l.get("k") == "Call" and norm(l.get("callee", "")) == "types::Type::Array" and \
                    any(def_path(p) == "types::Type::Bool" for p in exprs(l, "Path")):
                R.ok(rule, fn, "returns Array(Bool)", where=l.get("sp", ""))
                continue
            if l.get("k") == "MethodCall" and l["m"] == "get_type":
                rt = norm(strip(l["recv"]).get("ty", "")).lstrip("&")
                rt = rt.replace("alloc::boxed::Box<", "").rstrip(">") if rt.startswith("alloc::boxed::Box<") else rt
                if rt in LOGICAL_TYPES:
                    R.ok(rule, fn, "returns the type of a logical sub-node", where=l.get("sp", ""))
                    continue
                root = strip(l["recv"])
                what = ("self." + root["name"]) if root.get("k") == "Field" else (local_name(root) or "?")
                R.violation(rule, fn, "returns the type of value node %s" % what,
                            "a logical node compiles to One (Bool) or Vec (Array(Bool)); here its static type is the type of "
                            "a *value* node (%s), e.g. Map(Bool) for a bare map-of-bool field: `f(not mb)` type-checks "
                            "against f(Map(Bool)) but f receives an Array(Bool)" % rt, l.get("sp", ""))
                continue
            R.undecided(rule, fn, "unrecognised static type expression", l.get("k", "?"), l.get("sp", ""))
    R.floor(rule, "static-type leaves of logical nodes", n, 6)


def run(F, R, tier):
    E = F.engine
    rule_admit(E, R)
    rule_cast(E, R)
    rule_index(E, R)
    rule_guards(E, R)
    rule_kind(E, R)
    rule_panic(E, R)
    R.not_decided += ["exact acceptance for arbitrary compositions of the rules",
                      "panic-freedom of every accepted program is decided only up to the reviewed list of 43 explicit panic sites (each tied to a parser/store invariant); implicit panics (bounds, arithmetic) are not examined",
                      "user-supplied check_param implementations"]


# ----------------------------------------------------------------------------------------------
# R04-panic: second sentence of the property — explicit panic sites reachable from compile/execute are reviewed

def rule_panic(E, R):
    import json as _json
    import os as _os
    rule = "R04-panic"
    spec = _os.path.join(_os.path.dirname(_os.path.dirname(_os.path.abspath(__file__))), "spec", "exec_panics.json")
    with open(spec) as f:
        allowed = {(canon_fn(E, a["function"]), a["kind"]): a for a in _json.load(f)["allowed"]}
    insts = {i["id"]: i for i in E.mono["instances"]}
    name = {i: norm(v["path"]) for i, v in insts.items()}
    roots = [i for i in insts if name[i] in ("ast::FilterAst::compile", "ast::FilterValueAst::compile",
                                             "filter::Filter::execute", "filter::FilterValue::execute") and "mir" in insts[i]]
    R.floor(rule, "compile/execute entry instances", len(roots), 4)
    seen = set()
    st = list(roots)
    while st:
        x = st.pop()
        if x in seen:
            continue
        seen.add(x)
        for e in insts[x].get("edges", []):
            if "to" in e and e["kind"] in ("call", "closure", "fnref"):
                st.append(e["to"])
    sites = {}
    for i in seen:
        v = insts[i]
        if "mir" not in v:
            continue
        for k, w, c in panic_sites(v["mir"]):
            sites.setdefault((canon_fn(E, name[i]), k), set()).add(w)
    R.analysed["instances_reachable_from_compile_execute"] = len(seen)
    R.floor(rule, "explicit panic sites reachable from compile/execute", len(sites), 30)
    if os.environ.get("VERIF_DUMP_PANIC_COUNTS"):
        print("PANIC-COUNTS exec_panics " + _json.dumps({"%s|%s" % k_: len(v_) for k_, v_ in sites.items()}))
    verdicts = judge_panic_sites(E, allowed, sites)
    for (fn, k), w in sorted(sites.items()):
        label = "%s site" % k
        st_, why_ = verdicts[(fn, k)]
        if st_ == "ok":
            R.ok(rule, fn, label + " (reviewed)", allowed[(fn, k)]["reason"], sorted(w)[0])
        elif st_ == "moved":
            R.ok(rule, fn, label + " (moved)", why_, sorted(w)[0])
        elif st_ == "grown":
            R.violation(rule, fn, label + " (more than reviewed)",
                        "%s: a new explicit panic appeared in a function whose panic sites were reviewed one by one "
                        "(spec/exec_panics.json)" % why_, sorted(w)[-1])
        else:
            R.violation(rule, fn, label,
                        "an explicit panic is reachable from compile()/execute() and is not in the reviewed list (spec/exec_panics.json): "
                        "an accepted filter must compile and run without panicking", sorted(w)[0])
    # guard of one reviewed entry: ContainsOneOf is never constructed by non-test code
    built = []
    derived = {it["dp"] for imp in E.impls if imp["derived"] for it in imp["items"]}
    for hb in E.hir_list:
        if "body" not in hb or "::tests::" in norm(hb["path"]) or hb["dp"] in derived or any(hb["dp"].startswith(d + "::") for d in derived):
            continue
        if "ContainsOneOf" in built_variants(hb["body"], "ComparisonOpExpr"):
            # pattern matches are not constructions: built_variants only looks at expressions
            built.append(norm(hb["path"]))
    R.check(not built, rule, "ast::field_expr::ComparisonOpExpr::ContainsOneOf", "never constructed (its compile arm is an unreachable!)", str(built))
