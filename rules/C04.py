"""C04 — parsing accepts exactly the well-typed filters; accepted ones never fail later."""
from lib import *
import C20

LEVEL = "other"
EXPLANATION = ("Static rules: the (left type x operator) admissibility matrix and the literal lexer chosen per arm are "
               "extracted from the comparison parser and compared with the documented matrix; every Compare "
               "implementation casts the run-time value to the variant the parser admitted for its operator "
               "(parser<->compiler agreement); the (container, index kind) tables of the parser, of static typing and "
               "of the three run-time accessors are the same table; each documented typing check sits on the only "
               "path to the corresponding Ok/AST construction; the static type of every logical node is Bool or "
               "Array(Bool) (what its compiled form yields). Exact acceptance of arbitrary compositions and "
               "panic-freedom of all accepted programs are not decided.")

LEX_LHS = "ast::field_expr::ComparisonExpr::lex_with_lhs"
CMP_COMPILE = "<ast::field_expr::ComparisonExpr as ast::Expr>::compile_with_compiler"


def tuple_pairs(p):
    """[(variant0, variant1)] of an (or-)pattern of 2-tuples of variant patterns"""
    ps = p["pats"] if p.get("k") == "POr" else [p]
    out = []
    for q in ps:
        if q.get("k") == "PTuple" and len(q["pats"]) == 2:
            a, b = pat_variant(q["pats"][0]), pat_variant(q["pats"][1])
            out.append((last_seg(a) if a else "_", last_seg(b) if b else "_"))
        else:
            return None
    return out


def built_variants(n, enum_suffix):
    """last segments of `Enum::Variant` constructed (struct literal, tuple ctor call or unit path) inside n"""
    out = set()
    for x in exprs(n, ("Struct", "Call", "Path")):
        if x["k"] == "Struct":
            d = norm(x["res"].get("path", ""))
        elif x["k"] == "Call":
            d = norm(x.get("callee", "")) if x.get("callee_kind", "").startswith("Ctor") else ""
        else:
            r = x["res"]
            d = norm(r.get("path", "")) if r.get("r") == "def" and str(r.get("dk", "")).startswith("Ctor") else ""
        if ("::" + enum_suffix + "::") in ("::" + d):
            out.add(last_seg(d))
    return out


def lexers_called(n):
    out = set()
    for c in exprs(n, ("Call", "MethodCall")):
        cal = norm(c.get("resolved") or c.get("callee") or "")
        cal0 = norm(c.get("callee") or "")
        if cal0.endswith("lex::Lex::lex") or cal0.endswith("::lex_with") or cal0.endswith("LexWith::lex_with"):
            # name by the type lexed
            t = c.get("ty", "")
            m = re.search(r"Result<\((.*?), &str\)", norm(t))
            out.add(m.group(1) if m else cal)
    return out


def rule_admit(E, R):
    rule = "R04-admit"
    h = E.hir(LEX_LHS)
    if not h:
        return R.cannot(rule, LEX_LHS, "anchor not found")
    body = h["body"]
    table = {}
    wild_err = False
    target = None
    for m in find_matches(body):
        if m["scrut"].get("ty", "").startswith("(&types::Type, ast::field_expr::ComparisonOp)"):
            target = m
    if target is None:
        return R.cannot(rule, LEX_LHS, "the (lhs type, operator) match was not found")
    for a in target["arms"]:
        pairs = tuple_pairs(a["pat"])
        if pairs is None:
            if a["pat"].get("k") == "PWild":
                errs = explicit_err_returns(a["body"])
                wild_err = bool(errs) and any("UnsupportedOp" in str(built_variants(r, "LexErrorKind")) for r in errs)
            continue
        built = built_variants(a["body"], "ComparisonOpExpr")
        lx = lexers_called(a["body"])
        for pr in pairs:
            table[pr] = (frozenset(built), frozenset(lx))
    want_pairs = {("Ip", "In"), ("Bytes", "In"), ("Int", "In"), ("Ip", "Ordering"), ("Bytes", "Ordering"), ("Int", "Ordering"),
                  ("Int", "Int"), ("Bytes", "Bytes")}
    got_pairs = set(table)
    R.check(got_pairs == want_pairs, rule, LEX_LHS, "admitted (left type, operator) pairs equal the documented matrix",
            "extra %s missing %s" % (sorted(got_pairs - want_pairs), sorted(want_pairs - got_pairs)), target["sp"])
    R.check(wild_err, rule, LEX_LHS, "every other pair is rejected with UnsupportedOp", where=target["sp"])
    for pr in sorted(got_pairs & want_pairs):
        built, lx = table[pr]
        if pr[1] == "In":
            ok = built == {"InList", "OneOf"} and any("RhsValues" in x for x in lx) and any("ListName" in x for x in lx)
            d = "builds %s with %s" % (sorted(built), sorted(lx))
        elif pr[1] == "Ordering":
            ok = built == {"Ordering"} and any(x.endswith("types::RhsValue") for x in lx)
            d = "builds %s with %s" % (sorted(built), sorted(lx))
        elif pr[1] == "Int":
            ok = built == {"Int"} and "i64" in lx
            d = "builds %s with %s" % (sorted(built), sorted(lx))
        else:
            ok = built == {"Contains", "Matches", "Wildcard", "StrictWildcard"}
            d = "builds %s" % sorted(built)
        R.check(ok, rule, LEX_LHS, "arm (%s, %s) builds the operator node from a literal of the right kind" % pr, d, target["sp"])
    # the In / Ordering literals are lexed with the *lhs type*
    for c in exprs(target, ("Call", "MethodCall")):
        cal = norm(c.get("callee", ""))
        if cal.endswith("LexWith::lex_with") and ("RhsValue" in c.get("ty", "")):
            args = call_args(c)
            R.check(local_name(args[-1]) == "lhs_type", rule, LEX_LHS, "literal lexed with the left-hand side's type",
                    where=c["sp"])
    # bytes operators: inner table
    inner = {}
    for m in find_matches(target, r"BytesOp$"):
        for a in m["arms"]:
            for v in pat_variants(a["pat"]):
                inner[last_seg(v)] = (frozenset(built_variants(a["body"], "ComparisonOpExpr")), frozenset(lexers_called(a["body"])))
    want_inner = {"Contains": ("Contains", "BytesExpr"), "Matches": ("Matches", "Regex"),
                  "Wildcard": ("Wildcard", "Wildcard<false>"), "StrictWildcard": ("StrictWildcard", "Wildcard<true>")}
    for op, (node, lit) in want_inner.items():
        got = inner.get(op)
        ok = got is not None and got[0] == {node} and any(x.endswith(lit) for x in got[1])
        R.check(ok, rule, LEX_LHS, "bytes operator %s -> %s(%s literal)" % (op, node, lit), "extracted %s" % (got,), target["sp"])
    # IsTrue branches
    ifs = [i for i in exprs(body, "If", into_closures=False)]
    bool_branch = vec_branch = mapeach_rejected = False
    for i in ifs:
        c = strip(i["cond"])
        if c.get("k") == "Binary" and c["op"] == "Eq":
            l, r = c["l"], c["r"]
            if local_name(l) == "lhs_type" and def_path(r) == "types::Type::Bool":
                bool_branch = built_variants(i["then"], "ComparisonOpExpr") == {"IsTrue"}
            lm = strip(l)
            if lm.get("k") == "MethodCall" and lm["m"] == "next" and local_name(lm["recv"]) == "lhs_type":
                rr = strip(r)
                if rr.get("k") == "Call" and norm(rr.get("callee", "")) == "core::option::Option::Some" and def_path(rr["args"][0]) == "types::Type::Bool":
                    vec_branch = "IsTrue" in built_variants(i["then"], "ComparisonOpExpr")
                    for j in exprs(i["then"], "If"):
                        cj = strip(j["cond"])
                        if cj.get("k") == "Binary" and cj["op"] == "Gt" and any(x["m"] == "map_each_count" for x in exprs(cj, "MethodCall")):
                            mapeach_rejected = bool(explicit_err_returns(j["then"]))
    R.check(bool_branch, rule, LEX_LHS, "a Bool left side takes no operator (IsTrue)", where=h["span"])
    R.check(vec_branch, rule, LEX_LHS, "a container of Bool takes no operator (IsTrue)", where=h["span"])
    R.check(mapeach_rejected, rule, LEX_LHS, "[*] on a container of Bool containers is rejected", where=h["span"])


def cast_variant(hbody):
    """LhsValue variant(s) a compare body casts its value to (match value { LhsValue::X(v) => v, _ => unreachable })"""
    out = []
    for m in find_matches(hbody, r"types::LhsValue"):
        named = []
        catch_all_panics = False
        for a in m["arms"]:
            vs = pat_variants(a["pat"])
            if vs:
                named += [last_seg(v) for v in vs if "LhsValue::" in v]
            else:
                catch_all_panics = any(norm(c.get("callee", "")).startswith("core::panicking") for c in exprs(a["body"], "Call")) or \
                    any(True for c in exprs(a["body"], "Call") if "unreachable" in norm(c.get("callee", "")))
        if named and catch_all_panics:
            out.append(tuple(sorted(named)))
    return out


def rule_cast(E, R):
    rule = "R04-cast"
    impls = [i for i in E.impls if i.get("trait") == "ast::index_expr::Compare"]
    R.floor(rule, "Compare implementations", len(impls), 16)
    # expected cast for impls nested in compile_with_compiler: from the enclosing arm
    h = E.hir(CMP_COMPILE)
    nested_expect = {}
    if h:
        for n, st in walk_arms(h["body"]):
            if n.get("k") == "SItem" and n.get("ik") == "Impl" and n.get("trait", "").endswith("Compare"):
                rv = arm_variants(st, "RhsValue") or arm_variants(st, "RhsValues")
                cmp_ = arm_variants(st, "ComparisonOpExpr")
                exp = None
                if rv and len(rv) == 1:
                    exp = rv[0]
                elif cmp_:
                    exp = {"IsTrue": "Bool", "Int": "Int", "Contains": "Bytes", "InList": None}.get(cmp_[0], "?")
                for it in n["items"]:
                    nested_expect[it["dp"]] = (exp, cmp_, rv)
    else:
        R.cannot(rule, CMP_COMPILE, "anchor not found")
    top_expect = {"rhs_types::wildcard::Wildcard<STRICT>": "Bytes", "rhs_types::regex::imp_real::Regex": "Bytes",
                  "rhs_types::regex::Regex": "Bytes", "searcher::EmptySearcher": None, "searcher::MemmemSearcher": "Bytes",
                  "sliceslice::MemchrSearcher": "Bytes"}
    for imp in impls:
        for it in imp["items"]:
            if it["name"] != "compare":
                continue
            hb = E.hir_by_dp.get(it["dp"])
            if not hb or "body" not in hb:
                R.cannot(rule, norm(it["path"]), "no body")
                continue
            casts = cast_variant(hb["body"])
            fn = norm(it["path"])
            if it["dp"] in nested_expect:
                exp, cmp_, rv = nested_expect[it["dp"]]
                ctx = "%s%s" % ("/".join(cmp_ or []), ("[" + "/".join(rv) + "]") if rv else "")
            else:
                key = norm(imp["self_ty"])
                exp = top_expect.get(key, "?")
                ctx = key
            if exp == "?":
                R.undecided(rule, fn, "unreviewed Compare impl", "casts %s" % casts, hb["span"])
                continue
            if exp is None:
                R.check(casts == [], rule, fn, "%s: compares without assuming a value variant" % ctx, "casts %s" % casts, hb["span"])
            else:
                R.check(casts == [(exp,)], rule, fn, "%s: value cast to LhsValue::%s, as admitted by the parser" % (ctx, exp),
                        "casts %s" % casts, hb["span"])
    # RhsValue::lex_with(ty) produces variant ty (macro table)
    for enum in ("RhsValue", "RhsValues"):
        fn = "<types::%s as lex::LexWith<types::Type>>::lex_with" % enum
        hl = E.hir(fn)
        if not hl:
            R.cannot(rule, fn, "anchor not found")
            continue
        tbl = {}
        for m in find_matches(hl["body"], r"^types::Type$"):
            for a in m["arms"]:
                for v in pat_variants(a["pat"]):
                    tbl[last_seg(v)] = built_variants(a["body"], enum)
        ok = len(tbl) == 6 and all(tbl[k] == {k} for k in tbl)
        R.check(ok, rule, fn, "a literal lexed for type T is the %s::T variant" % enum, str({k: sorted(v) for k, v in tbl.items()}), hl["span"])


def _nested_pairs(h, outer_re, inner_re, ok_pred):
    """{(inner variant, outer variant)} over `match outer { O => match inner { I => <ok> }}`"""
    got = set()
    for m in find_matches(h["body"], outer_re, into_closures=False):
        for a in m["arms"]:
            ov = [last_seg(v) for v in pat_variants(a["pat"])]
            if not ov:
                continue
            inner_found = False
            for mi in find_matches(a["body"], inner_re, into_closures=False):
                inner_found = True
                for ai in mi["arms"]:
                    for iv in pat_variants(ai["pat"]):
                        if ok_pred(ai["body"]):
                            for o in ov:
                                got.add((last_seg(iv), o))
            if not inner_found and ok_pred(a["body"]):
                for o in ov:
                    got.add(("*", o))
    return got


def rule_index(E, R):
    rule = "R04-index"
    ALL = {("Array", "ArrayIndex"), ("Map", "MapKey"), ("Array", "MapEach"), ("Map", "MapEach")}
    DIRECT = {("Array", "ArrayIndex"), ("Map", "MapKey")}

    def not_err(b):
        return not explicit_err_returns(b) and not (tail(b).get("k") == "Call" and norm(tail(b).get("callee", "")) == "core::result::Result::Err") \
            and not any(norm(c.get("callee", "")).startswith("core::panicking") for c in exprs(b, "Call"))
    # parser
    fn = "<ast::index_expr::IndexExpr as lex::LexWith<&ast::parse::FilterParser>>::lex_with"
    h = E.hir(fn)
    tables = {}
    if h:
        tables[fn] = _nested_pairs(h, r"^&?scheme::FieldIndex$", r"^types::Type$", not_err)
    else:
        R.cannot(rule, fn, "anchor not found")
    # static typing
    fn2 = "<ast::index_expr::IndexExpr as types::GetType>::get_type"
    h2 = E.hir(fn2)
    if h2:
        got = set()
        for m in find_matches(h2["body"]):
            for a in m["arms"]:
                prs = tuple_pairs(a["pat"])
                if prs and not_err(a["body"]):
                    got |= {p for p in prs if "_" not in p}
        tables[fn2] = got
    else:
        R.cannot(rule, fn2, "anchor not found")
    # run-time accessors
    fn3 = "types::LhsValue::get"
    h3 = E.hir(fn3)
    if h3:
        got = set()
        for m in find_matches(h3["body"]):
            for a in m["arms"]:
                prs = tuple_pairs(a["pat"])
                t = tail(a["body"])
                if prs and t.get("k") == "Call" and norm(t.get("callee", "")) == "core::result::Result::Ok":
                    got |= {p for p in prs if "_" not in p}
        tables[fn3] = got
    else:
        R.cannot(rule, fn3, "anchor not found")

    def is_ok(b):
        t = tail(b)
        return t.get("k") == "Call" and norm(t.get("callee", "")) == "core::result::Result::Ok"
    fn4 = "types::LhsValue::extract"
    h4 = E.hir(fn4)
    if h4:
        tables[fn4] = _nested_pairs(h4, r"^&?scheme::FieldIndex$", r"^&?types::LhsValue$", is_ok)
    else:
        R.cannot(rule, fn4, "anchor not found")
    fn5 = "ast::index_expr::FieldIndexIterator::new"
    h5 = E.hir(fn5)
    if h5:
        tables[fn5] = _nested_pairs(h5, r"^&?scheme::FieldIndex$", r"^&?types::LhsValue$", is_ok)
    else:
        R.cannot(rule, fn5, "anchor not found")
    want = {fn: ALL, fn2: ALL, fn3: DIRECT, fn4: DIRECT, fn5: ALL}
    for f, got in tables.items():
        R.check(got == want[f], rule, f, "accepted (container, index kind) pairs", "extracted %s expected %s" % (sorted(got), sorted(want[f])))
    R.floor(rule, "index tables extracted", len(tables), 5)


def _guarded_by_preceding_return(block_stmts, upto, cond_pred):
    """a statement before index `upto` is `if <cond_pred(cond)> { return Err(..) }`"""
    for st in block_stmts[:upto]:
        for i in exprs(st, "If", into_closures=False):
            if cond_pred(strip(i["cond"])) and explicit_err_returns(i["then"]):
                return True
    return False


def rule_guards(E, R):
    rule = "R04-guards"
    # root of a filter must be Bool
    fn = "<ast::FilterAst as lex::LexWith<&ast::parse::FilterParser>>::lex_with"
    h = E.hir(fn)
    if h:
        ok = False
        n_lit = 0
        for n, st in walk_arms(h["body"]):
            if n.get("k") == "Struct" and norm(n["res"].get("path", "")).endswith("ast::FilterAst"):
                n_lit += 1
                vs = arm_variants(st, "Type")
                ok = vs == ["Bool"]
        R.check(ok and n_lit == 1, rule, fn, "a FilterAst is built only when the root type is Bool", where=h["span"])
        # and the matched value is the root's static type
        good = False
        for m in find_matches(h["body"], r"^types::Type$"):
            nm = local_name(m["scrut"])
            for s in exprs(h["body"], "SLet"):
                if nm in pat_bindings(s["pat"]) and "init" in s:
                    i = strip(s["init"])
                    good = i.get("k") == "MethodCall" and i["m"] == "get_type" and local_name(i["recv"]) == "op"
        R.check(good, rule, fn, "the checked type is the root expression's static type", where=h["span"])
    else:
        R.cannot(rule, fn, "anchor not found")
    fn = "<ast::FilterValueAst as lex::LexWith<&ast::parse::FilterParser>>::lex_with"
    h = E.hir(fn)
    if h:
        ok = False
        for n, st in walk_arms(h["body"]):
            if n.get("k") == "Struct" and norm(n["res"].get("path", "")).endswith("ast::FilterValueAst"):
                for ent in st:
                    if ent[0] == "if" and ent[2] is False:
                        ok = True
        cond_ok = any(strip(i["cond"]).get("k") == "Binary" and strip(i["cond"])["op"] == "Gt" and
                      any(c["m"] == "map_each_count" for c in exprs(i["cond"], "MethodCall")) and lit_value(strip(i["cond"])["r"]) == 0
                      for i in exprs(h["body"], "If"))
        R.check(ok and cond_ok, rule, fn, "a value expression containing [*] is rejected", where=h["span"])
    else:
        R.cannot(rule, fn, "anchor not found")
    fn = "<ast::logical_expr::QuantifierArgExpr as lex::LexWith<&ast::parse::FilterParser>>::lex_with"
    h = E.hir(fn)
    if h:
        ok = False
        for i in exprs(h["body"], "If"):
            c = strip(i["cond"])
            if c.get("k") == "Binary" and c["op"] == "Eq" and local_name(c["l"]) == "actual" and \
                    norm(strip(c["r"]).get("callee", "")) == "ast::logical_expr::bool_array_type":
                t = tail(i["then"])
                e = tail(i.get("else", {}))
                ok = norm(t.get("callee", "")) == "core::result::Result::Ok" and norm(e.get("callee", "")) == "core::result::Result::Err"
        oks = [c for c in exprs(h["body"], "Call") if norm(c.get("callee", "")) == "core::result::Result::Ok" and not c.get("x")]
        R.check(ok and len(oks) == 1, rule, fn, "quantifier argument accepted only when its type is Array(Bool)", where=h["span"])
        hb = E.hir("ast::logical_expr::bool_array_type")
        good = False
        if hb:
            t = tail(hb["body"])
            good = norm(t.get("callee", "")) == "types::Type::Array" and any(def_path(p) == "types::Type::Bool" for p in exprs(t, "Path"))
        R.check(good, rule, "ast::logical_expr::bool_array_type", "bool_array_type() is Array(Bool)")
        # a literal argument is rejected
        lit_err = False
        for m in find_matches(h["body"], r"FunctionCallArgExpr"):
            for a in m["arms"]:
                if [last_seg(v) for v in pat_variants(a["pat"])] == ["Literal"]:
                    lit_err = bool(explicit_err_returns(a["body"]))
        R.check(lit_err, rule, fn, "a literal quantifier argument is rejected", where=h["span"])
    else:
        R.cannot(rule, fn, "anchor not found")
    # logical operands
    fn = "ast::logical_expr::LogicalExpr::lex_more_with_precedence"
    h = E.hir(fn)
    if h:
        found = False
        sites = [x for x in exprs(h["body"], "Struct", into_closures=False) if norm(x["res"].get("path", "")).endswith("LogicalExpr::Combining")]
        sites += [c for c in exprs(h["body"], "MethodCall", into_closures=False) if c["m"] == "push" and local_name(c["recv"]) == "items"]
        for site in sites:
            pre = preceding_stmts(h["body"], site) or []
            guard = False
            for prev in pre:
                for m in exprs(prev, "Match", into_closures=False):
                    acc = set()
                    rej = False
                    for a in m["arms"]:
                        prs = tuple_pairs(a["pat"])
                        if prs:
                            acc |= set(prs)
                        elif a["pat"].get("k") == "PWild":
                            rej = bool(explicit_err_returns(a["body"]))
                    if acc == {("Bool", "Bool"), ("Array", "Array")} and rej:
                        sc = strip(m["scrut"])
                        names = [local_name(x) for x in sc.get("es", [])]
                        guard = guard or names == ["lhsty", "rhsty"]
            found = True
            R.check(guard, rule, fn, "Combining built/extended only after the (Bool,Bool)|(Array,Array) operand check",
                    where=site.get("sp", h["span"]))
        R.check(found, rule, fn, "Combining construction sites found", where=h["span"])
        # operand types are those of lhs and rhs
        good = False
        for s in exprs(h["body"], "SLet"):
            if set(pat_bindings(s["pat"])) == {"lhsty", "rhsty"} and "init" in s:
                es = strip(s["init"]).get("es", [])
                if len(es) == 2:
                    a, b = strip(es[0]), strip(es[1])
                    good = a.get("m") == "get_type" and local_name(a["recv"]) == "lhs" and b.get("m") == "get_type" and \
                        strip(b["recv"]).get("k") == "Field" and local_name(strip(b["recv"])["e"]) == "rhs"
        R.check(good, rule, fn, "the checked types are the static types of both operands", where=h["span"])
    else:
        R.cannot(rule, fn, "anchor not found")
    # function call arguments
    fn = "ast::function_expr::FunctionCallExpr::lex_with_function"
    h = E.hir(fn)
    if not h:
        return R.cannot(rule, fn, "anchor not found")
    n_push = 0
    for blk in exprs(h["body"], "Block"):
        stmts = blk.get("stmts", [])
        for idx, st in enumerate(stmts):
            if st.get("k") not in ("SSemi", "SExpr"):
                continue
            e = strip(st["e"])
            if not (e.get("k") == "MethodCall" and e["m"] == "push" and local_name(e["recv"]) == "args"):
                continue
            n_push += 1
            mapeach = _guarded_by_preceding_return(stmts, idx, lambda c: c.get("k") == "Binary" and c["op"] == "And" and
                                                   any(x["m"] == "map_each_count" for x in exprs(c, "MethodCall")) and
                                                   any(local_name(x) == "index" for x in exprs(c, "Path")))
            arity = _guarded_by_preceding_return(stmts, idx, lambda c: any(x["m"] == "is_some" for x in exprs(c, "MethodCall")) and
                                                 any(b == "Ge" for b in binops(c)) and
                                                 any(local_name(x) == "mandatory_arg_count" for x in exprs(c, "Path")))
            checked = False
            for prev in stmts[:idx]:
                for m in exprs(prev, "Match", into_closures=False):
                    if str(m.get("src", "")).startswith("TryDesugar"):
                        s = strip(m["scrut"])
                        if s.get("k") == "Call" and s.get("args"):
                            root, ch = chain(s["args"][0])
                            if any(x["m"] == "check_param" for x in ch) and all(x["m"] in ("check_param", "map_err") for x in ch):
                                checked = True
            R.check(mapeach, rule, fn, "[*] accepted in the first argument only", where=e["sp"])
            R.check(arity, rule, fn, "argument count bounded by mandatory + optional before the push", where=e["sp"])
            R.check(checked, rule, fn, "check_param's verdict is propagated (`?`) before the argument is accepted", where=e["sp"])
    R.floor(rule, "args.push sites", n_push, 1)
    # lower arity bound before Ok
    body = h["body"]
    stmts = body.get("stmts", [])
    low = _guarded_by_preceding_return(stmts, len(stmts), lambda c: c.get("k") == "Binary" and c["op"] == "Lt" and
                                       any(x["m"] == "len" for x in exprs(c["l"], "MethodCall")) and local_name(c["r"]) == "mandatory_arg_count")
    R.check(low, rule, fn, "fewer than the mandatory number of arguments is rejected", where=h["span"])
    # the parameter description handed to check_param is the argument's own static type / literal
    fp = "ast::function_expr::{impl core::convert::From<&ast::function_expr::FunctionCallArgExpr> for functions::FunctionParam}::from"
    hp = E.hir(fp)
    if hp:
        tbl = {}
        for m in find_matches(hp["body"], r"FunctionCallArgExpr"):
            for a in m["arms"]:
                for v in pat_variants(a["pat"]):
                    tbl[last_seg(v)] = sorted(built_variants(a["body"], "FunctionParam"))
        R.check(tbl == {"IndexExpr": ["Variable"], "Logical": ["Variable"], "Literal": ["Constant"]}, rule, fp,
                "argument kind table: expressions are variables, literals are constants", str(tbl), hp["span"])
    else:
        R.cannot(rule, fp, "anchor not found")


LOGICAL_TYPES = ("ast::logical_expr::LogicalExpr", "ast::field_expr::ComparisonExpr", "ast::logical_expr::ParenthesizedExpr")


def rule_kind(E, R):
    rule = "R04-kind"
    n = 0
    for ty in ("ast::logical_expr::LogicalExpr", "ast::field_expr::ComparisonExpr"):
        fn = "<%s as types::GetType>::get_type" % ty
        h = E.hir(fn)
        if not h:
            R.cannot(rule, fn, "anchor not found")
            continue
        for leaf, _ in C20.return_leaves(h["body"]):
            l = strip(leaf)
            n += 1
            d = def_path(l)
            if d == "types::Type::Bool":
                R.ok(rule, fn, "returns Bool", where=l.get("sp", ""))
                continue
            if l.get("k") == "Call" and norm(l.get("callee", "")) == "types::Type::Array" and \
                    any(def_path(p) == "types::Type::Bool" for p in exprs(l, "Path")):
                R.ok(rule, fn, "returns Array(Bool)", where=l.get("sp", ""))
                continue
            if l.get("k") == "MethodCall" and l["m"] == "get_type":
                rt = norm(strip(l["recv"]).get("ty", "")).lstrip("&")
                rt = rt.replace("alloc::boxed::Box<", "").rstrip(">") if rt.startswith("alloc::boxed::Box<") else rt
                if rt in LOGICAL_TYPES:
                    R.ok(rule, fn, "returns the type of a logical sub-node", where=l.get("sp", ""))
                    continue
                root = strip(l["recv"])
                what = ("self." + root["name"]) if root.get("k") == "Field" else (local_name(root) or "?")
                R.violation(rule, fn, "returns the type of value node %s" % what,
                            "a logical node compiles to One (Bool) or Vec (Array(Bool)); here its static type is the type of "
                            "a *value* node (%s), e.g. Map(Bool) for a bare map-of-bool field: `f(not mb)` type-checks "
                            "against f(Map(Bool)) but f receives an Array(Bool)" % rt, l.get("sp", ""))
                continue
            R.undecided(rule, fn, "unrecognised static type expression", l.get("k", "?"), l.get("sp", ""))
    R.floor(rule, "static-type leaves of logical nodes", n, 6)


def run(F, R, tier):
    E = F.engine
    rule_admit(E, R)
    rule_cast(E, R)
    rule_index(E, R)
    rule_guards(E, R)
    rule_kind(E, R)
    rule_panic(E, R)
    R.not_decided += ["exact acceptance for arbitrary compositions of the rules",
                      "panic-freedom of every accepted program is decided only up to the reviewed list of 43 explicit panic sites (each tied to a parser/store invariant); implicit panics (bounds, arithmetic) are not examined",
                      "user-supplied check_param implementations"]


# ----------------------------------------------------------------------------------------------
# R04-panic: second sentence of the property — explicit panic sites reachable from compile/execute are reviewed

def rule_panic(E, R):
    import json as _json
    import os as _os
    rule = "R04-panic"
    spec = _os.path.join(_os.path.dirname(_os.path.dirname(_os.path.abspath(__file__))), "spec", "exec_panics.json")
    with open(spec) as f:
        allowed = {(a["function"], a["kind"]): a["reason"] for a in _json.load(f)["allowed"]}
    insts = {i["id"]: i for i in E.mono["instances"]}
    name = {i: norm(v["path"]) for i, v in insts.items()}
    roots = [i for i in insts if name[i] in ("ast::FilterAst::compile", "ast::FilterValueAst::compile",
                                             "filter::Filter::execute", "filter::FilterValue::execute") and "mir" in insts[i]]
    R.floor(rule, "compile/execute entry instances", len(roots), 4)
    seen = set()
    st = list(roots)
    while st:
        x = st.pop()
        if x in seen:
            continue
        seen.add(x)
        for e in insts[x].get("edges", []):
            if "to" in e and e["kind"] in ("call", "closure", "fnref"):
                st.append(e["to"])
    sites = {}
    for i in seen:
        v = insts[i]
        if "mir" not in v:
            continue
        for k, w, c in panic_sites(v["mir"]):
            sites.setdefault((name[i], k), set()).add(w)
    R.analysed["instances_reachable_from_compile_execute"] = len(seen)
    R.floor(rule, "explicit panic sites reachable from compile/execute", len(sites), 30)
    for (fn, k), w in sorted(sites.items()):
        label = "%s site" % k
        if (fn, k) in allowed:
            R.ok(rule, fn, label + " (reviewed)", allowed[(fn, k)], sorted(w)[0])
        else:
            R.violation(rule, fn, label,
                        "an explicit panic is reachable from compile()/execute() and is not in the reviewed list (spec/exec_panics.json): "
                        "an accepted filter must compile and run without panicking", sorted(w)[0])
    # guard of one reviewed entry: ContainsOneOf is never constructed by non-test code
    built = []
    derived = {it["dp"] for imp in E.impls if imp["derived"] for it in imp["items"]}
    for hb in E.hir_list:
        if "body" not in hb or "::tests::" in norm(hb["path"]) or hb["dp"] in derived or any(hb["dp"].startswith(d + "::") for d in derived):
            continue
        if "ContainsOneOf" in built_variants(hb["body"], "ComparisonOpExpr"):
            # pattern matches are not constructions: built_variants only looks at expressions
            built.append(norm(hb["path"]))
    R.check(not built, rule, "ast::field_expr::ComparisonOpExpr::ContainsOneOf", "never constructed (its compile arm is an unreachable!)", str(built))
