"""C05 — parsing is total: any input yields an AST or a well-formed error, never a crash."""
from lib import *
import parsergraph
import C01

LEVEL = "other"
EXPLANATION = ("Bounded stack: in the monomorphic call graph reachable from every parser entry point (parse, "
               "parse_value and all LexWith<&FilterParser> impls) every recursion cycle is classified - it either "
               "spends one unit of the nesting budget per turn (an edge with nesting delta +1, see C13), or is the "
               "precedence self-recursion whose operator strictly increases (depth <= 3), or is structural descent "
               "over an already built AST; any other cycle is reported with its path. Error spans: no "
               "(LexErrorKind, &str) value is built with a constant span, and ParseError::new receives the very "
               "input that was lexed. Char-boundary safety of computed slices, loop progress and Display arithmetic "
               "are not decided.")

PREC = "ast::logical_expr::LogicalExpr::lex_more_with_precedence"


def rule_cycle(G, E, R):
    rule = "R05-cycle"
    pe = G.parser_edges()
    spend = {(i, to) for i, to, d, w in pe if min(d) >= 1}
    R.floor(rule, "nesting-budget (+1) edges", len(spend), 5)
    R.floor(rule, "parser entry points", len(G.roots), 12)
    # edges are dropped per (from,to): an edge pair is dropped only if *every* parser-passing call from->to carries +1
    mixed = {(i, to) for i, to, d, w in pe if min(d) < 1}
    drop = spend - mixed
    sccs_all, _ = G.sccs()
    sccs, adj = G.sccs(lambda i, to, bb: (i, to) in drop)
    R.analysed["cycles_before_removing_budget_edges"] = [[G.name[x] for x in c] for c in sccs_all]
    R.analysed["reachable_instances"] = len(G.reach)
    big = [c for c in sccs_all if len(c) > 1]
    R.check(len(big) >= 1, rule, "parser", "the mutually recursive parser cycle was found (sanity)",
            "no multi-function cycle among parser functions: call graph incomplete?")
    for comp in sccs:
        names = [G.name[x] for x in comp]
        label = "cycle " + " <-> ".join(sorted(set(names)))
        if names == [PREC]:
            R.ok(rule, PREC, "precedence self-recursion (bounded by R05-prec)")
            continue
        # structural descent over an AST node
        structural = True
        why = ""
        for x in comp:
            m = G.insts[x]["mir"]
            if m["arg_count"] < 1 or not re.match(r"^&(mut )?(ast|types|rhs_types|scheme|lhs_types)::", norm(m["locals"][1]["ty"])):
                structural = False
                why = "%s does not take an AST/value node by reference" % G.name[x]
                break
            mm = Mir(m)
            fl = Flow(mm, through=r"(::index|::deref|::next|into_iter|as_ref|::iter|::first|::get|unwrap|::branch|clone)$")
            for bi, t in mm.calls():
                tgt = [to for to, kind, bb in G.edges[x] if bb == bi and kind == "call"]
                if not any(tt in comp for tt in tgt):
                    continue
                a0 = op_local(t["args"][0]) if t["args"] else None
                srcs = fl.sources(a0) if a0 is not None else set()
                roots = {s for s in srcs if s[0] == "arg"}
                others = {s for s in srcs if s[0] not in ("arg",)}
                if roots != {("arg", 1, None)} or any(s[0] == "call" for s in others):
                    structural = False
                    why = "recursive call in %s is not on a sub-node of its own argument (%s)" % (G.name[x], sorted(map(str, srcs))[:4])
        if structural:
            R.ok(rule, names[0], label + ": structural descent over an already built node", nontrivial=True)
        else:
            R.violation(rule, names[0], label,
                        "recursion cycle reachable from the parser that neither spends nesting budget nor descends structurally: %s" % why)
    # unresolved / indirect calls are listed
    R.analysed["indirect_calls_not_followed"] = sorted({"%s -> dyn %s" % (a, b) for a, b, k in G.indirect})
    unresolved = [x for x in G.indirect if x[2] == "unresolved"]
    R.check(not unresolved, rule, "parser", "every direct call in the parser was resolved to an instance", str(unresolved[:5]))


def scan_spans(E, R, rule="R05-span"):
    n = 0
    for hb in E.hir_list:
        if "body" not in hb:
            continue
        p = norm(hb["path"])
        for t in exprs(hb["body"], "Tup"):
            if not norm(t.get("ty", "")).startswith("(lex::LexErrorKind, &str)"):
                continue
            n += 1
            span = strip(t["es"][1])
            if span.get("k") == "Lit":
                R.violation(rule, p, "error span is a string constant",
                            "a `'static` literal type-checks as the span but is not part of the input: ParseError::new "
                            "asserts that the span lies inside the input and panics", t["sp"])
            else:
                R.ok(rule, p, "error span is derived from the input", where=t["sp"], nontrivial=False)
    return n


def rule_span(E, R):
    rule = "R05-span"
    n = scan_spans(E, R, rule)
    R.floor(rule, "(LexErrorKind, &str) error values built", n, 60)
    # ParseError::new callers
    callers = []
    for hb in E.hir_list:
        if "body" not in hb:
            continue
        for c in calls(hb["body"], r"^ast::parse::ParseError::new$"):
            callers.append((hb, c))
    ok_names = {"ast::parse::FilterParser::parse", "ast::parse::FilterParser::parse_value"}
    R.floor(rule, "ParseError::new call sites", len(callers), 2)
    for hb, c in callers:
        p = norm(hb["path"]).split("::{closure")[0]
        R.check(p in ok_names and local_name(c["args"][0]) == "input", rule, p,
                "ParseError::new receives the function's own `input`", where=c["sp"])
    for fn in ok_names:
        h = E.hir(fn)
        if not h:
            R.cannot(rule, fn, "anchor not found")
            continue
        lx = [c for c in exprs(h["body"], "MethodCall") if c["m"] == "lex_as"]
        ok = len(lx) == 1 and strip(lx[0]["args"][0]).get("k") == "MethodCall" and strip(lx[0]["args"][0])["m"] == "trim" and \
            local_name(strip(lx[0]["args"][0])["recv"]) == "input"
        R.check(ok, rule, fn, "the text that is lexed is `input.trim()` - a sub-slice of the reported input", where=h["span"])
        cp = [c for c in exprs(h["body"], "Call") if norm(c.get("callee", "")) == "lex::complete"]
        R.check(len(cp) == 1, rule, fn, "trailing input is rejected by complete()", where=h["span"])


def run(F, R, tier):
    E = F.engine
    G = parsergraph.ParserGraph(E)
    rule_cycle(G, E, R)
    # R05-prec: the precedence recursion guard (same extraction as R01-prec)
    sub = Report()
    C01.rule_prec(E, sub)
    for r in sub.results:
        if "recursion only for a strictly tighter operator" in r.label or "lower bound is the operator just seen" in r.label \
                or "Ord/PartialOrd are derived" in r.label or "ascending binding strength" in r.label or r.status == "cannot-decide":
            r.rule = "R05-prec"
            R.results.append(r)
    a = E.adt("ast::logical_expr::LogicalOp")
    if a:
        R.check(len(a["variants"]) == 3, "R05-prec", "ast::logical_expr::LogicalOp",
                "3 logical operators => precedence recursion depth <= 3", str(len(a["variants"])))
    rule_span(E, R)
    R.not_decided += ["char-boundary safety of the computed str slices in the lexers",
                      "progress of every lexer loop (termination)", "arithmetic inside ParseError::new / Display",
                      "stack size in bytes"]
    R.assumptions += ["calls through dyn FunctionDefinition (context, check_param, return_type, arg_count) go to user code and are not followed"]
