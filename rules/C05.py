"""C05 — parsing is total: any input yields an AST or a well-formed error, never a crash."""
import os
from lib import *
import sem
import parsergraph
import C01

LEVEL = "other"
EXPLANATION = ("Bounded stack: in the monomorphic call graph reachable from every parser entry point (parse, "
               "parse_value and all LexWith<&FilterParser> impls) every recursion cycle is classified - it either "
               "spends one unit of the nesting budget per turn (an edge with nesting delta +1, see C13), or is the "
               "precedence self-recursion whose operator strictly increases (depth <= 3), or is structural descent "
               "over an already built AST; any other cycle is reported with its path. Error spans: no "
               "(LexErrorKind, &str) value is built with a constant span, and ParseError::new receives the very "
               "input that was lexed. Char-boundary safety of computed slices, loop progress and Display arithmetic "
               "are not decided.")

PREC = "ast::logical_expr::LogicalExpr::lex_more_with_precedence"


def rule_cycle(G, E, R):
    rule = "R05-cycle"
    pe = G.parser_edges()
    spend = {(i, to) for i, to, d, w in pe if min(d) >= 1}
    R.floor(rule, "nesting-budget (+1) edges", len(spend), 5)
    R.floor(rule, "parser entry points", len(G.roots), 12)
    # edges are dropped per (from,to): an edge pair is dropped only if *every* parser-passing call from->to carries +1
    mixed = {(i, to) for i, to, d, w in pe if min(d) < 1}
    drop = spend - mixed
    sccs_all, _ = G.sccs()
    sccs, adj = G.sccs(lambda i, to, bb: (i, to) in drop)
    R.analysed["cycles_before_removing_budget_edges"] = [[G.name[x] for x in c] for c in sccs_all]
    R.analysed["reachable_instances"] = len(G.reach)
    big = [c for c in sccs_all if len(c) > 1]
    R.check(len(big) >= 1, rule, "parser", "the mutually recursive parser cycle was found (sanity)",
            "no multi-function cycle among parser functions: call graph incomplete?")
    for comp in sccs:
        names = [G.name[x] for x in comp]
        label = "cycle " + " <-> ".join(sorted(set(names)))
        if names == [PREC]:
            R.ok(rule, PREC, "precedence self-recursion (bounded by R05-prec)")
            continue
        # structural descent over an already built AST / value: every function on the cycle only *reads* nodes it was
        # given (by reference), never builds one, and a direct recursive call passes a sub-node of its own argument
        structural = True
        why = ""
        AST_REF = re.compile(r"^&(mut )?(ast|types|rhs_types|scheme|lhs_types|functions)::")
        for x in comp:
            m = G.insts[x]["mir"]
            is_closure = m["kind"] == "Closure"
            ptys = [norm(m["locals"][a]["ty"]) for a in range(1, m["arg_count"] + 1)]
            if is_closure:
                ptys = ptys[1:]
            if not ptys or not all(AST_REF.match(t) for t in ptys):
                structural = False
                why = "%s takes %s, not (only) references to AST nodes" % (G.name[x], ptys)
                break
            builds = [s_["rv"].get("adt") for bl in m["blocks"] for s_ in bl["stmts"]
                      if s_["k"] == "Assign" and s_["rv"]["k"] == "Aggregate" and str(s_["rv"].get("adt", "")).startswith("ast::")]
            if builds:
                structural = False
                why = "%s constructs AST nodes (%s) while on a recursion cycle" % (G.name[x], sorted(set(builds))[:3])
                break
            if is_closure:
                continue
            mm = Mir(m)
            fl = Flow(mm, through=r"(::index|::deref|::next|into_iter|as_ref|::iter|::first|::get|unwrap|::branch|clone)$")
            for bi, t in mm.calls():
                tgt = [to for to, kind, bb in G.edges[x] if bb == bi and kind == "call"]
                if not any(tt in comp and G.insts[tt]["mir"]["kind"] != "Closure" for tt in tgt):
                    continue
                a0 = op_local(t["args"][0]) if t["args"] else None
                srcs = fl.sources(a0) if a0 is not None else set()
                roots = {s_ for s_ in srcs if s_[0] == "arg"}
                if roots and not roots <= {("arg", a, None) for a in range(1, m["arg_count"] + 1)}:
                    structural = False
                    why = "recursive call in %s is not on a sub-node of its own argument" % G.name[x]
                calls_bad = {s_ for s_ in srcs if s_[0] == "call" and not re.search(r"(get_type|as_definition|return_type)$", str(s_[1]))}
                if not roots and calls_bad:
                    structural = False
                    why = "recursive call in %s on a value of unknown origin (%s)" % (G.name[x], sorted(map(str, calls_bad))[:2])
        if structural:
            R.ok(rule, names[0], label + ": structural descent over an already built node", nontrivial=True)
        else:
            R.violation(rule, names[0], label,
                        "recursion cycle reachable from the parser that neither spends nesting budget nor descends structurally: %s" % why)
    # unresolved / indirect calls are listed
    R.analysed["indirect_calls_not_followed"] = sorted({"%s -> dyn %s" % (a, b) for a, b, k in G.indirect})
    unresolved = [x for x in G.indirect if x[2] == "unresolved"]
    R.check(not unresolved, rule, "parser", "every direct call in the parser was resolved to an instance", str(unresolved[:5]))


def scan_spans(E, R, rule="R05-span"):
    n = 0
    for hb in E.hir_list:
        if "body" not in hb:
            continue
        p = norm(hb["path"])
        for t in exprs(hb["body"], "Tup"):
            if not norm(t.get("ty", "")).startswith("(lex::LexErrorKind, &str)"):
                continue
            n += 1
            span = strip(t["es"][1])
            if span.get("k") == "Lit":
                R.violation(rule, p, "error span is a string constant",
                            "a `'static` literal type-checks as the span but is not part of the input: ParseError::new "
                            "asserts that the span lies inside the input and panics", t["sp"])
            else:
                R.ok(rule, p, "error span is derived from the input", where=t["sp"], nontrivial=False)
    return n


def rule_span(E, R):
    rule = "R05-span"
    n = scan_spans(E, R, rule)
    R.floor(rule, "(LexErrorKind, &str) error values built", n, 60)
    # ParseError::new callers
    callers = []
    for hb in E.hir_list:
        if "body" not in hb:
            continue
        for c in calls(hb["body"], r"^ast::parse::ParseError::new$"):
            callers.append((hb, c))
    ok_names = {"ast::parse::FilterParser::parse", "ast::parse::FilterParser::parse_value"}
    R.floor(rule, "ParseError::new call sites", len(callers), 1)
    cbn = callers_by_name(E)
    for hb, c in callers:
        p = norm(hb["path"]).split("::{closure")[0]
        it = E.item(p)
        shared = p not in ok_names and it is not None and it.get("vis") != "Public" and \
            {x for x in cbn.get(p, ()) if "::tests::" not in x} and {x for x in cbn.get(p, ()) if "::tests::" not in x} <= ok_names
        R.check(p in ok_names or bool(shared), rule, p, "parse errors are built only by parse()/parse_value() (or the private helper they share)",
                where=c["sp"])
    for fn in ok_names:
        h = E.hir(fn)
        if not h:
            R.cannot(rule, fn, "anchor not found")
            continue
        # read with the private helper (if any) followed: the error is reported against this function's own `input`, the
        # text that is lexed is `input.trim()`, and trailing input is rejected
        S = sem.Sem(E, h)
        sites = S.sites()
        pe = [x for x in sites if x.node.get("k") == "Call" and norm(x.node.get("callee", "")) == "ast::parse::ParseError::new"]
        R.check(len(pe) == 1 and sem.param_index(S, pe[0].node["args"][0], pe[0].frame) == 1, rule, fn,
                "ParseError::new receives the function's own `input`", where=h["span"])
        lx = [x for x in sites if x.node.get("k") == "MethodCall" and x.node["m"] == "lex_as"]
        ok = False
        if len(lx) == 1:
            a0 = S.resolve(lx[0].node["args"][0], lx[0].frame)
            tr = sem.is_method(a0.node, "trim")
            ok = tr is not None and sem.param_index(S, tr, a0.frame) == 1
        R.check(ok, rule, fn, "the text that is lexed is `input.trim()` - a sub-slice of the reported input", where=h["span"])
        cp = [x for x in sites if x.node.get("k") == "Call" and norm(x.node.get("callee", "")) == "lex::complete"]
        R.check(len(cp) == 1 and not cp[0].pc_has_conditions(), rule, fn, "trailing input is rejected by complete()", where=h["span"])


def run(F, R, tier):
    E = F.engine
    G = parsergraph.ParserGraph(E)
    rule_cycle(G, E, R)
    # R05-prec: the precedence recursion guard (same extraction as R01-prec)
    sub = Report()
    C01.rule_prec(E, sub)
    for r in sub.results:
        if "recursion only for a strictly tighter operator" in r.label or "lower bound is the operator just seen" in r.label \
                or "Ord/PartialOrd are derived" in r.label or "ascending binding strength" in r.label or r.status == "cannot-decide":
            r.rule = "R05-prec"
            R.results.append(r)
    a = E.adt("ast::logical_expr::LogicalOp")
    if a:
        R.check(len(a["variants"]) == 3, "R05-prec", "ast::logical_expr::LogicalOp",
                "3 logical operators => precedence recursion depth <= 3", str(len(a["variants"])))
    rule_span(E, R)
    rule_slice(E, R)
    rule_panic(G, E, R)
    R.not_decided += ["the pointer-difference arithmetic behind the span offset in ParseError::new (reviewed exception of R05-slice)",
                      "progress of every lexer loop (termination)", "arithmetic inside ParseError::new / Display",
                      "stack size in bytes"]
    R.assumptions += ["calls through dyn FunctionDefinition (context, check_param, return_type, arg_count) go to user code and are not followed"]


# ----------------------------------------------------------------------------------------------
# R05-slice: every `str` slice bound is a char boundary by construction (slicing off a boundary panics)

# functions in which a byte offset obtained as the difference of two `str::as_ptr()` addresses is accepted as a slice
# bound: reviewed by reading (the span is asserted to lie inside the input); the arithmetic itself is not re-derived
POINTER_DIFF_REVIEWED = {
    "ast::parse::ParseError::new": "byte offset of `span` inside `input` (pointer difference; asserted to lie inside the input)",
}


def _is_addr(hb, e, depth=0):
    """e is `<str>.as_ptr() as usize`, possibly through immutable lets"""
    e = strip(e)
    if depth > 4:
        return False
    if e.get("k") == "Cast":
        i = strip(e["e"])
        return i.get("k") == "MethodCall" and i["m"] == "as_ptr" and "str" in norm(i["recv"].get("ty", ""))
    nm = local_name(e)
    if nm:
        ini = let_init(hb["body"], nm)
        return ini is not None and _is_addr(hb, ini, depth + 1)
    return False


def _is_str_ty(t):
    t = norm(t or "")
    return t in ("&str", "str", "&mut str", "alloc::string::String", "&alloc::string::String")


def _ascii_guard(body):
    """the function inspects leading bytes against ASCII byte literals (`as_bytes().first()/get(n)` matched or compared
    with b'x' < 0x80): a literal offset past those bytes is a char boundary"""
    for c in exprs(body, "MethodCall"):
        if c["m"] == "as_bytes":
            return True
    return False


def _ascii_byte_lits(n):
    out = []
    for x in walk(n):
        lit = None
        if x.get("k") == "Lit" and x["lit"].get("t") == "byte":
            lit = x["lit"]["v"]
        if x.get("k") == "PELit" and x["lit"].get("t") == "byte":
            lit = x["lit"]["v"]
        # a byte constant (`const QUOTE_BYTE: u8 = b'"'`) used in an expression or as a pattern
        if x.get("k") in ("Path", "PEPath") and x.get("res", {}).get("r") == "def" and str(x["res"].get("dk", "")).startswith(("Const", "AssocConst")):
            v_ = CONST_VALUES.get(x["res"].get("path"))
            if isinstance(v_, int) and not isinstance(v_, bool) and 0 <= v_ < 256 and norm(x.get("ty", "u8")).lstrip("&") == "u8":
                lit = v_
        if lit is not None:
            out.append(lit)
    return out


def _find_pattern_of(body, nm):
    """the literal pattern of the `find(..)` call whose result defines local nm (None if not a find result)"""
    cands = []
    out = []
    for n in walk(body):
        if n.get("k") == "LetExpr" and nm in pat_bindings(n["pat"]):
            cands.append(strip(n["init"]))
        if n.get("k") == "SLet" and nm in pat_bindings(n["pat"]) and "init" in n:
            cands.append(strip(n["init"]))
    for src in cands:
        for c in exprs_deep(src, "MethodCall"):
            if c["m"] in ("find", "rfind") and c.get("args"):
                v = lit_value(c["args"][0])
                if isinstance(v, str):
                    out.append(v)
    return out


def _bound_safe(E, hb, e, depth=0):
    """(ok, why) for a slice bound expression"""
    e = deref(e)
    k = e.get("k")
    body = hb["body"]
    if depth > 16:
        return False, "too deep"
    if k == "Lit" or (k == "Path" and isinstance(lit_value(e), int) and not isinstance(lit_value(e), bool)):
        v = lit_value(e)
        if v == 0:
            return True, "0"
        lits = _ascii_byte_lits(body)
        if _ascii_guard(body) and lits and all(b < 0x80 for b in lits):
            return True, "literal %s after an ASCII leading-byte test" % v
        return False, "constant offset %s without an ASCII leading-byte test: a multi-byte character there makes the slice panic" % v
    if k == "MethodCall":
        if e["m"] == "len_utf8":
            return True, "len_utf8()"
        if e["m"] == "count":
            # count of leading ASCII chars
            root, ch = chain(e)
            ms = [x["m"] for x in ch]
            if ms == ["chars", "take_while", "count"]:
                clo = closure_of(ch[1]["args"][0])
                lits = [lit_value(x) for x in exprs(clo["body"], ("Lit", "Path")) if lit_value(x) is not None] if clo else []
                if lits and all(isinstance(v, str) and len(v) == 1 and ord(v) < 0x80 for v in lits):
                    return True, "count of leading ASCII characters"
        if e["m"] == "len" and _is_str_ty(e["recv"].get("ty")) or (e["m"] == "len" and "str" in norm(e["recv"].get("ty", ""))):
            return True, "len() of a string"
        if e["m"] in ("unwrap_or", "unwrap_or_else", "unwrap_or_default") and deref(e["recv"]).get("m") in ("find", "rfind"):
            return True, "position returned by find()"
        return False, "result of %s()" % e["m"]
    if k == "Binary" and e["op"] == "Add" and isinstance(lit_value(e["r"]), int) and local_name(e["l"]):
        # `pos + k` right after a k-byte pattern found by find(): still a boundary
        pats = _find_pattern_of(body, local_name(e["l"]))
        for pat in pats:
            if len(pat.encode()) == lit_value(e["r"]):
                return True, "position returned by find(%r) + its byte length" % pat
    if k == "Binary" and e["op"] == "Sub" and norm(hb["path"]) in POINTER_DIFF_REVIEWED and _is_addr(hb, e["l"]) and _is_addr(hb, e["r"]):
        return True, "reviewed: " + POINTER_DIFF_REVIEWED[norm(hb["path"])]
    if k == "Binary" and e["op"] in ("Add", "Sub"):
        a, wa = _bound_safe(E, hb, e["l"], depth + 1)
        b, wb = _bound_safe(E, hb, e["r"], depth + 1)
        return (a and b), "%s %s %s" % (wa, e["op"], wb)
    if k == "Binary" and e["op"] == "Mul":
        a, wa = _bound_safe(E, hb, e["l"], depth + 1) if lit_value(e["l"]) is None else (True, str(lit_value(e["l"])))
        b, wb = _bound_safe(E, hb, e["r"], depth + 1) if lit_value(e["r"]) is None else (True, str(lit_value(e["r"])))
        return (a and b), "%s * %s" % (wa, wb)
    nm = local_name(e)
    if nm:
        fn = norm(hb["path"])
        # a parameter of a private function: the bound is as safe as the argument at every call site
        r = path_res(e)
        pidx = None
        for i, p_ in enumerate(hb.get("params", [])):
            if p_.get("k") == "PBinding" and r and p_.get("id") == r.get("id") and p_.get("name") == nm:
                pidx = i
        it = E.item_by_dp.get(hb["dp"])
        if pidx is not None and it is not None and it.get("vis") != "Public" and not it.get("parent_kind", "").startswith("Impl { of_trait: true"):
            sites = []
            for cn in callers_by_name(E).get(fn, set()):
                ch = E.hir(cn)
                if not ch:
                    return False, "caller %s not analysable" % cn
                for c in exprs(ch["body"], ("Call", "MethodCall")):
                    if hb["dp"] in (c.get("resolved_dp"), c.get("callee_dp")):
                        sites.append((ch, c))
            if sites:
                whys = []
                for ch, c in sites:
                    args = call_args(c)
                    if pidx >= len(args):
                        return False, "call with fewer arguments"
                    ok, why = _bound_safe(E, ch, args[pidx], depth + 1)
                    if not ok:
                        return False, "argument at %s: %s" % (c.get("sp", ""), why)
                    whys.append(why)
                return True, "parameter; at every call site: " + "; ".join(sorted(set(whys)))
        # definition of the local
        for st in exprs(body, "SLet"):
            if nm in pat_bindings(st["pat"]) and "init" in st and st["pat"].get("k") == "PBinding":
                ini = strip(st["init"])
                # count of leading ASCII chars
                if ini.get("k") == "MethodCall" and ini["m"] == "count":
                    root, ch = chain(ini)
                    ms = [x["m"] for x in ch]
                    if ms == ["chars", "take_while", "count"]:
                        clo = closure_of(ch[1]["args"][0])
                        lits = [x["lit"].get("v") for x in exprs(clo["body"], "Lit")] if clo else []
                        if lits and all(isinstance(v, str) and len(v) == 1 and ord(v) < 0x80 for v in lits):
                            return True, "count of leading ASCII characters"
                return _bound_safe(E, hb, ini, depth + 1)
        # bound by a pattern: Some(x) from find(), (i, c) from char_indices()
        for n in walk(body):
            if n.get("k") == "LetExpr" and nm in pat_bindings(n["pat"]):
                src = strip(n["init"])
                if src.get("k") == "MethodCall" and src["m"] in ("find", "rfind"):
                    return True, "position returned by find()"
        for st in exprs(body, "SLet"):
            if nm in pat_bindings(st["pat"]) and "init" in st:
                src = strip(st["init"])
                for c in exprs_deep(src, "MethodCall"):
                    if c["m"] in ("char_indices", "match_indices"):
                        return True, "offset produced by %s()" % c["m"]
                inner = src
                # `iter.next().ok_or(..)?` on a char_indices iterator defined earlier
                for c in exprs_deep(src, "MethodCall"):
                    if c["m"] == "next":
                        it = local_name(chain(c)[0])
                        for st2 in exprs(body, "SLet"):
                            if it in pat_bindings(st2["pat"]) and any(x["m"] == "char_indices" for x in exprs_deep(st2.get("init", {}), "MethodCall")):
                                return True, "offset produced by char_indices()"
        return False, "local `%s` of unknown origin" % nm
    return False, "expression %s" % k


def rule_slice(E, R):
    rule = "R05-slice"
    n = 0
    for hb in E.hir_list:
        if "body" not in hb:
            continue
        fn = norm(hb["path"])
        if "::tests::" in fn:
            continue
        for ix in exprs(hb["body"], "Index"):
            bt = norm(ix["e"].get("ty", "") + " " + ix["e"].get("aty", ""))
            if not (bt.startswith("&str") or bt.startswith("str") or " &str" in bt or bt.startswith("&mut str")):
                continue
            idx = strip(ix["idx"])
            if idx.get("k") != "Struct":
                continue
            n += 1
            for f in idx.get("fields", []):
                ok, why = _bound_safe(E, hb, f["e"])
                label = "str slice bound `%s`" % f["name"]
                if ok:
                    R.ok(rule, fn, label + " is a char boundary by construction", why, ix["sp"])
                else:
                    R.violation(rule, fn, label + " is not known to be a char boundary", why, ix["sp"])
    R.floor(rule, "str slicing sites", n, 15)
    return n


# ----------------------------------------------------------------------------------------------
# R05-panic: explicit panic sites reachable from the parser are within a reviewed allow-list



def _is_some_conjunct_ok(E, fn):
    """every `X.unwrap()` in fn is a later conjunct of an `&&` chain that has `X.is_some()` as an earlier conjunct"""
    h = E.hir(fn)
    if not h:
        return False, "anchor not found"
    uw = [c for c in exprs(h["body"], "MethodCall") if c["m"] == "unwrap" and norm(c.get("callee", "")) == "core::option::Option::unwrap"]
    if not uw:
        return True, "no unwrap left"

    def conjuncts(e):
        e = strip(e)
        if e.get("k") == "Binary" and e["op"] == "And":
            return conjuncts(e["l"]) + conjuncts(e["r"])
        return [e]
    ands = [b for b in exprs(h["body"], "Binary") if b["op"] == "And"]
    for u in uw:
        x = local_name(u["recv"])
        ok = False
        for a in ands:
            cs = conjuncts(a)
            for i, cj in enumerate(cs):
                if any(n is u for n in walk(cj)):
                    earlier = cs[:i]
                    if any(e.get("k") == "MethodCall" and e["m"] == "is_some" and local_name(e["recv"]) == x for e in earlier):
                        ok = True
        if not ok:
            return False, "`%s.unwrap()` is not guarded by an earlier `%s.is_some() &&`" % (x, x)
    return True, "%d unwrap(s), each guarded by is_some() in the same && chain" % len(uw)


def _literal_types_ok(E):
    """RhsValue::lex_with / RhsValues::lex_with receive only Ip, Bytes, Int: constant arguments, or a value that the path
    condition of the call restricts to those variants (the arms admitted by R04-admit). A call inside a private helper
    is judged in the context of every caller that the helper is inlined into."""
    import sem
    UT = sem.enum_universe(E, "types::Type")

    def is_lit_call(c):
        return norm(c.get("callee", "")).endswith("LexWith::lex_with") and "types::RhsValue" in norm(c.get("ty", ""))
    holders = [hb for hb in E.hir_list if "body" in hb and "::tests::" not in norm(hb["path"]) and
               any(is_lit_call(c) for c in exprs(hb["body"], ("Call", "MethodCall")))]
    holder_paths = {norm(hb["path"]) for hb in holders}
    # roots: the holders and every same-file caller of a holder (helpers are inlined into them)
    roots = {}
    for hb in holders:
        roots[hb["dp"]] = hb
        for cn in callers_by_name(E).get(norm(hb["path"]), set()):
            ch = E.hir(cn)
            if ch is not None:
                roots[ch["dp"]] = ch
    verdicts = {}      # id(call node) -> list of (ok, where, root)
    for hb in roots.values():
        S = sem.Sem(E, hb)
        for x in S.sites():
            if x.node.get("k") not in ("Call", "MethodCall") or not is_lit_call(x.node):
                continue
            in_root = x.frame is S.root
            if in_root and norm(hb["path"]) in holder_paths:
                it = E.item_by_dp.get(hb["dp"]) or {}
                helper = it.get("vis") != "Public" and not it.get("parent_kind", "").startswith("Impl { of_trait: true") and \
                    any(E.hir(cn) is not None and E.hir(cn).get("span", "").rsplit(":", 1)[0] == hb.get("span", "").rsplit(":", 1)[0]
                        for cn in callers_by_name(E).get(norm(hb["path"]), set()))
                if helper:
                    continue       # judged where it is inlined
            a = call_args(x.node)[-1]
            d = def_path(a)
            ok_types = ("types::Type::Ip", "types::Type::Bytes", "types::Type::Int")
            lb = S.lookup(sem.peel(a), x.frame)
            looped = None
            if lb is not None and lb.kind == "loopvar" and lb.expr is not None:
                # `for ty in [Type::Ip, Type::Int, Type::Bytes]`
                nx = sem.peel(lb.expr)
                it_ = sem.peel(nx["args"][0]) if nx.get("args") else {}
                ib = S.lookup(it_, lb.frame)
                src_ = sem.peel(ib.expr) if ib is not None and ib.expr is not None else {}
                arr = sem.peel(src_["args"][0]) if src_.get("k") == "Call" and src_.get("args") else {}
                if arr.get("k") == "Array":
                    looped = [def_path(e_) for e_ in arr["es"]]
            if d in ok_types:
                ok = True
            elif looped is not None:
                ok = bool(looped) and all(t_ in ok_types for t_ in looped)
            else:
                adm = sem.admitted_tuples(x.pc, [lambda v, x=x, a=a: S.same(v.node, v.frame, a, x.frame)], [UT])
                ok = {last_seg(t[0]) for t in adm} <= {"Ip", "Bytes", "Int"}
            verdicts.setdefault(id(x.node), []).append((ok, "%s at %s" % (norm(hb["path"]), x.node["sp"])))
    n = len(verdicts)
    all_calls = [c for hb in holders for c in exprs(hb["body"], ("Call", "MethodCall")) if is_lit_call(c)]
    bad = [w for v in verdicts.values() for ok, w in v if not ok]
    bad += ["never analysed: " + c["sp"] for c in all_calls if id(c) not in verdicts]
    return (not bad and n >= 5), ("%d literal lexer calls, all with Ip/Bytes/Int" % n if not bad else "literal lexer called with an unrestricted type: %s" % bad)


def rule_panic(G, E, R):
    import json as _json
    rule = "R05-panic"
    spec = os.path.join(os.path.dirname(os.path.dirname(os.path.abspath(__file__))), "spec", "parser_panics.json")
    with open(spec) as f:
        allowed = {(canon_fn(E, a["function"]), a["kind"]): a for a in _json.load(f)["allowed"]}
    seen = {}
    for i in sorted(G.reach):
        v = G.insts[i]
        if "mir" not in v:
            continue
        for k, w, c in panic_sites(v["mir"]):
            seen.setdefault((canon_fn(E, G.name[i]), k), []).append(w)
    R.floor(rule, "explicit panic sites reachable from the parser", len(seen), 8)
    guards = {}
    if os.environ.get("VERIF_DUMP_PANIC_COUNTS"):
        print("PANIC-COUNTS parser_panics " + _json.dumps({"%s|%s" % k_: len(set(v_)) for k_, v_ in seen.items()}))
    verdicts = judge_panic_sites(E, allowed, {k_: set(v_) for k_, v_ in seen.items()})
    for (fn, kind), where in sorted(seen.items()):
        a = allowed.get((fn, kind))
        label = "%s site" % kind
        st_, why_ = verdicts[(fn, kind)]
        if st_ == "moved":
            R.ok(rule, fn, label + " (moved)", why_, sorted(set(where))[0])
            continue
        if st_ == "grown":
            R.violation(rule, fn, label + " (more than reviewed)", "%s: a new explicit panic appeared in a reviewed parser function "
                        "(spec/parser_panics.json)" % why_, sorted(set(where))[-1])
            continue
        if not a:
            R.violation(rule, fn, label, "an explicit panic is reachable from the parser entry points and is not in the reviewed list "
                        "(spec/parser_panics.json): parsing must return an error, never panic", sorted(set(where))[0])
            continue
        g = a.get("guard")
        if g == "is_some-conjunct":
            ok, why = _is_some_conjunct_ok(E, fn)
            R.check(ok, rule, fn, label + " (reviewed, guard re-checked)", why, sorted(set(where))[0])
        elif g == "literal-types":
            if "lt" not in guards:
                guards["lt"] = _literal_types_ok(E)
            ok, why = guards["lt"]
            R.check(ok, rule, fn, label + " (reviewed, guard re-checked)", why, sorted(set(where))[0])
        else:
            R.ok(rule, fn, label + " (reviewed)", a["reason"], sorted(set(where))[0])
