"""C06 — every literal form denotes its documented value; malformed forms are rejected."""
import re
from lib import *
from sem import peel as sem_peel
import sem

LEVEL = "other"
EXPLANATION = ("Static rules over the literal lexers: every `{integer}::from_str_radix` call only ever yields a value "
               "for text that was validated digit-by-digit (provenance or dominating all-digits test); the "
               "prefix->radix table, the escape-character table, the hex-pair separator table and the fixed digit "
               "counts are extracted from the match arms and compared with the documented table; no narrowing or "
               "sign-changing integer cast exists in the lexers (indexes and hash counts go through checked "
               "conversions whose error edge is a parse error); range constructors are dominated by the "
               "ordered-bounds test and pair same-family addresses. Round-trip equality is not decided.")

DIGIT_PREDS = {"core::char::methods::{impl char}::is_ascii_hexdigit", "core::char::methods::{impl char}::is_ascii_digit",
               "core::char::methods::{impl char}::is_digit", "core::char::methods::{impl char}::is_ascii_octdigit"}


def closure_is_digit_pred(clo):
    """the closure body consists of a single call to a char digit predicate on its parameter"""
    if not clo:
        return False
    cs = [c for c in exprs(clo["body"], ("Call", "MethodCall"))]
    if len(cs) != 1:
        return False
    return norm(cs[0].get("callee", "")) in DIGIT_PREDS


def fn_returns_validated_digits(E, npath, seen=None):
    """function whose Ok result is the matched span of take_while with a digit predicate"""
    h = E.hir(npath)
    if not h:
        return False
    t = fn_result(h)
    if t.get("k") == "Call" and norm(t.get("callee", "")) == "lex::take_while":
        return closure_is_digit_pred(closure_of(t["args"][2]))
    return False


def all_digits_test(n, sname):
    """n contains `<sname>.chars().all(<digit pred>)` / `.bytes().all(..)`"""
    for c in exprs(n, "MethodCall"):
        if c["m"] != "all":
            continue
        root, ch = chain(c)
        ms = [x["m"] for x in ch]
        if local_name(root) == sname and ms in (["chars", "all"], ["bytes", "all"]) and \
                closure_is_digit_pred(closure_of(c["args"][0])):
            return True
    return False


def _try_inner(n):
    """look through `expr?` (Match with TryDesugar over Try::branch(expr))"""
    n = strip(n)
    if n.get("k") == "Match" and str(n.get("src", "")).startswith("TryDesugar"):
        s = strip(n["scrut"])
        if s.get("k") == "Call" and s.get("args"):
            return strip(s["args"][0])
    return n


def rule_digits(E, R, crates, floor=2):
    rule = "R06-digits"
    sites = []
    for C in crates:
        for hb in C.hir_list:
            if "body" not in hb:
                continue
            for c in calls(hb["body"], r"core::num::\{impl [iu](8|16|32|64|128|size)\}::from_str_radix$"):
                sites.append((C, hb, c))
    R.floor(rule, "from_str_radix call sites", len(sites), floor)
    for C, hb, c in sites:
        fn = norm(hb["path"])
        s = strip(c["args"][0])
        sname = local_name(s)
        label = "from_str_radix(%s, ..)" % (sname or "?")
        verdict = None
        why = ""
        body = hb["body"]
        # a constant text: fine if made of digits, or if only the *error* of the call is ever used
        lv = lit_value(s)
        if isinstance(lv, str):
            label = "from_str_radix(%r, ..)" % lv
            err_only = any(m["m"] in ("unwrap_err", "err", "expect_err") and strip(m["recv"]) is c
                           for m in exprs(body, "MethodCall"))
            if err_only:
                verdict, why = "ok", "constant text, only the error value of the call is used"
            elif lv and all(ch in "0123456789abcdefABCDEF" for ch in lv):
                verdict, why = "ok", "constant text made of digits"
        # (B) guarded Ok arms of a match on the call, or a dominating all-digits test
        parent_match = None
        for m in exprs(body, "Match"):
            if strip(m["scrut"]) is c:
                parent_match = m
        if sname and parent_match is not None:
            ok_arms = [a for a in parent_match["arms"] if pat_variant(a["pat"]) == "core::result::Result::Ok"]
            binds = [a for a in ok_arms if pat_bindings(a["pat"])]
            if binds and all("guard" in a and all_digits_test(a["guard"], sname) for a in binds):
                verdict, why = "ok", "the Ok value is used only under an all-digits guard on the same text"
        if verdict is None and sname:
            for n, st in walk_arms(body):
                if n is c:
                    for ent in st:
                        if ent[0] == "if" and ent[2] is True:
                            pass
            # if !all(..) { return Err } before the call, at function top level
            for i in exprs(body, "If", into_closures=False):
                cond = strip(i["cond"])
                if cond.get("k") == "Unary" and cond.get("op") == "Not" and all_digits_test(cond, sname) and \
                        list(exprs(i["then"], "Ret")) and "else" not in i:
                    verdict, why = "ok", "preceded by `if !text.chars().all(digit) { return Err }`"
                if all_digits_test(cond, sname) and cond.get("k") != "Unary":
                    inside = any(x is c for x in exprs(i["then"], ("Call",)))
                    if inside:
                        verdict, why = "ok", "inside `if text.chars().all(digit)`"
        # (A) provenance: parameter of a helper whose callers pass validated text
        if verdict is None and sname:
            params = pat_bindings({"k": "x", "params": hb.get("params", [])})
            rebound = any(sname in pat_bindings(st["pat"]) for st in exprs(hb["body"], "SLet"))
            if sname in params and not rebound:
                verdict, why = _callers_validate(E, R, rule, fn, hb, sname)
            else:
                verdict, why = _local_validated(E, hb, sname)
        if verdict == "ok":
            R.ok(rule, fn, label, why, c["sp"])
        elif verdict == "undecided":
            R.undecided(rule, fn, label, why, c["sp"])
        else:
            R.violation(rule, fn, label,
                        "text handed to from_str_radix is only length-checked (%s): a leading `+` is accepted as a sign, "
                        "so e.g. `+1` parses although it is not made of digits" % (why or "no digit validation found"), c["sp"])


def _local_validated(E, hb, sname):
    """the local is bound from the Ok tuple of take_while/digit-lexer (possibly via `?`)"""
    for st in exprs(hb["body"], "SLet"):
        if sname not in pat_bindings(st["pat"]) or "init" not in st:
            continue
        src = _try_inner(st["init"])
        if src.get("k") == "Call":
            cal = norm(src.get("callee", ""))
            if cal == "lex::take_while" and closure_is_digit_pred(closure_of(src["args"][2])):
                first = st["pat"].get("pats", [{}])[0] if st["pat"].get("k") == "PTuple" else {}
                if sname in pat_bindings(first):
                    return "ok", "matched span of take_while with a digit predicate"
            if fn_returns_validated_digits(E, cal):
                first = st["pat"].get("pats", [{}])[0] if st["pat"].get("k") == "PTuple" else {}
                if sname in pat_bindings(first):
                    return "ok", "matched span of %s" % cal
            if cal == "lex::take":
                return "violation", "`lex::take` checks the length only"
            return "violation", "bound from %s" % cal
    return "violation", ""


def _callers_validate(E, R, rule, fn, hb, sname):
    """`fn`'s parameter pattern contains sname; check every caller's corresponding argument"""
    # which parameter / tuple position
    pos = None
    for i, p in enumerate(hb.get("params", [])):
        if sname in pat_bindings(p):
            tup = None
            if p.get("k") == "PTuple":
                for j, q in enumerate(p["pats"]):
                    if sname in pat_bindings(q):
                        tup = j
            pos = (i, tup)
    if pos is None:
        return "undecided", "parameter position not found"
    callers = []
    for hc in E.hir_list:
        if "body" not in hc:
            continue
        for c in calls(hc["body"], "^" + re.escape(fn) + "$"):
            callers.append((hc, c))
    if not callers:
        return "undecided", "no callers of the helper found"
    whys = []
    for hc, c in callers:
        a = _try_inner(c["args"][pos[0]])
        if local_name(a) and pos[1] is not None:
            ini_ = a.get("_init") if a.get("k") == "Path" and "_init" in a else let_init(hc["body"], local_name(a))
            if ini_ is not None:
                a = _try_inner(ini_)
        good = False
        if pos[1] is not None:
            # tuple argument: either `digit_lexer(x)?` as a whole, or a literal tuple whose element is a span
            if a.get("k") == "Call" and fn_returns_validated_digits(E, norm(a.get("callee", ""))) and pos[1] == 0:
                good = True
                whys.append("%s(..)?" % last_seg(norm(a["callee"])))
            elif a.get("k") == "Tup":
                el = deref(a["es"][pos[1]])
                if local_name(el) and let_init(hc["body"], local_name(el)) is not None:
                    el = strip(let_init(hc["body"], local_name(el)))
                if el.get("k") == "Call" and norm(el.get("callee", "")) == "lex::span":
                    good, w = _span_validated(E, hc, el)
                    whys.append(w)
        else:
            nm = local_name(a)
            if nm:
                v, w = _local_validated(E, hc, nm)
                good = v == "ok"
                whys.append(w)
            elif a.get("k") == "Call" and norm(a.get("callee", "")) == "lex::span":
                good, w = _span_validated(E, hc, a)
                whys.append(w)
        if not good:
            return "violation", "caller %s passes unvalidated text" % norm(hc["path"])
    return "ok", "every caller passes digit-validated text: " + "; ".join(whys)


def _span_validated(E, hc, span_call):
    """span(input, rest): rest is the remainder returned by a digit lexer run on `input` or on `input` minus an
    optional `-` obtained from expect(input, "-")"""
    a0, a1 = local_name(span_call["args"][0]), local_name(span_call["args"][1])
    if not a0 or not a1:
        return False, ""
    for st in exprs(hc["body"], "SLet"):
        if a1 not in pat_bindings(st["pat"]) or "init" not in st:
            continue
        src = _try_inner(st["init"])
        if src.get("k") == "Call" and fn_returns_validated_digits(E, norm(src.get("callee", ""))):
            on = local_name(src["args"][0])
            if on == a0:
                return True, "span up to the end of a digit run"
            # `on` is input with an optional leading "-" removed
            for st2 in exprs(hc["body"], "SLet"):
                if on in pat_bindings(st2["pat"]) and "init" in st2:
                    m = strip(st2["init"])
                    sc = None
                    if m.get("k") == "Match":
                        # match expect(input, "-") { Ok(rest) => rest, Err(_) => input }
                        sc = strip(m["scrut"])
                        arms_ok = all((pat_variant(a_["pat"]) == "core::result::Result::Ok" and local_name(tail(a_["body"])) in pat_bindings(a_["pat"])) or
                                      (pat_variant(a_["pat"]) != "core::result::Result::Ok" and local_name(tail(a_["body"])) == a0)
                                      for a_ in m["arms"])
                        if not arms_ok:
                            sc = None
                    elif m.get("k") == "MethodCall" and m["m"] == "unwrap_or" and local_name(m["args"][0]) == a0:
                        # expect(input, "-").unwrap_or(input)
                        sc = strip(m["recv"])
                    if sc is not None and sc.get("k") == "Call" and norm(sc.get("callee", "")) == "lex::expect" and \
                            local_name(sc["args"][0]) == a0 and lit_value(sc["args"][1]) == "-":
                        return True, "optional `-` (expect) followed by a digit run"
    return False, "span bounds not derived from a digit lexer"


def _byte_notation(E, call):
    """(digits, radix) that a call of fixed_byte passes: two literals, or one constant of a struct with these two fields"""
    args = call["args"][1:]
    if len(args) == 2:
        return (lit_value(args[0]), lit_value(args[1]))
    if len(args) == 1:
        r = path_res(args[0]) or {}
        for c in E.hir_list:
            if "body" in c and c["path"] == r.get("path") and str(c.get("kind", "")).startswith(("Const", "AssocConst")):
                st = strip(c["body"])
                if st.get("k") == "Struct":
                    fl = {f["name"]: lit_value(f["e"]) for f in st["fields"]}
                    return (fl.get("digits"), fl.get("radix"))
    return None


def rule_radix(E, R):
    rule = "R06-radix"
    fn = "rhs_types::int::{impl lex::Lex for i64}::lex"
    h = E.hir(fn)
    if not h:
        R.cannot(rule, fn, "anchor not found")
    else:
        import sem
        S = sem.Sem(E, h, inline=False)

        def kind_of(atom):
            nodes = [v.node for v in (atom.scruts or [])] + ([atom.node] if atom.node is not None else [])
            lits = [lit_value(x) for n_ in nodes for x in exprs(S.resolve(n_, atom.frame).node, ("Lit", "Path"))]
            meths = [c_["m"] for n_ in nodes for c_ in exprs(S.resolve(n_, atom.frame).node, "MethodCall")]
            if "0x" in lits:
                return "0x"
            if "0" in lits and "starts_with" in meths:
                return "lead0"
            return "?"

        def desc_of(pc):
            out = []
            for atom, pol in sem.literals(pc)[0]:
                k_ = kind_of(atom)
                if k_ == "?":
                    continue
                # `is(expect(..); Ok)` true / `is(..; Err)` true are the two polarities of the same test
                if atom.kind == "is" and {sem.variant_head(y[0]) for y in atom.alts} == {"Result::Err"}:
                    pol = not pol
                if (k_, pol) not in out:
                    out.append((k_, pol))
            return tuple(out)
        got = {}
        neg_in = set()
        for x in S.sites():
            n = x.node
            if n.get("k") == "Call" and norm(n.get("callee", "")) == "rhs_types::int::parse_number":
                radix_ = [lit_value(a_) for a_ in n["args"] if isinstance(lit_value(a_), int)]
                got[radix_[-1] if radix_ else None] = desc_of(x.pc)
            if n.get("k") == "Call" and norm(n.get("callee", "")) == "lex::expect" and lit_value(n["args"][1]) == "-":
                neg_in.add(desc_of(x.pc))
        want = {16: (("0x", True),), 8: (("0x", False), ("lead0", True)), 10: (("0x", False), ("lead0", False))}
        R.check(got == want, rule, fn, "prefix -> radix table: 0x->16, leading 0->8, otherwise 10",
                "extracted %s" % got, h["span"])
        R.check(neg_in == {want[10]}, rule, fn, "a `-` sign is accepted on the decimal branch only",
                "found on %s" % sorted(neg_in), h["span"])
    for fn, digits, radix in (("rhs_types::bytes::hex_byte", 2, 16), ("rhs_types::bytes::oct_byte", 3, 8)):
        hh = E.hir(fn)
        if not hh:
            R.cannot(rule, fn, "anchor not found")
            continue
        cs = list(calls(hh["body"], r"^rhs_types::bytes::fixed_byte$"))
        got_ = _byte_notation(E, cs[0]) if len(cs) == 1 else None
        R.check(got_ == (digits, radix), rule, fn, "exactly %d digits of radix %d" % (digits, radix), "passes %s" % (got_,), hh["span"])
    # fixed_byte: take(input, digits) then radix passed through
    fb = E.hir("rhs_types::bytes::fixed_byte")
    if fb:
        tk = list(calls(fb["body"], r"^lex::take$"))
        fr = list(calls(fb["body"], r"from_str_radix$"))
        import sem
        Sf = sem.Sem(E, fb, inline=False)

        def from_param(n_, want_field):
            """the value is a parameter after the input (by position or, for a parameter struct, by field name)"""
            v_ = Sf.resolve(n_, Sf.root)
            b_ = v_.bind or Sf.lookup(v_.node, v_.frame)
            if b_ is not None and b_.kind == "param" and b_.index >= 1:
                return True
            if b_ is not None and b_.proj and b_.proj[-1][0] == "f" and b_.proj[-1][2] == want_field and b_.expr is not None:
                return (sem.param_index(Sf, b_.expr, b_.frame) or 0) >= 1
            n2 = strip(v_.node)
            return n2.get("k") == "Field" and n2.get("name") == want_field and (sem.param_index(Sf, n2["e"], v_.frame) or 0) >= 1
        good = len(tk) == 1 and from_param(tk[0]["args"][1], "digits") and fr and \
            all(from_param(c["args"][1], "radix") for c in fr if local_name(c["args"][0]))
        R.check(good, rule, "rhs_types::bytes::fixed_byte", "takes exactly `digits` characters and parses with `radix`",
                where=fb["span"])
    else:
        R.cannot(rule, "rhs_types::bytes::fixed_byte", "anchor not found")
    # escape table
    fn = "rhs_types::bytes::lex_quoted_string_as_vec"
    hq = E.hir(fn)
    if not hq:
        return R.cannot(rule, fn, "anchor not found")
    import C17
    import sem
    Sq = sem.Sem(E, hq)
    Sq.sites()
    # the escape match may live in a private helper of the same file (analysed inlined)
    bodies = [hq] + [E.hir(p_) for p_, _ in Sq.inlined if E.hir(p_) is not None]
    char_matches = [(hb_, m_) for hb_ in bodies for m_ in find_matches(hb_["body"], r"^char$")]
    esc = None
    for hb_, m in char_matches:
        arms = {}
        for a in m["arms"]:
            cs = C17.chars_of_pat(a["pat"])
            called = sorted({last_seg(norm(c.get("callee", ""))) for c in exprs(a["body"], "Call")
                             if norm(c.get("callee", "")).startswith("rhs_types::bytes::")})
            # what the arm appends, by role: a decoded byte (hex_byte / oct_byte), or the matched character itself (handed
            # to whatever private helper encodes it)
            if not set(called) & {"hex_byte", "oct_byte"} and called:
                cn_ = local_name(m["scrut"])
                uses_char = any(local_name(p_) == cn_ or local_name(p_) in pat_bindings(a["pat"]) for c in exprs(a["body"], "Call")
                                if norm(c.get("callee", "")).startswith("rhs_types::bytes::") for p_ in exprs(c, "Path"))
                appends = any(c["m"] in ("push", "extend", "extend_from_slice") for c in exprs(a["body"], "MethodCall")) or \
                    any("&mut alloc::vec::Vec<u8>" in norm(x.get("ty", "")) or "&mut alloc::vec::Vec<u8>" in norm(x.get("aty", ""))
                        for c in exprs(a["body"], "Call") for x in c.get("args", []))
                if uses_char and appends:
                    called = ["write_char"]
            rets = bool(explicit_err_returns(a["body"])) or norm(tail(a["body"]).get("callee", "")) == "core::result::Result::Err"
            key = "".join(sorted(cs)) if cs is not None else "_"
            arms[key] = (tuple(called), rets)
        if "x" in arms:
            esc = arms
    want = {'"\\': (("write_char",), False), "x": (("hex_byte",), False), "01234567": (("oct_byte",), False), "_": ((), True)}
    R.check(esc == want, rule, fn, "escape table is exactly \\\" \\\\ \\xHH \\OOO(0-7 first digit)", "extracted %s" % esc, hq["span"])
    # octal escape re-reads from the first digit (3 digits including the one already consumed)
    if esc is not None:
        ok = False
        for hb_, m in char_matches:
            for a in m["arms"]:
                if C17.chars_of_pat(a["pat"]) == set("01234567"):
                    for c in calls(a["body"], r"oct_byte$"):
                        # the argument is the rest of the text as it was *before* the first digit was consumed:
                        # `let rest = iter.as_str();` placed before the `iter.next()` that produced the matched char
                        an = local_name(c["args"][0])
                        cn = local_name(m["scrut"])
                        # (a) `let rest = iter.as_str();` placed before the `iter.next()` that produced the matched char
                        for blk in exprs(hb_["body"], "Block"):
                            st_ = blk.get("stmts", [])
                            ia = [i for i, x in enumerate(st_) if x.get("k") == "SLet" and x["pat"].get("name") == an and "init" in x and
                                  sem_peel(x["init"]).get("m") == "as_str"]
                            ic = [i for i, x in enumerate(st_) if x.get("k") == "SLet" and x["pat"].get("name") == cn and "init" in x and
                                  any(y["m"] == "next" for y in exprs_deep(x["init"], "MethodCall"))]
                            if an and cn and ia and ic and ia[0] < ic[0]:
                                ok = True
                        # (b) the matched char is the first one of `<arg>.chars()`: the argument still starts at that char
                        c_init = let_init(hb_["body"], cn) if cn else None
                        if an and c_init is not None:
                            nx = [y for y in exprs_deep(c_init, "MethodCall") if y["m"] == "next"]
                            it_init = let_init(hb_["body"], local_name(nx[0]["recv"])) if nx and local_name(nx[0]["recv"]) else None
                            if it_init is not None:
                                ii = sem_peel(it_init)
                                nexts = [y for y in exprs(hb_["body"], "MethodCall") if y["m"] in ("next", "nth", "skip", "next_back") and
                                         local_name(y["recv"]) == local_name(nx[0]["recv"])]
                                if ii.get("k") == "MethodCall" and ii["m"] == "chars" and local_name(ii["recv"]) == an and len(nexts) == 1:
                                    ok = True
        R.check(ok, rule, fn, "octal escape parses 3 digits starting at the first digit", where=hq["span"])
    # separators
    # the separator between hex pairs: the one-character test that the byte-string lexer (or the function it calls for
    # it: a Lex impl of a separator type, a private helper) applies - found as the match on a &str with literal arms
    fs = "rhs_types::bytes::lex_byte_string"
    hs = E.hir(fs)
    if hs:
        cands = [hs]
        for c in exprs(hs["body"], ("Call", "MethodCall")):
            for key in ("resolved_dp", "callee_dp"):
                hb_ = E.hir_by_dp.get(c.get(key)) if c.get(key) else None
                if hb_ is not None and "body" in hb_ and norm(hb_["path"]).split("::")[:2] == ["rhs_types", "bytes"] or \
                        (hb_ is not None and "body" in hb_ and "rhs_types::bytes::" in norm(hb_["path"])):
                    if all(hb_ is not x for x in cands):
                        cands.append(hb_)
                    break
        tables = []
        for hb_ in cands:
            for m in find_matches(hb_["body"], r"^&str$"):
                seps = set()
                for a in m["arms"]:
                    if sem.ctor_head(tail(a["body"])) == "Result::Err" or sem.diverges(a["body"]):
                        continue
                    for alt in sem.pat_alts(a["pat"]):
                        for c_ in alt:
                            if isinstance(c_, str) and c_.startswith("lit:"):
                                seps.add(c_)
                            elif c_ == "_":
                                seps.add("<anything>")
                if seps:
                    tables.append((norm(hb_["path"]), seps))
        want = {"lit:':'", "lit:'-'", "lit:'.'"}
        R.check(len(tables) == 1 and tables[0][1] == want, rule, fs, "hex-pair separators are exactly : - .",
                "extracted %s" % [(p_, sorted(t_)) for p_, t_ in tables], hs["span"])
    else:
        R.cannot(rule, fs, "anchor not found")


_W = {"i8": (8, True), "i16": (16, True), "i32": (32, True), "i64": (64, True), "i128": (128, True), "isize": (64, True),
      "u8": (8, False), "u16": (16, False), "u32": (32, False), "u64": (64, False), "u128": (128, False), "usize": (64, False),
      "bool": (1, False), "char": (32, False)}


def lossy_int_cast(frm, to):
    if frm not in _W or to not in _W:
        return False
    fb, fs = _W[frm]
    tb, ts = _W[to]
    if tb < fb:
        return True
    if fs and not ts:
        return True  # negative values wrap
    if not fs and ts and tb == fb:
        return True
    return False


LEXER_SCOPE = re.compile(r"^(lex::|rhs_types::|scheme::.impl lex::Lex|<(rhs_types::|i64|scheme::FieldIndex|types::Rhs)[^>]* as lex::Lex(With<[^>]*>)?>::lex|types::lex_|types::Rhs)")


def rule_narrow(C, R, scope=LEXER_SCOPE, rule="R06-narrow"):
    n_fn = 0
    n_cast = 0
    for m in C.mir_list:
        p = norm(m["path"])
        if not scope.search(p):
            continue
        n_fn += 1
        for bl in m["blocks"]:
            for s in bl["stmts"]:
                if s["k"] == "Assign" and s["rv"]["k"] == "Cast" and "IntToInt" in s["rv"]["ck"] and not s.get("x"):
                    n_cast += 1
                    frm, to = s["rv"]["from"], s["rv"]["to"]
                    if lossy_int_cast(frm, to):
                        R.violation(rule, p, "cast %s as %s" % (frm, to),
                                    "a narrowing / sign-changing `as` in a literal lexer silently wraps out-of-range input", s.get("sp", ""))
                    else:
                        R.ok(rule, p, "cast %s as %s" % (frm, to), where=s.get("sp", ""))
    return n_fn, n_cast


def rule_checked_conversions(E, R):
    rule = "R06-narrow"
    # index: u32::try_from(i) with Err -> Err
    fn = "<scheme::FieldIndex as lex::Lex>::lex"
    h = E.hir(fn)
    if not h:
        R.cannot(rule, fn, "anchor not found")
    else:
        import sem
        S = sem.Sem(E, h, inline=False)
        leaves = {id(strip(x.node)) for x in S.result_leaves()}

        def failure_propagates(call):
            """the Err of a fallible conversion stays an Err of this function: matched with an Err arm that yields Err, or
            carried through map / map_err / and_then to a returned value or a `?`"""
            outer = call
            for mc in exprs(h["body"], "MethodCall"):
                root_, ch_ = chain(mc)
                if root_ is call and all(c_["m"] in ("map", "map_err", "and_then") for c_ in ch_) and len(ch_) > len(chain(outer)[1] if outer is not call else []):
                    outer = mc
            if id(outer) in leaves:
                return True
            # `let Ok(x) = conv(..) else { return Err(..) };`
            for st_ in exprs(h["body"], "SLet"):
                if "els" in st_ and "init" in st_ and deref(st_["init"]) is outer and pat_variant(st_["pat"]) == "core::result::Result::Ok":
                    return bool(explicit_err_returns(st_["els"]))
            for m_ in exprs(h["body"], "Match"):
                if sem.is_try(m_) and sem.peel(sem.try_inner(m_)) is outer:
                    return True
                if not sem.is_try(m_) and deref(m_["scrut"]) is outer:
                    err_arm = [a_ for a_ in m_["arms"] if pat_variant(a_["pat"]) == "core::result::Result::Err"]
                    return bool(err_arm) and (norm(tail(err_arm[0]["body"]).get("callee", "")) == "core::result::Result::Err" or
                                              bool(explicit_err_returns(err_arm[0]["body"])))
            return False
        conv_u32 = [c for c in exprs(h["body"], "Call") if norm(c.get("callee", "")) == "core::convert::TryFrom::try_from" and
                    c.get("ty", "").startswith("core::result::Result<u32")]
        conv_utf = [c for c in exprs(h["body"], "Call") if norm(c.get("callee", "")).endswith("string::String::from_utf8")]
        ok = len(conv_u32) == 1 and failure_propagates(conv_u32[0])
        utf = len(conv_utf) == 1 and failure_propagates(conv_utf[0])
        R.check(ok, rule, fn, "array index converted with u32::try_from, out-of-range -> error", where=h["span"])
        R.check(utf, rule, fn, "map key converted with String::from_utf8, invalid UTF-8 -> error", where=h["span"])
        unchecked = list(calls(h["body"], r"from_utf8_unchecked|from_utf8_lossy"))
        R.check(not unchecked, rule, fn, "no unchecked/lossy UTF-8 conversion of keys", where=h["span"])
    fn = "rhs_types::bytes::lex_raw_string_as_str"
    h = E.hir(fn)
    if not h:
        R.cannot(rule, fn, "anchor not found")
    else:
        ok = False
        for st in exprs(h["body"], "SLet"):
            if st["pat"].get("k") == "PBinding" and "init" in st and st["pat"].get("ty") == "u8":
                src = _try_inner(st["init"])
                root, ch = chain(src)
                ms = [x["m"] for x in ch]
                # (the counted value may itself be the end of a chain: only what follows try_into matters)
                ok = "try_into" in ms and "map_err" in ms[ms.index("try_into"):] and src is not strip(st["init"]) and \
                    all(m_ in ("map_err",) for m_ in ms[ms.index("try_into") + 1:])
                # the same checked conversion with the failure handled by a match / let-else that returns the error
                i0 = strip(st["init"])
                if not ok and i0.get("k") == "Match" and not sem.is_try(i0):
                    sc_ = deref(i0["scrut"])
                    errs_ = [a_ for a_ in i0["arms"] if pat_variant(a_["pat"]) == "core::result::Result::Err" or a_["pat"].get("k") == "PWild"]
                    ok = sc_.get("k") == "MethodCall" and sc_["m"] == "try_into" and bool(errs_) and \
                        all(bool(explicit_err_returns(a_["body"])) for a_ in errs_)
            if "els" in st and "init" in st and st["pat"].get("ty", "").endswith("u8>") is False:
                pass
        R.check(ok, rule, fn, "hash count converted with try_into::<u8>()?, more than 255 -> error", where=h["span"])


def _le_between(S, pc, a, fa, b, fb):
    """the path condition certainly contains `a <= b`"""
    for op, l, r, fr, certain in sem.weak_cmps(pc):
        if certain and op == "Le" and S.same(l, fr, a, fa) and S.same(r, fr, b, fb):
            return True
    return False


def _range_args(n):
    """(start, end) expressions of a `a..=b` value (RangeInclusive::new call or struct literal)"""
    n = strip(n)
    if n.get("k") == "Call" and len(n.get("args", [])) == 2 and "RangeInclusive" in norm(n.get("ty", "")):
        return n["args"][0], n["args"][1]
    if n.get("k") == "Struct" and "RangeInclusive" in norm(n["res"].get("path", "") + n.get("ty", "")):
        f = {x["name"]: x["e"] for x in n["fields"]}
        if "start" in f and "end" in f:
            return f["start"], f["end"]
    return None


def rule_range(E, R):
    rule = "R06-range"
    fn = "<rhs_types::int::IntRange as lex::Lex>::lex"
    h = E.hir(fn)
    if not h:
        R.cannot(rule, fn, "anchor not found")
    else:
        S = sem.Sem(E, h)
        rng = [x for x in S.sites() if x.node.get("k") in ("Struct", "Call") and "RangeInclusive<i64>" in norm(x.node.get("ty", "")) and _range_args(x.node)]
        guard = bool(rng)
        good = bool(rng)
        for x in rng:
            a_, b_ = _range_args(x.node)
            guard = guard and _le_between(S, x.pc, a_, x.frame, b_, x.frame)
            ba, bb = sem.provenance(S, a_, x.frame), sem.provenance(S, b_, x.frame)
            la = [y for y in S.sites() if y.node.get("k") == "Call" and norm(y.node.get("callee", "")).endswith("Lex::lex") and
                  norm(y.node.get("ty", "")).startswith("core::result::Result<(i64,")]
            first_lex = [l_ for l_ in la if sem.passes_through(S, a_, x.frame, l_.node)]
            # the end is a different value (a second literal, or the start again for a single number)
            good = good and bool(first_lex) and first_lex[0] is la[0] and S.lookup(sem.peel(a_), x.frame) is not S.lookup(sem.peel(b_), x.frame)
        R.check(guard, rule, fn, "reversed integer range rejected before construction (`last < first` -> Err)",
                "the range must be built only where its start <= its end is known", h["span"])
        R.check(good, rule, fn, "range built as first..=last", where=h["span"])
    fn = "<rhs_types::ip::IpRange as lex::Lex>::lex"
    h = E.hir(fn)
    if not h:
        return R.cannot(rule, fn, "anchor not found")
    S = sem.Sem(E, h)
    UA = sem.enum_universe(E, "core::net::ip_addr::IpAddr") or ["IpAddr::V4", "IpAddr::V6"]
    pA = lambda v: norm(v.node.get("ty", "")).replace("&", "").strip() == "core::net::ip_addr::IpAddr"
    found = 0
    fams = {}
    for x in S.sites():
        n = x.node
        if n.get("k") == "Call" and n.get("callee_kind", "").startswith("Ctor") and "ExplicitIpRange::" in norm(n.get("callee", "")):
            found += 1
            fam = last_seg(norm(n["callee"]))
            ra = _range_args(n["args"][0]) if n.get("args") else None
            adm = set()
            for a_, pol in sem.is_literals(x.pc):
                if pol and len(a_.scruts) == 2 and all(pA(v) for v in a_.scruts):
                    adm = {tuple(last_seg(sem.variant_head(c)) for c in alt) for alt in a_.alts}
            ordered = bool(ra) and _le_between(S, x.pc, ra[0], x.frame, ra[1], x.frame)
            fams[fam] = (sorted(adm), ordered)
    want = {"V4": ([("V4", "V4")], True), "V6": ([("V6", "V6")], True)}
    errs = [x for x in S.sites() if x.node.get("k") == "Path" and (def_path(x.node) or "").endswith("LexErrorKind::IncompatibleRangeBounds")]
    if found:
        R.check(fams == want and bool(errs), rule, fn, "explicit IP range: same family, first <= last, everything else rejected",
                "extracted %s, IncompatibleRangeBounds sites: %d" % (fams, len(errs)), h["span"])
    R.floor(rule, "explicit IP range match", found, 2)
    # CIDR parsed by the cidr crate (host bits rejected there): the error is propagated
    cs = [x for x in S.sites() if x.node.get("k") in ("Call", "MethodCall") and
          re.search(r"IpCidr.*from_str$|FromStr>::from_str$|FromStr::from_str$", norm(x.node.get("resolved") or x.node.get("callee") or ""))]
    ctor = [x for x in S.sites() if x.node.get("k") == "Call" and norm(x.node.get("callee", "")).endswith("IpRange::Cidr")]
    prop = False
    for c in cs:
        for x in ctor:
            if sem.passes_through(S, x.node["args"][0], x.frame, c.node):
                ms = sem.provenance(S, x.node["args"][0], x.frame)[3]
                swallow = [m_ for m_ in ms if m_ in ("unwrap", "expect", "unwrap_or", "unwrap_or_default", "unwrap_or_else", "ok", "unwrap_unchecked")]
                prop = not swallow
    R.check(prop, rule, fn, "CIDR parse error (host bits set, bad length) is propagated as a parse error", where=h["span"])


def run(F, R, tier):
    E = F.engine
    rule_digits(E, R, [E])
    rule_radix(E, R)
    n_fn, n_cast = rule_narrow(E, R)
    R.floor("R06-narrow", "literal-lexer functions scanned for casts", n_fn, 40)
    R.analysed["lexer_functions_scanned_for_casts"] = n_fn
    R.analysed["int_casts_in_lexers"] = n_cast
    rule_checked_conversions(E, R)
    rule_range(E, R)
    R.not_decided += ["render->parse round trip of values", "exact number of characters consumed by each literal",
                      "the cidr crate's host-bit and prefix-length checks (dependency)",
                      "the raw-string delimiter scan arithmetic"]
    R.assumptions += ["core::{integer}::from_str_radix accepts an optional sign followed by digits of the radix",
                      "char::is_digit/is_ascii_hexdigit/is_ascii_digit are exact digit predicates"]
