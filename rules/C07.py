"""C07 — the AST and its JSON are a canonical image of filter structure (table clauses)."""
from lib import *
import common

LEVEL = "other"
EXPLANATION = ("Decided: the alias table (every spelling of an operator maps to the same unit variant, so nothing of "
               "the spelling can be stored), the inter-token whitespace set, that operator enums have only unit "
               "variants, Eq=>Hash for every hand-written Hash (fields hashed are a subset of fields compared), "
               "that the operator names reaching JSON are pairwise distinct and one per variant, that fields "
               "excluded from JSON are excluded from (or irrelevant to) equality, that same-operator chains are "
               "flattened by the parser, and that the C-API hash feeds exactly the JSON bytes to the hasher. That "
               "the JSON *is* the canonical document of an arbitrary tree, and FNV arithmetic, are not decided.")

OP_ENUMS = ["ast::logical_expr::LogicalOp", "ast::logical_expr::UnaryOp", "ast::logical_expr::QuantifierOp",
            "ast::field_expr::OrderingOp", "ast::field_expr::IntOp", "ast::field_expr::BytesOp"]


def rule_space(E, R):
    rule = "R07-space"
    c = [x for x in E.hir_list if "body" in x and norm(x["path"]) == "lex::SPACE_CHARS"]
    if not c:
        return R.cannot(rule, "lex::SPACE_CHARS", "constant not found")
    vals = sorted(v for v in (lit_value(x) for x in exprs(c[0]["body"], "Lit")) if isinstance(v, str))
    R.check(vals == sorted([" ", "\r", "\n"]), rule, "lex::SPACE_CHARS", "whitespace between tokens is exactly space, CR, LF", repr(vals), c[0]["span"])
    h = E.hir("lex::skip_space")
    if h:
        t = fn_result(h)
        ok = t.get("k") == "MethodCall" and t["m"] == "trim_start_matches" and is_param(t["recv"], h, 0) and \
            (def_path(t["args"][0]) or "").endswith("SPACE_CHARS")
        R.check(ok, rule, "lex::skip_space", "skip_space trims exactly that set from the front", where=h["span"])
    else:
        R.cannot(rule, "lex::skip_space", "anchor not found")


def rule_unit(E, R):
    rule = "R07-unit"
    for p in OP_ENUMS:
        a = E.adt(p)
        if not a:
            R.cannot(rule, p, "enum not found")
            continue
        ok = all(not v["fields"] for v in a["variants"])
        R.check(ok, rule, p, "only unit variants: an alias spelling has nowhere to be stored", where=a["span"])
    # text-bearing fields of AST nodes (census, informational): names, decoded literals and patterns only
    text = []
    # the AST proper: every ADT reachable through field types from the two root nodes
    reach = set()
    todo = ["ast::FilterAst", "ast::FilterValueAst"]
    while todo:
        q = todo.pop()
        if q in reach or q not in E.adts:
            continue
        reach.add(q)
        for v in E.adts[q]["variants"]:
            for f in v["fields"]:
                todo += [x for x in f.get("adts", []) if x not in reach]
    R.floor(rule, "ADTs reachable from FilterAst / FilterValueAst", len(reach), 15)
    for p, a in E.adts.items():
        if not (p.startswith("ast::") and "::tests::" not in p and p in reach):
            continue
        for v in a["variants"]:
            for f in v["fields"]:
                t = norm(f["ty"])
                if t in ("alloc::string::String", "alloc::boxed::Box<str>", "&str") or t.startswith("&str"):
                    text.append("%s::%s.%s: %s" % (p, v["name"], f["name"], t))
    R.analysed["text_fields_in_ast_nodes"] = text
    allowed = {"ast::parse::ParseError::ParseError.input: &str"}
    R.check(set(text) <= allowed, rule, "ast::*", "no AST node stores source text (spelling/whitespace cannot leak into the AST)", str(text))


HASH_TYPES = ["ast::function_expr::FunctionCallExpr", "rhs_types::bytes::BytesExpr", "rhs_types::regex::imp_real::Regex",
              "rhs_types::wildcard::Wildcard", "scheme::Scheme", "lhs_types::array::Array", "lhs_types::map::Map",
              "lhs_types::array::InnerArray", "lhs_types::map::InnerMap", "lhs_types::bytes::Bytes"]


def _self_tokens(body, selfname="self"):
    toks = set()
    for f in exprs(body, "Field"):
        if local_name(f["e"]) == selfname:
            toks.add("." + f["name"])
    for c in exprs(body, "MethodCall"):
        if local_name(c["recv"]) == selfname:
            toks.add(c["m"] + "()")
    for u in exprs(body, "Unary"):
        if u.get("op") == "Deref" and "Deref" in norm(u.get("callee", "")):
            inner = u["e"]
            while inner.get("k") in ("Unary", "AddrOf", "Use") and "callee" not in inner:
                inner = inner["e"]
            if local_name(inner) == selfname:
                toks.add("deref()")
    return toks


def rule_eqhash(E, R):
    rule = "R07-eqhash"
    n = 0
    for imp in E.impls:
        if imp.get("trait") != "core::hash::Hash" or imp["derived"]:
            continue
        adt = imp.get("self_adt")
        if not adt or "::tests::" in adt:
            continue
        hh = [it for it in imp["items"] if it["name"] == "hash"]
        if not hh:
            continue
        hb = E.hir_by_dp.get(hh[0]["dp"])
        if not hb or "body" not in hb:
            continue
        n += 1
        htoks = _self_tokens(hb["body"])
        eqs = [i for i in E.impls if i.get("trait") == "core::cmp::PartialEq" and i.get("self_adt") == adt and
               norm(i.get("trait_ref", "")).count(last_seg(adt)) >= 1 and "PartialEq<" not in norm(i.get("trait_ref", "")).replace("PartialEq<%s" % norm(imp["self_ty"]), "")]
        eqs = [i for i in E.impls if i.get("trait") == "core::cmp::PartialEq" and i.get("self_adt") == adt]
        same = [i for i in eqs if norm(i.get("trait_ref", "")).endswith("core::cmp::PartialEq") or
                ("PartialEq<" + norm(i["self_ty"])) in norm(i.get("trait_ref", ""))]
        if not same:
            same = eqs[:1]
        if not same:
            R.note("%s has a Hash impl but no PartialEq of its own (hashed only as part of its owner)" % adt)
            continue
        eq = same[0]
        if eq["derived"]:
            a = E.adt(adt)
            etoks = {"." + f["name"] for v in a["variants"] for f in v["fields"]} if a else set()
            etoks.add("<all fields>")
            ok = True
        else:
            eb = None
            for it in eq["items"]:
                if it["name"] == "eq":
                    eb = E.hir_by_dp.get(it["dp"])
            etoks = _self_tokens(eb["body"]) if eb and "body" in eb else set()
            ok = {t for t in htoks if t.startswith(".")} <= etoks and {t for t in htoks if t.endswith("()")} <= (etoks | {"as_str()", "get_type()", "as_ref()", "deref()"}) \
                and (not any(t.endswith("()") for t in htoks) or any(t.endswith("()") for t in etoks) or any(t.startswith(".") for t in etoks))
            # methods: the same accessor must be used on both sides, or eq must read the fields behind it
            hm = {t for t in htoks if t.endswith("()")}
            em = {t for t in etoks if t.endswith("()")}
            if hm and not hm <= em:
                # get_type() reads val_type: accept when eq reads .val_type
                ok = ok and all((t == "get_type()" and ".val_type" in etoks) for t in hm - em)
        R.check(ok, rule, adt, "fields hashed are a subset of fields compared (equal values hash equally)",
                "hash reads %s, eq reads %s" % (sorted(htoks), sorted(etoks)), imp["span"])
    R.floor(rule, "hand-written Hash impls", n, 9)


def derived_ser_fields(h):
    """[(json key, struct field)] emitted by a derived Serialize impl body"""
    out = []
    for c in exprs(h["body"], ("Call", "MethodCall")):
        cal = norm(c.get("callee", ""))
        if cal.endswith("::serialize_field") or cal.endswith("::serialize_entry"):
            args = call_args(c)
            key = None
            fld = None
            for a in args:
                v = lit_value(a)
                if isinstance(v, str) and key is None:
                    key = v
                for f in exprs(a, "Field"):
                    if local_name(f["e"]) == "self":
                        fld = f["name"]
            if key is not None:
                out.append((key, fld))
    return out


def rule_opnames(E, R):
    rule = "R07-opnames"
    names = {}
    # helpers calling serialize_op_rhs("Name", ..)
    for hb in E.hir_list:
        if "body" not in hb:
            continue
        for c in exprs(hb["body"], "Call"):
            if norm(c.get("callee", "")) == "ast::field_expr::serialize_op_rhs":
                v = lit_value(c["args"][0])
                if isinstance(v, str):
                    names.setdefault(v, []).append(norm(hb["path"]))
    hi = E.hir("ast::field_expr::serialize_is_true")
    if hi:
        ks = [lit_value(a) for c in exprs(hi["body"], ("Call", "MethodCall")) if norm(c.get("callee", "")).endswith("serialize_field") for a in call_args(c)]
        ks = [k for k in ks if isinstance(k, str) and k != "op"]
        for k in ks:
            names.setdefault(k, []).append("ast::field_expr::serialize_is_true")
    for p in ("ast::field_expr::OrderingOp", "ast::field_expr::IntOp"):
        a = E.adt(p)
        for v in (a["variants"] if a else []):
            names.setdefault(v["name"], []).append(p)
    dup = {k: v for k, v in names.items() if len(v) > 1}
    R.check(not dup, rule, "ast::field_expr::ComparisonOpExpr", "operator names written to the `op` key are pairwise distinct",
            "ambiguous: %s" % dup)
    want_helpers = {"Contains", "Matches", "Wildcard", "Strict Wildcard", "OneOf", "ContainsOneOf", "InList", "IsTrue"}
    R.check(want_helpers <= set(names), rule, "ast::field_expr::ComparisonOpExpr", "every comparison kind has its documented name",
            "missing %s" % sorted(want_helpers - set(names)))
    a = E.adt("ast::field_expr::ComparisonOpExpr")
    if a:
        nvar = len(a["variants"])
        R.check(nvar == 10 and len(names) == 8 + 6 + 1, rule, "ast::field_expr::ComparisonOpExpr",
                "one name per variant (8 named kinds + 6 ordering operators + 1 integer operator for 10 variants)", "%d variants, %d names" % (nvar, len(names)))
    # serialize_op_rhs writes op then rhs
    hs = E.hir("ast::field_expr::serialize_op_rhs")
    if hs:
        ks = []
        for c in exprs(hs["body"], ("Call", "MethodCall")):
            if norm(c.get("callee", "")).endswith("serialize_field"):
                ks += [lit_value(a) for a in call_args(c) if isinstance(lit_value(a), str)]
        R.check(ks == ["op", "rhs"], rule, "ast::field_expr::serialize_op_rhs", "emits {op, rhs}", str(ks), hs["span"])
    # logical / quantifier / unary operator names are the derived variant names (distinct by construction)
    for p in ("ast::logical_expr::LogicalOp", "ast::logical_expr::UnaryOp", "ast::logical_expr::QuantifierOp"):
        der = [i for i in E.impls if i.get("self_adt") == p and i.get("trait") == "serde_core::ser::Serialize"]
        R.check(len(der) == 1 and der[0]["derived"], rule, p, "serialized by its derived variant name", str([(i["path"], i["derived"]) for i in der]))


def rule_skip(E, R):
    rule = "R07-skip"
    # FunctionCallExpr: JSON {name: function, args} == fields compared by eq/hash
    hs = E.hirs(r"\{impl serde_core::ser::Serialize for ast::function_expr::FunctionCallExpr\}::serialize$")
    eq = E.hir("<ast::function_expr::FunctionCallExpr as core::cmp::PartialEq>::eq")
    if len(hs) == 1 and eq:
        ser = derived_ser_fields(hs[0])
        sf = {f for _, f in ser}
        ef = {t[1:] for t in _self_tokens(eq["body"]) if t.startswith(".")}
        R.check(sf == ef == {"function", "args"}, rule, "ast::function_expr::FunctionCallExpr",
                "the fields written to JSON are exactly the fields compared (context excluded from both)", "json %s, eq %s" % (sorted(ser), sorted(ef)))
        R.check(dict(ser).get("name") == "function", rule, "ast::function_expr::FunctionCallExpr", "the function is written under `name`", str(ser))
    else:
        R.cannot(rule, "FunctionCallExpr Serialize/PartialEq", "anchors not found")
    # FilterAst / FilterValueAst: transparent over `op`
    for ty in ("ast::FilterAst", "ast::FilterValueAst"):
        hs = E.hirs(r"\{impl serde_core::ser::Serialize for %s\}::serialize$" % re.escape(ty))
        if len(hs) != 1:
            R.cannot(rule, ty, "derived Serialize not found")
            continue
        flds = {f["name"] for f in exprs(hs[0]["body"], "Field") if local_name(f["e"]) == "self"}
        R.check(flds == {"op"}, rule, ty, "serializes exactly its expression (scheme is not part of the JSON)", str(sorted(flds)))
    # comparison expr: lhs + flattened op
    hs = E.hirs(r"\{impl serde_core::ser::Serialize for ast::field_expr::ComparisonExpr\}::serialize$")
    if len(hs) == 1:
        flds = {f["name"] for f in exprs(hs[0]["body"], "Field") if local_name(f["e"]) == "self"}
        R.check(flds == {"lhs", "op"}, rule, "ast::field_expr::ComparisonExpr", "serializes both of its fields", str(sorted(flds)))


def rule_paren(E, R):
    rule = "R07-paren"
    fn = "ast::logical_expr::LogicalExpr::lex_more_with_precedence"
    h = E.hir(fn)
    if not h:
        return R.cannot(rule, fn, "anchor not found")
    # the chain-building match: exactly {same-operator Combining -> push, anything else -> new Combining [lhs, rhs]}
    target = None
    for m in exprs(h["body"], "Match", into_closures=False):
        vs = [pat_variants(a["pat"]) for a in m["arms"]]
        if any(v and v[0].endswith("LogicalExpr::Combining") for v in vs) and any(
                s_ for a in m["arms"] for s_ in exprs(a["body"], "Struct") if norm(s_["res"].get("path", "")).endswith("LogicalExpr::Combining")):
            target = m
    if target is None:
        return R.cannot(rule, fn, "chain-building match not found")
    kinds = []
    for a in target["arms"]:
        v = pat_variants(a["pat"])
        nested = [pat_variant(q) for q in walk(a["pat"]) if q is not a["pat"] and q.get("k") in ("PStruct", "PTupleStruct")]
        nested = [x for x in nested if x and "LogicalExpr::" in x or (x and "ParenthesizedExpr" in x)]
        kinds.append((last_seg(v[0]) if v else "_", "guard" in a, [last_seg(x) for x in nested]))
    want = [("Combining", True, []), ("_", False, [])]
    R.check(kinds == want, rule, fn, "operands are merged into a chain only when the left operand *is* a same-operator chain",
            "arms %s: any other merging arm (e.g. looking through parentheses) erases structure from the AST and its JSON" % kinds, target["sp"])
    # no parser function takes a parenthesised / unary / quantifier node apart again
    n = 0
    for hb in E.hir_list:
        if "body" not in hb:
            continue
        p_ = norm(hb["path"])
        if not re.search(r"::lex_|::lex$|lex_with", p_) or "::tests::" in p_:
            continue
        for q in walk(hb["body"]):
            if q.get("k") in ("PStruct", "PTupleStruct", "PBox"):
                v = pat_variant(q) or ""
                if v.endswith("LogicalExpr::Parenthesized") or v.endswith("logical_expr::ParenthesizedExpr"):
                    n += 1
                    R.violation(rule, p_, "the parser destructures a parenthesised node", "parentheses must stay visible as nesting", hb["span"])
    R.check(n == 0, rule, "parser", "no lexing function looks inside an already built parenthesised node")


def rule_hashwrite(F, R):
    rule = "R07-hashwrite"
    X = F.ffi
    hw = X.hir("<HasherWrite<H> as std::io::Write>::write_all")
    if hw:
        cs = [c for c in exprs(hw["body"], "MethodCall") if c["m"] == "write" and "Hasher" in norm(c.get("callee", ""))]
        ok = len(cs) == 1 and is_param(cs[0]["args"][0], hw, 1) and strip(cs[0]["recv"]).get("name") == "0"
        R.check(ok, rule, norm(hw["path"]), "every byte written is fed to the hasher", where=hw["span"])
    else:
        R.cannot(rule, "HasherWrite::write_all", "anchor not found")
    h2 = X.hir("<HasherWrite<H> as std::io::Write>::write")
    if h2:
        wa = [c for c in exprs(h2["body"], "MethodCall") if c["m"] == "write_all" and is_param(c["args"][0], h2, 1)]
        t = fn_result(h2)
        ok = len(wa) == 1 and norm(t.get("callee", "")) == "core::result::Result::Ok" and strip(t["args"][0]).get("m") == "len" and \
            is_param(strip(t["args"][0])["recv"], h2, 1)
        R.check(ok, rule, norm(h2["path"]), "write() hashes the whole buffer and reports its full length", where=h2["span"])
    hf = X.hir("wirefilter_get_filter_hash")
    if hf:
        import sem
        Sh = sem.Sem(X, hf)
        tws = [x for x in Sh.sites() if x.node.get("k") == "Call" and norm(x.node.get("callee", "")) == "serde_json::ser::to_writer"]
        tw = [x.node for x in tws]

        def owner(node, frame, limit=12):
            """the local that owns the hasher an expression denotes: through &mut, one-field wrappers, fields, method
            receivers, helper arguments and plain re-bindings"""
            while limit > 0:
                limit -= 1
                n = sem.peel(node)
                k = n.get("k")
                if k == "Call" and str(n.get("callee_kind", "")).startswith("Ctor") and len(n.get("args", [])) == 1:
                    node = n["args"][0]
                elif k in ("Field", "Index", "Cast"):
                    node = n["e"]
                elif k == "MethodCall":
                    node = n["recv"]
                elif k == "Unary" and n.get("op") == "Deref":
                    node = n["e"]
                else:
                    b_ = Sh.lookup(n, frame)
                    if b_ is None:
                        return None
                    e_ = sem.peel(b_.expr) if b_.expr is not None else None
                    if e_ is not None and (b_.kind == "arg" or (not b_.assigns and (e_.get("k") == "Path" or (
                            e_.get("k") == "Call" and str(e_.get("callee_kind", "")).startswith("Ctor") and len(e_.get("args", [])) == 1)))):
                        node, frame = b_.expr, b_.frame
                        continue
                    return b_
            return None
        wb = owner(tw[0]["args"][0], tws[0].frame) if tw else None
        ok = len(tw) == 1 and "HasherWrite<" in norm(tw[0]["args"][0].get("ty", "")) and wb is not None and \
            sem.param_index(Sh, tw[0]["args"][1], tws[0].frame) == 0
        R.check(ok, rule, "wirefilter_get_filter_hash", "the hash is computed over the filter's JSON serialization",
                "writer type %s" % (norm(tw[0]["args"][0].get("ty", "")) if tw else None), hf["span"])
        # the digest returned is that of the hasher the JSON was written to (read directly or through a private accessor)
        fin = [x for x in Sh.sites() if x.node.get("k") == "MethodCall" and x.node["m"] == "finish" and
               ("hash::Hasher::finish" in norm(x.node.get("callee", "")) or "hash::Hasher>::finish" in norm(x.node.get("resolved") or "")) and wb is not None and
               owner(x.node["recv"], x.frame) is wb]
        R.check(len(fin) == 1, rule, "wirefilter_get_filter_hash", "returns the hasher's digest", "%d finish() calls on the written hasher" % len(fin), hf["span"])


def run(F, R, tier):
    E = F.engine
    common.rule_alias(E, R, rule="R07-alias")
    rule_space(E, R)
    rule_unit(E, R)
    rule_eqhash(E, R)
    rule_opnames(E, R)
    rule_skip(E, R)
    rule_paren(E, R)
    rule_hashwrite(F, R)
    # flattening
    import C01
    sub = Report()
    C01.rule_prec(E, sub)
    for r in sub.results:
        if "flattened" in r.label:
            r.rule = "R07-flatten"
            R.results.append(r)
    R.not_decided += ["that the JSON is the canonical document of an arbitrary tree (derived serializers, serde_json)",
                      "FNV arithmetic; byte-exact JSON text", "decoded literal values (see C06)"]
