"""C08 — execution contexts are typed field maps bound to one scheme."""
from lib import *
import sem
import common

LEVEL = "other"
EXPLANATION = ("An inductive invariant over all writers: every function that constructs an ExecutionContext or writes "
               "its `values`/`list_matchers` is enumerated from the HIR and must fit an accepted writer pattern "
               "(all-None construction, whole-slice move/clone, None stores, or a store under a dominating full "
               "`Type == Type` test of *that* value against the field's declared type, after the scheme-identity "
               "test); Filter/FilterValue::execute call the compiled closure only under `ctx.scheme() == "
               "self.scheme`; Scheme equality is Arc pointer identity; every site where a value enters an "
               "Array/Map storage is typed (IntoValue), guarded by a type comparison, or an identity copy of the "
               "same container; the borrow guard takes exactly the fields its Drop restores; clear() empties all. "
               "Since the invariant holds after each operation it holds after every history.")

CTX = "execution_context::ExecutionContext"
MUT_METHODS = {"replace", "insert", "push", "swap", "take", "iter_mut", "as_mut", "clear", "truncate", "fill", "get_mut",
               "last_mut", "first_mut", "as_mut_slice", "sort", "reverse", "rotate_left", "rotate_right", "copy_from_slice",
               "clone_from", "clone_from_slice", "get_unchecked_mut", "split_at_mut", "iter_mut", "set"}


def _touches_field(n, field):
    return any(f.get("name") == field and CTX in norm(f["e"].get("ty", "")) for f in exprs(n, "Field"))


def ctx_writers(E):
    """{fn: [descriptions]} of every function that writes ExecutionContext.values / list_matchers or builds a context"""
    out = {}
    for hb in E.hir_list:
        if "body" not in hb:
            continue
        fn = norm(hb["path"])
        if "::tests::" in fn:
            continue
        ds = []
        for s in exprs(hb["body"], "Struct"):
            if norm(s["res"].get("path", "")) == CTX and not s.get("x"):
                ds.append(("literal", s))
        for a in exprs(hb["body"], ("Assign", "AssignOp")):
            for fld in ("values", "list_matchers", "scheme"):
                if _touches_field(a["l"], fld):
                    ds.append(("assign:" + fld, a))
        for c in exprs(hb["body"], "MethodCall"):
            if c["m"] in MUT_METHODS:
                for fld in ("values", "list_matchers"):
                    if _touches_field(c["recv"], fld):
                        ds.append(("%s:%s" % (c["m"], fld), c))
        for c in exprs(hb["body"], "Call"):
            cal = norm(c.get("callee", ""))
            if cal in ("core::mem::take", "core::mem::replace", "core::mem::swap"):
                for fld in ("values", "list_matchers", "scheme"):
                    if any(_touches_field(a, fld) for a in c["args"]):
                        ds.append(("mem::%s:%s" % (last_seg(cal), fld), c))
        for ad in exprs(hb["body"], "AddrOf"):
            if ad.get("mut"):
                e = strip(ad["e"])
                if e.get("k") == "Field" and e.get("name") in ("values", "list_matchers") and CTX in norm(e["e"].get("ty", "")):
                    ds.append(("&mut:" + e["name"], ad))
        if ds:
            out[fn] = ds
    return out


def _all_none_init(e):
    """`vec![None; n].into()`"""
    for c in exprs_deep(e, ("Call", "MethodCall")):
        cal = norm(c.get("callee", ""))
        if cal.endswith("vec::from_elem"):
            return def_path(c["args"][0]) == "core::option::Option::None"
    return False


def rule_writers(E, R):
    rule = "R08-writers"
    W = ctx_writers(E)
    R.floor(rule, "functions writing an execution context", len(W), 7)
    new_with = CTX + "::new_with"
    take_with = CTX + "::take_with"
    clone_with = CTX + "::clone_with"
    clear = CTX + "::clear"
    setv = CTX + "::set_field_value"
    setn = CTX + "::set_field_value_from_name"
    gnew = "execution_context::ExecutionContextGuard::new"
    gdrop = "<execution_context::ExecutionContextGuard<U, T> as core::ops::drop::Drop>::drop"
    for fn, ds in sorted(W.items()):
        kinds = sorted({k for k, _ in ds})
        node = ds[0][1]
        where = node.get("sp", "")

        def fields(lit):
            return {f["name"]: f["e"] for f in lit["fields"]}
        if fn == new_with:
            f = fields(ds[0][1])
            ok = kinds == ["literal"] and _all_none_init(f["values"])
            R.check(ok, rule, fn, "constructs a context whose every slot is None", str(kinds), where)
        elif fn == take_with:
            f = fields(ds[0][1])
            ok = kinds == ["literal"] and root_is_field(f["values"], "self", "values") and chain(f["values"])[1] == [] and \
                root_is_field(f["list_matchers"], "self", "list_matchers") and root_is_field(f["scheme"], "self", "scheme")
            R.check(ok, rule, fn, "moves values, matchers and scheme of the same context", str(kinds), where)
        elif fn == clone_with:
            f = fields(ds[0][1])
            ok = kinds == ["literal"] and all(root_is_field(f[k], "self", k) and [x["m"] for x in chain(f[k])[1]] == ["clone"]
                                              for k in ("values", "list_matchers", "scheme"))
            R.check(ok, rule, fn, "clones values, matchers and scheme of the same context", str(kinds), where)
        elif fn == clear:
            R.check(set(kinds) <= {"iter_mut:values", "iter_mut:list_matchers"}, rule, fn, "only resets slots / clears matchers (see R08-clear)", str(kinds), where)
        elif fn in (setv, setn):
            R.check(kinds == ["replace:values"], rule, fn, "single guarded store (see R08-setguard)", str(kinds), where)
        elif fn == gnew:
            ok = {k for k in kinds if not k.startswith("&mut:")} == {"literal", "mem::take:values", "mem::take:list_matchers"}
            R.check(ok, rule, fn, "moves values and matchers out of the borrowed context into the temporary one", str(kinds), where)
        elif fn == gdrop:
            ok = {k for k in kinds if not k.startswith("&mut:")} == {"assign:values", "assign:list_matchers", "mem::take:values", "mem::take:list_matchers"}
            R.check(ok, rule, fn, "moves values and matchers back", str(kinds), where)
        elif "ExecutionContextVisitor" in fn:
            R.check(set(kinds) <= {"&mut:list_matchers"}, rule, fn,
                    "the deserializer lends out the matcher table only (values go through the checked setter)", str(kinds), where)
        elif fn.endswith("get_list_matcher_mut") or fn.endswith("get_list_matcher_mut_from_type"):
            R.ok(rule, fn, "hands out a matcher by registration index", where=where, nontrivial=False)
        elif set(kinds) <= {"replace:values", "take:values", "insert:values", "&mut:values", "assign:values"} and \
                not any(k == "assign:values" and not strip(n_["l"]).get("k") == "Index" and local_name(strip(n_["l"])) is None for k, n_ in ds if k == "assign:values"):
            R.ok(rule, fn, "writes single slots only (each write is checked by R08-setguard)", str(kinds), where)
        else:
            R.violation(rule, fn, "unreviewed writer of ExecutionContext state: %s" % kinds,
                        "every writer of `values`/`list_matchers` must keep the invariant "
                        "`values[i]` is None or has exactly the type of field i", where)


def _type_eq_guard(cond):
    """cond is `a == b` on full `types::Type` values: returns (left, right) or None"""
    c = strip(cond)
    if c.get("k") == "Binary" and c["op"] == "Eq" and norm(c["l"].get("ty", "")) == "types::Type" and norm(c["r"].get("ty", "")) == "types::Type" \
            and norm(c.get("callee", "core::cmp::PartialEq::eq")) == "core::cmp::PartialEq::eq":
        return c["l"], c["r"]
    return None


def _bound_from_get_type(body, name, of):
    """local `name` is bound from `<of>.get_type()`"""
    for st in exprs(body, "SLet"):
        if st["pat"].get("name") == name and "init" in st:
            i = strip(st["init"])
            if i.get("k") == "MethodCall" and i["m"] == "get_type" and local_name(i["recv"]) == of:
                return True
    return False


def _derives_get_type(body, e, of_names):
    """expression e is `<x>.get_type()` with x in of_names, or a local bound from such a call"""
    e = strip(e)
    if e.get("k") == "MethodCall" and e["m"] == "get_type" and local_name(e["recv"]) in of_names:
        return True
    nm = local_name(e)
    if nm:
        for st in exprs(body, "SLet"):
            if st["pat"].get("name") == nm and "init" in st:
                i = strip(st["init"])
                if i.get("k") == "MethodCall" and i["m"] == "get_type" and local_name(i["recv"]) in of_names:
                    return True
    return False


def _slot_sites(hb):
    """mutations of one slot of ExecutionContext.values in this body:
    [(kind 'store'|'remove', node, stored value expr or None)] — through `self.values[i]` directly or through a local
    bound to `&mut self.values[i]`"""
    body = hb["body"]
    aliases = set()
    for st in exprs(body, "SLet"):
        if st["pat"].get("k") == "PBinding" and "init" in st:
            i = st["init"]
            while i.get("k") in ("Use", "Type"):
                i = i["e"]
            if i.get("k") == "AddrOf" and i.get("mut"):
                inner = strip(i["e"])
                if inner.get("k") == "Index" and _touches_field(inner["e"], "values"):
                    aliases.add(st["pat"]["name"])

    def is_slot(n):
        n0 = strip(n)
        if n0.get("k") == "Index" and _touches_field(n0["e"], "values"):
            return True
        return local_name(n0) in aliases
    out = []
    for c in exprs(body, "MethodCall"):
        if not is_slot(c["recv"]):
            continue
        if c["m"] in ("replace", "insert", "get_or_insert", "get_or_insert_with"):
            out.append(("store", c, c["args"][0] if c.get("args") else None))
        elif c["m"] in ("take",):
            out.append(("remove", c, None))
    for a in exprs(body, "Assign"):
        if is_slot(a["l"]):
            r = strip(a["r"])
            if def_path(r) == "core::option::Option::None":
                out.append(("remove", a, None))
            elif r.get("k") == "Call" and norm(r.get("callee", "")) == "core::option::Option::Some":
                out.append(("store", a, r["args"][0]))
            else:
                out.append(("store", a, a["r"]))
    for c in exprs(body, "Call"):
        cal = norm(c.get("callee", ""))
        if cal in ("core::mem::replace", "core::mem::take", "core::mem::swap") and c.get("args") and is_slot(c["args"][0]):
            if cal.endswith("take"):
                out.append(("remove", c, None))
            else:
                out.append(("store", c, c["args"][1] if len(c["args"]) > 1 else None))
    return out


def _enclosing_type_guard(body, site, value_names, field_type_ok):
    """site is inside the then-branch of `if A == B` on full Types where one side is value.get_type() and the other a
    field type accepted by field_type_ok(expr)"""
    for n, st in walk_arms(body):
        if n is site:
            for ent in st:
                if ent[0] == "if" and ent[2] is True:
                    iff = [i for i in exprs(body, "If") if id(i) == ent[1]]
                    g = _type_eq_guard(iff[0]["cond"]) if iff else None
                    if g:
                        for x, y in ((g[0], g[1]), (g[1], g[0])):
                            if _derives_get_type(body, x, value_names) and field_type_ok(y):
                                return True
    return False


def _slot_index_expr(hb, node):
    """the index expression `i` of the `values[i]` slot a slot-site node writes (directly or through a `&mut values[i]` local)"""
    recv = node.get("recv") or node.get("l") or (node.get("args") or [{}])[0]
    ix = [i for i in exprs(recv, "Index")]
    if ix:
        return ix[0]["idx"]
    nm = local_name(strip(recv))
    if nm:
        ini = let_init(hb["body"], nm)
        if ini is not None:
            ix = [i for i in exprs(ini, "Index")]
            if ix:
                return ix[0]["idx"]
    return None


def rule_setguard(E, R):
    rule = "R08-setguard"
    setters = {CTX + "::set_field_value": True, CTX + "::set_field_value_from_name": False}
    holders = {}
    for hb in E.hir_list:
        if "body" not in hb:
            continue
        fn = norm(hb["path"])
        if "::tests::" in fn:
            continue
        ss = _slot_sites(hb)
        if ss:
            holders[fn] = (hb, ss)
    covered = set()
    n_store = 0
    for fn, with_scheme in setters.items():
        h = E.hir(fn)
        if not h:
            R.cannot(rule, fn, "anchor not found")
            continue
        S = sem.Sem(E, h)
        S.sites()
        mine = {fn} | {p_ for p_, _ in S.inlined}
        covered |= mine
        found_store = False
        for hf in sorted(mine):
            if hf not in holders:
                continue
            hb, ss = holders[hf]
            for kind, node, val in ss:
                for x in [y for y in S.sites() if y.node is node]:
                    where = node.get("sp", "")
                    idx = _slot_index_expr(hb, node)
                    frecv = None
                    if idx is not None:
                        rv_ = S.resolve(idx, x.frame)
                        frecv = sem.is_method(rv_.node, "index")
                        ix_frame = rv_.frame
                    idx_ok = frecv is not None and re.search(r"scheme::(FieldRef|Field)$", norm(sem.peel(frecv).get("ty", "")).replace("&", ""))
                    R.check(bool(idx_ok), rule, fn, "the slot written is the field's own index", where=where)
                    if not idx_ok:
                        continue

                    def gt_of(n_, fr_, what, wf):
                        r_ = sem.is_method(S.resolve(n_, fr_).node, "get_type")
                        return r_ is not None and S.same(r_, S.resolve(n_, fr_).frame, what, wf)
                    typed = False
                    for op, l, r, fr, certain in sem.weak_cmps(x.pc):
                        if not certain or op != "Eq":
                            continue
                        for a_, b_ in ((l, r), (r, l)):
                            if gt_of(a_, fr, frecv, ix_frame) and (kind != "store" or val is None or gt_of(b_, fr, val, x.frame)):
                                typed = True
                    if kind == "store":
                        n_store += 1
                        found_store = True
                        R.check(typed, rule, fn, "a value is stored only under `field type == value.get_type()` on that value",
                                "a weaker or missing test lets an ill-typed value into the context", where)
                        if node.get("k") == "MethodCall" and node["m"] == "replace" and hf == fn:
                            ok_ret = any(norm(l_.node.get("callee", "")) == "core::result::Result::Ok" and strip(l_.node["args"][0]) is node
                                         for l_ in S.result_leaves() if l_.node.get("k") == "Call")
                            R.check(ok_ret, rule, fn, "returns the previously stored value (the result of replace)", where=where)
                    else:
                        R.check(typed, rule, fn, "a slot is emptied only after the type check succeeded",
                                "the previous value is taken out before (or regardless of) the type check: a rejected set erases the "
                                "stored value instead of leaving the context unchanged", where)
                    if with_scheme:
                        same_scheme = False
                        for op, l, r, fr, certain in sem.weak_cmps(x.pc):
                            if not certain or op != "Eq":
                                continue
                            for a_, b_ in ((l, r), (r, l)):
                                an = strip(S.resolve(a_, fr).node)
                                own = an.get("k") == "Field" and an.get("name") == "scheme" and sem.param_index(S, an["e"], fr) == 0
                                sr = sem.is_method(S.resolve(b_, fr).node, "scheme")
                                if own and sr is not None and S.same(sr, fr, frecv, ix_frame):
                                    same_scheme = True
                        R.check(same_scheme, rule, fn, "a field of another scheme is rejected before anything is written", where=where)
                    else:
                        _, ch_ = chain(S.resolve(frecv, ix_frame).node)
                        gf = ch_[0] if ch_ and all(c_["m"] in ("map_err", "ok_or", "ok_or_else") for c_ in ch_[1:]) else {}
                        ok = gf.get("k") == "MethodCall" and norm(gf.get("callee", "")) == "scheme::Scheme::get_field" and \
                            strip(gf["recv"]).get("k") == "Field" and strip(gf["recv"]).get("name") == "scheme" and \
                            sem.param_index(S, strip(gf["recv"])["e"], S.root) == 0 and sem.param_index(S, gf["args"][0], S.root) == 1
                        R.check(ok, rule, fn, "the field is resolved in the context's own scheme", where=where)
        R.check(found_store, rule, fn, "the setter performs the (guarded) store", "no store reached from this setter", h["span"])
    for fn in sorted(set(holders) - covered):
        for kind, node, val in holders[fn][1]:
            R.violation(rule, fn, "context slot written outside the setters",
                        "a slot of ExecutionContext.values is written by a function that is neither a setter nor a private helper inlined "
                        "into one: the type and scheme checks of the setters do not cover it", node.get("sp", ""))
    R.floor(rule, "guarded value stores", n_store, 1)
    for adt in ("types::Type", "types::CompoundType", "types::PrimitiveType"):
        der = [i for i in E.impls if i.get("self_adt") == adt and i.get("trait") == "core::cmp::PartialEq"]
        R.check(len(der) == 1 and der[0]["derived"], rule, adt, "PartialEq is derived (compares the full nested type)",
                str([(i["path"], i["derived"]) for i in der]))


def rule_execguard(E, R):
    rule = "R08-execguard"
    for fn in ("filter::Filter::execute", "filter::FilterValue::execute"):
        h = E.hir(fn)
        if not h:
            R.cannot(rule, fn, "anchor not found")
            continue
        S = sem.Sem(E, h)
        ex = [x for x in S.sites() if x.node.get("k") == "MethodCall" and x.node["m"] == "execute" and root_is_field(x.node["recv"], "self", "root_expr")]
        R.floor(rule, "root_expr.execute calls in " + fn, len(ex), 1)
        for x in ex:
            guarded = False
            for op, l, r, fr, certain in sem.weak_cmps(x.pc):
                if not certain or op != "Eq":
                    continue
                for a_, b_ in ((l, r), (r, l)):
                    sr = sem.is_method(S.resolve(a_, fr).node, "scheme")
                    bn = strip(S.resolve(b_, fr).node)
                    if sr is not None and sem.param_index(S, sr, fr) == 1 and sem.param_index(S, x.node["args"][0], x.frame) == 1 and \
                            bn.get("k") == "Field" and bn.get("name") == "scheme" and sem.param_index(S, bn["e"], fr) == 0:
                        guarded = True
            R.check(guarded, rule, fn, "the compiled closure runs only under `ctx.scheme() == self.scheme`", where=x.node["sp"])
        errs = [x for x in S.result_leaves() if norm(x.node.get("callee", "")) == "core::result::Result::Err" or
                (def_path(x.node) or "").endswith("Result::Err")]
        R.check(len(errs) >= 1, rule, fn, "otherwise a scheme-mismatch error is returned", where=h["span"])


def rule_schemeeq(E, R, rule="R08-schemeeq"):
    fn = "<scheme::Scheme as core::cmp::PartialEq>::eq"
    h = E.hir(fn)
    if not h:
        return R.cannot(rule, fn, "anchor not found")
    t = fn_result(h)
    ok = t.get("k") == "Call" and norm(t.get("callee", "")) == "alloc::sync::Arc::ptr_eq" and \
        root_is_field(t["args"][0], "self", "inner") and root_is_field(t["args"][1], param_name(h, 1), "inner")
    R.check(ok, rule, fn, "schemes are equal iff they share the same allocation (Arc::ptr_eq)",
            "structural equality would make two separately built, identical schemes interchangeable", h["span"])
    fh = "<scheme::Scheme as core::hash::Hash>::hash"
    hh = E.hir(fh)
    if hh:
        ok = any(norm(c.get("callee", "")) == "alloc::sync::Arc::as_ptr" for c in exprs(hh["body"], "Call"))
        R.check(ok, rule, fh, "hash is the pointer (consistent with eq)", where=hh["span"])
    cl = [i for i in E.impls if i.get("self_adt") == "scheme::Scheme" and i.get("trait") == "core::clone::Clone"]
    R.check(len(cl) == 1 and cl[0]["derived"], rule, "scheme::Scheme", "Clone is derived (clones the Arc: a clone is the same scheme)")


STORE_METHODS = {"push", "insert", "extend", "extend_from_slice", "append", "or_insert", "or_insert_with", "collect", "resize", "splice"}
IDENTITY_FNS = re.compile(r"::(as_ref|into_owned|into_vec|clone|to_vec|into_iter|as_array|as_map)$")


def _closure_or_fn_kind(arg):
    """classify a `.map(arg)` transformer: typed / identity / guarded / unknown"""
    clo = closure_of(arg)
    if clo:
        cs = [norm(c.get("callee", "")) for c in exprs(clo["body"], ("Call", "MethodCall"))]
        if any(c.endswith("IntoValue::into_value") for c in cs):
            return "typed"
        if any(explicit_type_check(i) for i in exprs(clo["body"], "If")):
            return "guarded"
        if all(c.endswith(("LhsValue::into_owned", "LhsValue::as_ref", "clone", "into_owned", "to_owned", "as_ref", "into", "into_boxed_slice", "to_vec"))
               for c in cs) and cs:
            return "identity"
        return "unknown"
    d = def_path(arg) or ""
    if d.endswith("IntoValue::into_value"):
        return "typed"
    if d.endswith(("LhsValue::into_owned", "LhsValue::as_ref")):
        return "identity"
    return "unknown" if d else "none"


def explicit_type_check(iff, body=None):
    """`if val_type != elem_type {Err/return Err}` or `if !(a.get_type() == b) { panic }` (assert!)"""
    c = strip(iff["cond"])
    neg = False
    if c.get("k") == "Unary" and c.get("op") == "Not":
        c = strip(c["e"])
        neg = True
    if c.get("k") != "Binary" or c["op"] not in ("Ne", "Eq"):
        return False
    tys = {norm(c["l"].get("ty", "")), norm(c["r"].get("ty", ""))}
    if not tys <= {"types::Type", "types::CompoundType"}:
        return False
    # one side is the type of the element (derived from get_type()), the other the container's declared element type
    def from_get_type(e):
        if any(x["m"] == "get_type" for x in exprs(e, "MethodCall")):
            return True
        if body is not None:
            for p in exprs(e, "Path"):
                nm = local_name(p)
                ini = let_init(body, nm) if nm else None
                if ini is not None and any(x["m"] == "get_type" for x in exprs(ini, "MethodCall")):
                    return True
        return False
    gl, gr = from_get_type(c["l"]), from_get_type(c["r"])
    if body is not None and gl == gr:
        return False
    if body is None and gl and gr:
        return False
    mismatch_branch = iff["then"] if (c["op"] == "Ne") != neg else iff.get("else", {})
    if not mismatch_branch:
        return False
    rejects = bool(explicit_err_returns(mismatch_branch)) or \
        norm(tail(mismatch_branch).get("callee", "")) == "core::result::Result::Err" or \
        any(norm(x.get("callee", "")).startswith("core::panicking") for x in exprs(mismatch_branch, "Call"))
    return rejects


def _type_cmp_holds(Sx, pc):
    """the path condition says that an element's type (something derived from get_type()) equals a declared type"""
    for op, l, r, fr, certain in sem.weak_cmps(pc):
        tys = {norm(strip(l).get("ty", "")).lstrip("&"), norm(strip(r).get("ty", "")).lstrip("&")}

        def from_gt(n_, fr_):
            if any(y["m"] == "get_type" for y in exprs(n_, "MethodCall")):
                return True
            return any(b_.expr is not None and any(y["m"] == "get_type" for y in exprs(b_.expr, "MethodCall"))
                       for b_ in sem.locals_in(Sx, n_, fr_))
        if certain and op == "Eq" and tys <= {"types::Type", "types::CompoundType"} and from_gt(l, fr) != from_gt(r, fr):
            return True
    return False


def _closure_guarded(E, hb, arg):
    """every `Ok(..)` the producing closure (or a closure nested in it) hands on is built under a successful type comparison"""
    clo = closure_of(arg)
    if not clo:
        return False
    Sx = _sem_of(E, hb)
    oks = [x for x in Sx.sites() if sem.within(x, clo) and x.node.get("k") == "Call" and norm(x.node.get("callee", "")) == "core::result::Result::Ok"]
    return bool(oks) and all(_type_cmp_holds(Sx, x.pc) for x in oks)


_SEM_CACHE = {}


def _sem_of(E, hb):
    k = (id(E), hb["dp"])
    if k not in _SEM_CACHE:
        _SEM_CACHE[k] = sem.Sem(E, hb)
    return _SEM_CACHE[k]


def rule_elems(E, R):
    rule = "R08-elems"
    n = 0
    for hb in E.hir_list:
        if "body" not in hb:
            continue
        fn = norm(hb["path"])
        if "::tests::" in fn:
            continue
        body = hb["body"]
        sites = []
        for c in exprs(body, "MethodCall"):
            if c["m"] not in STORE_METHODS:
                continue
            rt = norm(c["recv"].get("ty", ""))
            ty = norm(c.get("ty", ""))
            if c["m"] == "collect":
                if not (("Vec<types::LhsValue>" in ty) or ("BTreeMap<" in ty and "types::LhsValue" in ty)):
                    continue
            elif "types::LhsValue" not in rt or not ("Vec<" in rt or "BTreeMap<" in rt or "Entry<" in rt):
                continue
            sites.append(c)
        for a in exprs(body, "Assign"):
            l = strip(a["l"])
            if l.get("k") == "Index" and norm(a["l"].get("ty", "")) == "types::LhsValue":
                sites.append(a)
        if not sites:
            continue
        in_lhs = fn.startswith("lhs_types::") or "lhs_types::" in fn
        typed_impl = bool(re.search(r"lhs_types::(array::TypedArray|map::TypedMap)", fn))
        for c in sites:
            n += 1
            label = "%s of LhsValue storage" % (c.get("m") or "index-assign")
            where = c.get("sp", "")
            if not in_lhs:
                # storages outside lhs_types are plain vectors of values (e.g. concat's accumulator), not container innards,
                # unless they end up in an Array/Map via a checked constructor: report only direct `.data` writes
                continue
            verdict = None
            # A typed
            if typed_impl or re.search(r"FromIterator<V>>::from_iter$|FromIterator<\(alloc::boxed::Box<\[u8\]>, V\)>>::from_iter$", fn):
                srcs = [norm(x.get("callee", "")) for x in exprs_deep(c, ("Call", "MethodCall"))] + \
                       [def_path(p) or "" for p in exprs_deep(c, "Path")]
                if any(s.endswith("IntoValue::into_value") for s in srcs):
                    verdict = ("typed", "value produced by IntoValue::into_value of the wrapper's element type")
            # C identity
            if verdict is None and IDENTITY_FNS.search(fn):
                root, ch = chain(c) if c.get("k") == "MethodCall" else ({}, [])
                kinds = [_closure_or_fn_kind(x["args"][0]) for x in ch if x["m"] == "map" and x.get("args")]
                if all(k in ("identity",) for k in kinds):
                    verdict = ("identity", "copy of the same container's elements")
            # B guarded
            if verdict is None:
                pre = preceding_stmts(body, c) or []
                if any(explicit_type_check(i, body) for st in pre for i in exprs(st, "If", into_closures=False)):
                    verdict = ("guarded", "preceded by a type comparison that rejects a mismatch")
                if verdict is None:
                    # the same through the path condition: a type comparison (possibly inside a private helper used with
                    # `?`) is known to have succeeded where the value is stored
                    Sx = _sem_of(E, hb)
                    for x in Sx.sites():
                        if x.node is not c:
                            continue
                        for op, l, r, fr, certain in sem.weak_cmps(x.pc):
                            tys = {norm(strip(l).get("ty", "")).lstrip("&"), norm(strip(r).get("ty", "")).lstrip("&")}
                            def from_gt(n_, fr_):
                                if any(y["m"] == "get_type" for y in exprs(n_, "MethodCall")):
                                    return True
                                return any(b_.expr is not None and any(y["m"] == "get_type" for y in exprs(b_.expr, "MethodCall"))
                                           for b_ in sem.locals_in(Sx, n_, fr_))
                            gl, gr = from_gt(l, fr), from_gt(r, fr)
                            if certain and op == "Eq" and tys <= {"types::Type", "types::CompoundType"} and gl != gr:
                                verdict = ("guarded", "a type comparison is known to have succeeded on the path to the store")
                if verdict is None and c.get("k") == "MethodCall" and c["m"] == "collect":
                    root, ch = chain(c)
                    kinds = [("guarded" if _closure_guarded(E, hb, x["args"][0]) else _closure_or_fn_kind(x["args"][0]))
                             for x in ch if x["m"] == "map" and x.get("args")]
                    if "guarded" in kinds:
                        verdict = ("guarded", "elements pass a type comparison inside the producing closure")
                    elif kinds and all(k == "typed" for k in kinds):
                        verdict = ("typed", "elements produced by IntoValue::into_value")
            # try_from_vec style: whole-vector check before the literal is handled by the literal rule below
            if verdict:
                R.ok(rule, fn, label + ": " + verdict[0], verdict[1], where)
            else:
                R.violation(rule, fn, label + ": unchecked",
                            "a value enters an Array/Map storage without a type comparison, a typed wrapper or an identity copy", where)
    R.floor(rule, "element store sites", n, 15)
    # literals of Array / Map: val_type must travel with data
    lit_n = 0
    for hb in E.hir_list:
        if "body" not in hb:
            continue
        fn = norm(hb["path"])
        if "::tests::" in fn:
            continue
        for s in exprs(hb["body"], "Struct"):
            d = norm(s["res"].get("path", ""))
            if d not in ("lhs_types::array::Array", "lhs_types::map::Map") or s.get("x"):
                continue
            lit_n += 1
            in_mod = fn.startswith("lhs_types::") or "lhs_types::" in fn
            R.check(in_mod, rule, fn, "%s literal inside its defining module" % last_seg(d),
                    "containers may only be assembled next to the code that checks their elements", s["sp"])
            f = {x["name"]: x["e"] for x in s["fields"]}
            vt = f.get("val_type", {})
            vts = strip(vt)
            if fn.endswith("::try_from_vec"):
                S = sem.Sem(E, hb)
                site = [x for x in S.sites() if x.node is s]
                adopted = sem.provenance(S, f.get("data", {}), S.root)[0] if f.get("data") else None
                ok = False
                if site and adopted is not None:
                    for b_, ms, test, fr in sem.whole_collection_checks(S, site[0].pc):
                        if b_ is not adopted or chain_verdict([{"m": x} for x in ms], terminal_ok=()) != "ok":
                            continue
                        if test[0] == "formula":
                            cmps = [(op, l, r) for op, l, r, _, _ in sem.weak_cmps(((test[1], True),))]
                        else:
                            cmps = [(x["op"], x["l"], x["r"]) for x in exprs(test[1], "Binary") if x["op"] in ("Eq", "Ne")]
                        for op, l, r in cmps:
                            tys = {norm(l.get("ty", "")).lstrip("&"), norm(r.get("ty", "")).lstrip("&")}
                            if tys <= {"types::Type", "types::CompoundType"} and op in ("Eq", "Ne"):
                                ok = True
                R.check(ok, rule, fn, "every element of the adopted vector is compared with val_type (loop over the whole vector)",
                        "checking only some elements lets a heterogeneous array be built", s["sp"])
    R.floor(rule, "Array/Map literals", lit_n, 10)
    # writes to `.data` from outside lhs_types
    for hb in E.hir_list:
        if "body" not in hb:
            continue
        fn = norm(hb["path"])
        if fn.startswith("lhs_types::") or "lhs_types::" in fn or "::tests::" in fn:
            continue
        for a in exprs(hb["body"], ("Assign", "AssignOp")):
            for f in exprs(a["l"], "Field"):
                if f.get("name") == "data" and re.search(r"lhs_types::(array::Array|map::Map)", norm(f["e"].get("ty", ""))):
                    R.violation(rule, fn, "writes Array/Map.data from outside lhs_types", where=a["sp"])


def rule_guardpair(E, R):
    rule = "R08-guardpair"
    W = ctx_writers(E)
    gnew = "execution_context::ExecutionContextGuard::new"
    gdrop = "<execution_context::ExecutionContextGuard<U, T> as core::ops::drop::Drop>::drop"
    taken = {k.split(":")[-1] for k, _ in W.get(gnew, []) if k.startswith("mem::take")}
    restored = {k.split(":")[-1] for k, _ in W.get(gdrop, []) if k.startswith("assign")}
    R.check(taken == restored == {"values", "list_matchers"}, rule, gnew + " <-> Drop",
            "the guard's Drop restores exactly the fields that new() took", "taken %s restored %s" % (sorted(taken), sorted(restored)))
    h = E.hir(gdrop)
    if h:
        for a in exprs(h["body"], "Assign"):
            l, r = strip(a["l"]), strip(a["r"])
            fld = l.get("name")
            ok = l.get("k") == "Field" and root_is_field(l, "self", "old") or (l.get("k") == "Field" and strip(l["e"]).get("name") == "old")
            src_ok = any(f.get("name") == fld and strip(f["e"]).get("name") == "new" for f in exprs(r, "Field"))
            R.check(bool(ok) and src_ok, rule, gdrop, "old.%s = take(new.%s)" % (fld, fld), where=a["sp"])
    # DerefMut gives access to the temporary context only
    hd = E.hir("<execution_context::ExecutionContextGuard<U, T> as core::ops::deref::DerefMut>::deref_mut")
    if hd:
        t = fn_result(hd)
        R.check(t.get("k") == "Field" and t.get("name") == "new", rule, norm(hd["path"]), "writes through the guard go to the temporary context", where=hd["span"])


def run(F, R, tier):
    E = F.engine
    import witness
    witness.report(R, "W08", "W08")
    rule_writers(E, R)
    rule_setguard(E, R)
    rule_execguard(E, R)
    rule_schemeeq(E, R)
    rule_elems(E, R)
    rule_guardpair(E, R)
    common.rule_clear(E, R)
    R.not_decided += ["mem::forget of a borrow guard (outside the property)", "user data U carried by the context"]
    R.assumptions += ["field privacy (checked by rustc; see the compile_fail witnesses of the thorough tier)"]
