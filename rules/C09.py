"""C09 — set membership `in {...}` is exact for any list of values, ranges and CIDRs (structural preconditions)."""
from lib import *
import common
import sem

LEVEL = "other"
EXPLANATION = ("Necessary-condition check only: the binary search in RangeSet::contains is correct only over sorted, "
               "pairwise non-overlapping ranges; the rule establishes that the only constructor of RangeSet sorts "
               "and merges the vector it adopts (the baseline tests use sorted disjoint lists, so dropping either "
               "passes them), that every other constructor funnels into it, that IPv4 and IPv6 ranges go to "
               "separate sets chosen by the address family, that byte strings use an ordered-set lookup, and that "
               "an absent left side yields false. The interval arithmetic of the merge closure and of the "
               "comparator is not decided.")

RS = "range_set::RangeSet"
CTOR = "<range_set::RangeSet<T> as core::convert::From<alloc::vec::Vec<core::ops::range::RangeInclusive<T>>>>::from"


def rule_ctor(E, R):
    rule = "R09-ctor"
    lits = []
    for hb in E.hir_list:
        if "body" not in hb:
            continue
        for s in exprs(hb["body"], "Struct"):
            if norm(s["res"].get("path", "")) == RS and not s.get("x"):
                lits.append((norm(hb["path"]), hb, s))
    R.check(len(lits) == 1 and lits[0][0] == CTOR, rule, RS, "RangeSet is constructed in exactly one function (From<Vec<RangeInclusive<T>>>)",
            str([l[0] for l in lits]))
    if lits and lits[0][0] == CTOR:
        fn, hb, s = lits[0]
        adopted = local_name({f["name"]: f["e"] for f in s["fields"]}.get("ranges", {}))
        pre = preceding_stmts(hb["body"], s) or []
        sorts = [(i, c) for i, st in enumerate(pre) for c in exprs(st, "MethodCall", into_closures=False)
                 if c["m"].startswith("sort") and local_name(c["recv"]) == adopted]
        merges = [(i, c) for i, st in enumerate(pre) for c in exprs(st, "MethodCall", into_closures=False)
                  if c["m"] in ("dedup_by", "dedup_by_key") and local_name(c["recv"]) == adopted]
        R.check(len(sorts) >= 1, rule, fn, "the adopted vector is sorted before the set is built",
                "binary search over unsorted ranges misses members", s["sp"])
        R.check(len(merges) >= 1 and sorts and merges[0][0] > sorts[0][0], rule, fn, "overlapping ranges are merged (dedup_by) after sorting",
                "binary search over overlapping ranges can land on a range that does not contain the probe", s["sp"])
        if sorts:
            c = sorts[0][1]
            key_ok = c["m"] in ("sort", "sort_unstable") or any(x["m"] == "start" for x in exprs_deep(c, "MethodCall"))
            R.check(key_ok, rule, fn, "sorted by range start", where=c["sp"])
        if merges:
            # the merge callback: a closure written in place, or a private function passed by name
            cb_arg = merges[0][1]["args"][0]
            clo = closure_of(cb_arg)
            S = sem.Sem(E, hb)
            in_cb = (lambda x: sem.within(x, clo))
            if not clo:
                d_ = deref(cb_arg)
                r_ = d_.get("res", {}) if d_.get("k") == "Path" else {}
                hf = None
                if r_.get("r") == "def" and str(r_.get("dk", "")).startswith("Fn"):
                    hf = E.hir(norm(r_.get("path", "")))
                if hf is not None and "body" in hf:
                    S = sem.Sem(E, hf)
                    clo = {"params": hf.get("params", []), "body": hf["body"]}
                    in_cb = (lambda x: True)
            ok = False
            assigns = []
            if clo and len(clo.get("params", [])) == 2:
                ids = []
                for p_ in clo["params"]:
                    q = [x for x in walk(p_) if x.get("k") == "PBinding"]
                    ids.append(S.root.binds.get(q[0]["id"]) if q else None)
                removed, kept = ids      # dedup_by(|candidate for removal, previous kept element|)

                def acc(n, fr, meth, who):
                    r = sem.is_method(S.resolve(n, fr).node, meth)
                    return r is not None and sem.root_local(S, r, fr) is who
                # the closure answers "remove" exactly when candidate.start() <= kept.end()
                f = S.returns_true(clo["body"], S.root)
                cm = [(op, l, r, fr) for op, l, r, fr, c in sem.weak_cmps(((f, True),)) if c] if f is not None else []
                if f is not None and not cm:
                    # the verdict spread over several arms (`(true, true) => true, (true, false) => true, (false, _) => false`):
                    # it is the comparison the formula is equivalent to
                    import itertools
                    allc = [(op, l, r, fr) for op, l, r, fr, c in sem.weak_cmps(((f, True),))]
                    reps_ = []
                    for x_ in allc:
                        if not any(sem._struct_eq(x_[1], y_[1]) and sem._struct_eq(x_[2], y_[2]) and x_[0] in (y_[0], sem.NEG_OP.get(y_[0])) for y_ in reps_):
                            reps_.append(x_)

                    def ev_(g, env):
                        if g[0] == "true":
                            return True
                        if g[0] == "false":
                            return False
                        if g[0] == "not":
                            return not ev_(g[1], env)
                        if g[0] in ("and", "or"):
                            vs_ = [ev_(y_, env) for y_ in g[1]]
                            return all(vs_) if g[0] == "and" else any(vs_)
                        a_ = g[1]
                        if a_.kind != "cmp":
                            return env.get(id(a_), False)
                        for i_, y_ in enumerate(reps_):
                            if sem._struct_eq(a_.l.node, y_[1]) and sem._struct_eq(a_.r.node, y_[2]):
                                if a_.op == y_[0]:
                                    return env[i_]
                                if sem.NEG_OP.get(a_.op) == y_[0]:
                                    return not env[i_]
                            if sem._struct_eq(a_.l.node, y_[2]) and sem._struct_eq(a_.r.node, y_[1]):
                                if sem.SWAP_OP.get(a_.op) == y_[0]:
                                    return env[i_]
                                if sem.NEG_OP.get(sem.SWAP_OP.get(a_.op)) == y_[0]:
                                    return not env[i_]
                        return False
                    if 0 < len(reps_) <= 4:
                        for i_, y_ in enumerate(reps_):
                            same_ = all(ev_(f, dict(enumerate(bits_))) == bits_[i_] for bits_ in itertools.product((True, False), repeat=len(reps_)))
                            if same_:
                                cm = [y_]
                ok = len(cm) == 1 and cm[0][0] in ("Le", "Lt") and acc(cm[0][1], cm[0][3], "start", removed) and acc(cm[0][2], cm[0][3], "end", kept)
                assigns = [x for x in S.sites() if in_cb(x) and x.node.get("k") == "Assign"]
                ok = ok and len(assigns) >= 1
            R.check(ok, rule, fn, "the merge closure extends the kept range and drops the merged one",
                    "expected: remove the candidate iff candidate.start() <= kept.end(), extending the kept range", merges[0][1]["sp"])
            # the kept range may only grow: its end is replaced only if the merged range ends later (or by a max)
            for x in assigns:
                a = x.node
                grows = any(norm(c.get("callee", "")).endswith("::max") for c in exprs(a["r"], ("Call", "MethodCall")))
                tgt = sem.root_local(S, a["l"], x.frame)
                new_end = [e for e in exprs(a["r"], "MethodCall") if e["m"] == "end"]
                for op, l, r, fr, certain in sem.weak_cmps(x.pc):
                    if certain and op == "Lt" and acc(l, fr, "end", kept) and acc(r, fr, "end", removed):
                        if tgt is kept and new_end and sem.root_local(S, new_end[0]["recv"], x.frame) is removed:
                            grows = True
                R.check(grows, rule, fn, "a merged range only ever grows (end replaced only by a later end)",
                        "the kept range's end is overwritten unconditionally: merging a range with one nested inside it shrinks it", a["sp"])
    # FromIterator goes through From
    fi = E.hirs(r"^<range_set::RangeSet<T> as core::iter::traits::collect::FromIterator<.*>>::from_iter$")
    if len(fi) == 1:
        t = tail(fi[0]["body"])
        ok = t.get("k") == "MethodCall" and t["m"] == "into" and norm(t.get("ty", "")).startswith("range_set::RangeSet")
        R.check(ok, rule, norm(fi[0]["path"]), "collect() funnels into the sorting constructor", where=fi[0]["span"])
    else:
        R.cannot(rule, "RangeSet::from_iter", "anchor not found")
    # binary search only in contains
    users = []
    for hb in E.hir_list:
        if "body" not in hb:
            continue
        for c in exprs(hb["body"], "MethodCall"):
            if c["m"].startswith("binary_search") and any(f.get("name") == "ranges" for f in exprs(c["recv"], "Field")):
                users.append(norm(hb["path"]))
    R.check(users == ["range_set::RangeSet::contains"], rule, RS, "the ranges are searched only by contains()", str(users))
    hc = E.hir("range_set::RangeSet::contains")
    if hc:
        S = sem.Sem(E, hc)
        t = fn_result(hc)
        ok = t.get("k") == "MethodCall" and t["m"] == "is_ok"
        clo = None
        for c in exprs(hc["body"], "MethodCall"):
            if c["m"] == "binary_search_by":
                clo = closure_of(c["args"][0])
        ords = sorted({last_seg(def_path(x.node) or "") for x in S.sites() if clo is not None and sem.within(x, clo) and x.node.get("k") == "Path"}
                      & {"Greater", "Equal", "Less"})
        R.check(ok and ords == ["Equal", "Greater", "Less"], rule, "range_set::RangeSet::contains",
                "member iff the search finds a range (comparator yields all three orderings)", str(ords), hc["span"])


def rule_families(E, R):
    rule = "R09-family"
    h = E.hir(common.CMP_COMPILE)
    if not h:
        return R.cannot(rule, common.CMP_COMPILE, "anchor not found")
    # split by ExplicitIpRange variant (also through a private helper of the same file)
    S = sem.Sem(E, h)
    UX = sem.enum_universe(E, "rhs_types::ip::ExplicitIpRange")
    pX = lambda v: norm(v.node.get("ty", "")).replace("&", "").strip() == "rhs_types::ip::ExplicitIpRange"
    split = {}
    for x in S.sites():
        if x.node.get("k") == "MethodCall" and x.node["m"] == "push":
            fam = sem.admitted_tuples(x.pc, [pX], [UX])
            if len(fam) == 1:
                split.setdefault(last_seg(next(iter(fam))[0]), []).append(sem.root_local(S, x.node["recv"], x.frame))
    lits_ = [x for x in S.sites() if x.node.get("k") == "Struct" and norm(x.node["res"].get("path", "")).endswith("::OneOfIp")]
    ok = set(split) == {"V4", "V6"} and all(len(v) == 1 and v[0] is not None for v in split.values()) and len(lits_) == 1 and \
        split["V4"][0] is not split["V6"][0]
    if ok:
        f_ = {y["name"]: y["e"] for y in lits_[0].node["fields"]}
        r4 = sem.provenance(S, f_.get("v4", {}), lits_[0].frame)
        r6 = sem.provenance(S, f_.get("v6", {}), lits_[0].frame)
        ok = r4[0] is split["V4"][0] and r6[0] is split["V6"][0] and "from" in r4[3] and "from" in r6[3]
    R.check(ok, rule, common.CMP_COMPILE, "IPv4 ranges and IPv6 ranges are collected separately",
            "each family's ranges must be pushed onto its own vector, which becomes the set of that family", h["span"])
    cmp_ = E.hirs(r"\w+::OneOfIp as ast::index_expr::Compare<U>>::compare$")
    if len(cmp_) == 1:
        tbl = {}
        for m in exprs(cmp_[0]["body"], "Match"):
            for a in m["arms"]:
                v = pat_variant(a["pat"])
                if v and "IpAddr::" in v:
                    t = tail(a["body"])
                    fld = [f["name"] for f in exprs(t.get("recv", {}), "Field")]
                    tbl[last_seg(v)] = (t.get("m"), fld)
        R.check(tbl == {"V4": ("contains", ["v4"]), "V6": ("contains", ["v6"])}, rule, norm(cmp_[0]["path"]),
                "an address is looked up only in the set of its own family", str(tbl), cmp_[0]["span"])
    else:
        R.cannot(rule, "OneOfIp::compare", "anchor not found")
    # element types of the two sets
    a = [x for p, x in E.adts.items() if p.endswith("::OneOfIp")]
    if a:
        tys = {f["name"]: norm(f["ty"]) for f in a[0]["variants"][0]["fields"]}
        ok = "Ipv4Addr" in tys.get("v4", "") and "Ipv6Addr" in tys.get("v6", "")
        R.check(ok, rule, "OneOfIp", "the two sets have distinct element types (Ipv4Addr / Ipv6Addr)", str(tys))
    # ints and bytes
    for rx, what in ((r"\w+::OneOfInt as ast::index_expr::Compare<U>>::compare$", "integers use RangeSet::contains"),
                     (r"\w+::Contains as ast::index_expr::Compare<U>>::compare$", "byte strings use BTreeSet::contains")):
        hs = E.hirs(rx)
        if len(hs) == 1:
            t = fn_result(hs[0])
            R.check(t.get("k") == "MethodCall" and t["m"] == "contains", rule, norm(hs[0]["path"]), what, where=hs[0]["span"])
        else:
            R.cannot(rule, rx, "anchor not found")
    # CIDR -> first..=last
    hs = [x for x in E.hir_list if "body" in x and re.search(r"From<cidr::.*(Ipv4Cidr|Ipv6Cidr)> for rhs_types::ip::ExplicitIpRange\}::from$|ExplicitIpRange as core::convert::From<cidr::.*Cidr>>::from$", norm(x["path"]))]
    for x in hs:
        ms = [c["m"] for c in exprs(x["body"], "MethodCall") if c["m"] in ("first_address", "last_address")]
        if ms:
            R.check(ms == ["first_address", "last_address"], rule, norm(x["path"]), "a CIDR block becomes first_address..=last_address", str(ms), x["span"])


def run(F, R, tier):
    E = F.engine
    rule_ctor(E, R)
    rule_families(E, R)
    common.rule_default(E, R, only={"OneOf"})
    R.not_decided += ["the interval arithmetic of the merge closure and of the binary-search comparator",
                      "CIDR first/last address computation (cidr crate)", "exactness of membership itself (needs execution or proof)"]
