"""C10 — `contains` is exact substring search on every code path (structural clauses)."""
from lib import *
import common

LEVEL = "other"
EXPLANATION = ("The specialisation table of the `contains` compiler is extracted arm by arm: pattern length k in 2..=16 "
               "must select slice_to_array::<k> and an ArraySearcher over [u8; k] (a mismatch compiles and panics in "
               "copy_from_slice for that length only), longer patterns the boxed searcher, the empty pattern the "
               "always-true searcher, one byte memchr, and the non-AVX2 fallback memmem; the SIMD anchor is drawn "
               "from 1..len (exclusive, position < len); every construction of an AVX2 searcher is inside the "
               "`*USE_AVX2` branch, whose initialiser is the CPU-feature test and-ed with the environment opt-out; "
               "absent value -> false. Correctness of sliceslice/memchr and equality of answers between paths are "
               "not decided.")

CMP = common.CMP_COMPILE


def _empty_pol(site, pat_names):
    import sem
    for a_, pol in sem.literals(site.pc)[0]:
        n_ = sem.peel(a_.node) if a_.kind == "call" and a_.node is not None else {}
        if n_.get("k") == "MethodCall" and n_["m"] == "is_empty" and local_name(n_["recv"]) in pat_names:
            return pol
    return None


def _one_elem_excluded(site):
    import sem
    for a_, pol in sem.literals(site.pc)[0]:
        if a_.kind == "is" and not pol and any("slice" in str(alt) for alt in a_.alts):
            return True
    return False


def run(F, R, tier):
    E = F.engine
    h = E.hir(CMP)
    if not h:
        return R.cannot("R10-arms", CMP, "anchor not found")
    body = h["body"]
    # the pattern of the `contains` operator: bound by the `Contains(..)` arm, possibly re-bound by order-preserving lets
    pat_names = set()
    for q in walk(body):
        if q.get("k") == "PTupleStruct" and norm(q["res"].get("path", "")).endswith("ComparisonOpExpr::Contains"):
            pat_names |= set(pat_bindings(q))
    # the arm may delegate to a private function of the same file that does the work: analyse that function's body, with
    # the parameters that receive the pattern as seeds
    own = any(c_["m"] == "random_range" for c_ in exprs(body, "MethodCall")) or \
        any(norm(c_.get("callee", "")) == "searcher::MemmemSearcher::new" for c_ in exprs(body, "Call"))
    if not own:
        for c_ in exprs(body, ("Call", "MethodCall")):
            hh = E.hir_by_dp.get(c_.get("resolved_dp") or c_.get("callee_dp") or "")
            it_ = E.item_by_dp.get(hh["dp"]) if hh else None
            if not hh or "body" not in hh or it_ is None or it_.get("vis") == "Public" or \
                    hh.get("span", "").rsplit(":", 1)[0] != h.get("span", "").rsplit(":", 1)[0]:
                continue
            if not any(x_["m"] == "random_range" for x_ in exprs(hh["body"], "MethodCall")):
                continue
            seeds = {param_name(hh, i_) for i_, a_ in enumerate(call_args(c_)) if local_name(a_) in pat_names}
            seeds.discard(None)
            if seeds:
                body = hh["body"]
                pat_names = seeds
                R.note("the `contains` specialisation lives in the private helper %s (analysed in the context of its call in the Contains arm)" % norm(hh["path"]))
                break
    changed = True
    while changed:
        changed = False
        for st_ in exprs(body, "SLet"):
            if "init" in st_ and st_["pat"].get("k") == "PBinding" and st_["pat"]["name"] not in pat_names:
                root_, ch_ = chain(st_["init"])
                if local_name(root_) in pat_names and all(c_["m"] in ("into", "clone", "to_vec", "into_boxed_slice", "as_ref", "to_owned") for c_ in ch_):
                    pat_names.add(st_["pat"]["name"])
                    changed = True
    pos_names = {st_["pat"]["name"] for st_ in exprs(body, "SLet") if "init" in st_ and st_["pat"].get("k") == "PBinding" and
                 any(c_["m"] == "random_range" for c_ in exprs(st_["init"], "MethodCall"))}
    # --- R10-arms
    rule = "R10-arms"
    target = None
    import sem
    all_sites = list(sem.sem_walk(E, h))

    def gated(site):
        """the site is reached only where `*USE_AVX2` is known to be true"""
        for atom, pol in sem.literals(site.pc)[0]:
            nodes = [atom.node] if atom.node is not None else []
            if pol and any((def_path(p_) or "").endswith("USE_AVX2") for n_ in nodes for p_ in exprs(n_, "Path")):
                return True
        return False
    for n, st in all_sites:
        if n.get("k") == "Match" and n["scrut"].get("ty") == "usize" and arm_variants(st, "ComparisonOpExpr") == ["Contains"]:
            sc = strip(n["scrut"])
            if sc.get("k") == "MethodCall" and sc["m"] == "len" and local_name(sc["recv"]) in pat_names:
                target = (n, st)
    if not target:
        R.cannot(rule, CMP, "the match on the pattern length was not found")
    else:
        m, st = target
        seen = set()
        for a in m["arms"]:
            p = a["pat"]
            k = p["e"]["lit"]["v"] if p.get("k") == "PExpr" and p["e"].get("k") == "PELit" else None
            if k is None and p.get("k") == "PExpr" and p["e"].get("k") == "PEPath" and isinstance(CONST_VALUES.get(p["e"]["res"].get("path")), int):
                k = CONST_VALUES[p["e"]["res"]["path"]]       # a length constant used as the arm's pattern
            cs = {last_seg(norm(c.get("callee", ""))): c for c in exprs(a["body"], "Call")}
            if k is not None:
                seen.add(k)
                sta = cs.get("slice_to_array")
                arr = cs.get("ArraySearcher")
                ok = sta is not None and sta.get("targs") == [str(k)] and arr is not None and arr.get("targs", [None])[0] == str(k) and \
                    "with_position" in cs and local_name(strip(sta["args"][0])) in pat_names
                R.check(ok, rule, CMP, "length %d -> ArraySearcher<%d> over slice_to_array::<%d>(bytes)" % (k, k, k),
                        "arm builds slice_to_array::<%s> / ArraySearcher<%s>: copy_from_slice panics when N differs from the pattern length" % (
                            sta.get("targs") if sta else None, arr.get("targs") if arr else None), a["sp"])
            else:
                ok = "BoxSearcher" in cs and "with_position" in cs and "slice_to_array" not in cs
                R.check(ok and p.get("k") == "PWild", rule, CMP, "any other length -> BoxSearcher over the boxed pattern", where=a["sp"])
            wp = cs.get("with_position")
            if wp is not None:
                R.check(local_name(wp["args"][1]) in pos_names, rule, CMP,
                        "length %s: the searcher is anchored at `position`" % (k if k is not None else "other"), where=a["sp"])
        R.check(seen == set(range(2, 17)), rule, CMP, "array specialisations cover exactly lengths 2..=16", str(sorted(seen)), m["sp"])
        # gate: the match is inside `if *USE_AVX2`
        R.check(gated(st), "R10-gate", CMP, "AVX2 searchers are built only inside `if *USE_AVX2`",
                "calling the AVX2 search on a CPU without AVX2 is undefined behaviour", m["sp"])
    # every with_position / ArraySearcher / BoxSearcher construction anywhere is under the gate
    n_unsafe = 0
    for n, st in all_sites:
        if n.get("k") == "Call" and last_seg(norm(n.get("callee", ""))) in ("with_position", "ArraySearcher", "BoxSearcher"):
            n_unsafe += 1
            if not gated(st):
                R.violation("R10-gate", CMP, "%s outside the USE_AVX2 branch" % last_seg(norm(n["callee"])), where=n["sp"])
    R.floor("R10-gate", "AVX2 searcher constructions", n_unsafe, 32)
    # search_in only in the two Compare impls
    users = []
    for hb in E.hir_list:
        if "body" not in hb:
            continue
        for c in exprs(hb["body"], "MethodCall"):
            if c["m"] == "search_in" and "Avx2Searcher" in norm(c["recv"].get("ty", "")):
                users.append(norm(hb["path"]))
    ok = len(users) == 2 and all(re.search(r"\w+::(ArraySearcher<N>|BoxSearcher) as ast::index_expr::Compare<U>>::compare$", u) for u in users)
    R.check(ok, "R10-gate", CMP, "the AVX2 search itself runs only inside the two gated comparator types", str(users))
    # USE_AVX2 initialiser
    init = [x for x in E.hir_list if "body" in x and norm(x["path"]) == "ast::field_expr::USE_AVX2"]
    if init:
        b = init[0]["body"]
        clo = [c for c in exprs(b, "Closure")]
        ok = False
        if clo:
            t = tail(clo[0]["body"])
            if t.get("k") == "Binary" and t["op"] == "And":
                left_feat = any(lit_value(x) == "avx2" for x in exprs(t["l"], "Lit")) or "is_x86_feature_detected" in str(t["l"]) or \
                    any("cpufeatures" in norm(c.get("callee", "")) or "detect" in norm(c.get("callee", "")) for c in exprs(t["l"], ("Call", "MethodCall")))
                r = strip(t["r"])
                right_env = r.get("k") == "Unary" and r["op"] == "Not" and any(c["m"] == "contains" for c in exprs(r, "MethodCall"))
                ok = left_feat and right_env
            env = [lit_value(c["args"][0]) for c in exprs(clo[0]["body"], "Call") if norm(c.get("callee", "")).endswith("env::var")]
            R.check(env == ["WIREFILTER_USE_AVX2"], "R10-gate", "ast::field_expr::USE_AVX2", "the opt-out variable is WIREFILTER_USE_AVX2", str(env))
        R.check(ok, "R10-gate", "ast::field_expr::USE_AVX2", "USE_AVX2 = CPU supports AVX2 && not disabled by the environment", where=init[0]["span"])
        nv = [x for x in E.hir_list if "body" in x and norm(x["path"]).endswith("USE_AVX2::{closure#0}::NO_VALUES")]
        if nv:
            vals = sorted(v for v in (lit_value(x) for x in exprs(nv[0]["body"], "Lit")) if isinstance(v, str))
            R.check(vals == ["0", "false", "no"], "R10-gate", "NO_VALUES", "opt-out values are 0 / no / false", str(vals))
    else:
        R.cannot("R10-gate", "ast::field_expr::USE_AVX2", "static initialiser not found")
    st_ = [s for s in E.statics if s["path"] == "ast::field_expr::USE_AVX2"]
    R.check(bool(st_) and not st_[0].get("mutable") and "LazyLock<bool>" in norm(st_[0]["ty"]), "R10-gate", "ast::field_expr::USE_AVX2",
            "an immutable LazyLock<bool> (initialised once, no other writer)", st_[0]["ty"] if st_ else "")
    # --- R10-anchor
    rule = "R10-anchor"
    rr = [c for c in exprs(body, "MethodCall") if c["m"] == "random_range"]
    R.floor(rule, "random_range calls", len(rr), 1)
    for c in rr:
        a = deref(c["args"][0])
        ok = a.get("k") == "Struct" and norm(a["res"].get("path", "")) == "core::ops::range::Range"
        fl = {f["name"]: deref(f["e"]) for f in a.get("fields", [])} if ok else {}
        end = fl.get("end", {})
        ok = ok and lit_value(fl.get("start", {})) == 1 and end.get("k") == "MethodCall" and end["m"] == "len" and local_name(end["recv"]) in pat_names
        R.check(ok, rule, CMP, "anchor drawn from 1..bytes.len() (exclusive upper bound)",
                "sliceslice requires position < needle length; an inclusive range can pick len", c["sp"])
        # on the way to the draw both short patterns have been excluded (is_empty() false, not a one-element slice)
        xs = [st_ for n_, st_ in all_sites if n_ is c]
        short = bool(xs) and all(_empty_pol(x, pat_names) is False and _one_elem_excluded(x) for x in xs)
        R.check(short, rule, CMP, "drawn only after the empty and one-byte patterns returned (len >= 2, range non-empty)", str(short), c["sp"])
    # --- shortcuts
    rule = "R10-arms"
    empty = one = False
    for i in exprs(body, "If", into_closures=False):
        c = strip(i["cond"])
        pass
        if c.get("k") == "LetExpr" and c["pat"].get("k") == "PSlice" and len(c["pat"].get("before", [])) == 1 and "mid" not in c["pat"] and not c["pat"].get("after"):
            nm = pat_bindings(c["pat"])
            one = any(norm(x.get("callee", "")).endswith("MemchrSearcher::new") and local_name(x["args"][0]) in nm for x in exprs(i["then"], "Call"))
    # EmptySearcher is what is compiled exactly when the pattern is empty: its construction sits under `is_empty()`, every
    # other searcher under its negation
    es = [st_ for n_, st_ in all_sites if n_.get("k") == "Path" and last_seg(def_path(n_) or "") == "EmptySearcher" and
          _empty_pol(st_, pat_names) is not None]
    others = [st_ for n_, st_ in all_sites if n_.get("k") == "Call" and
              last_seg(norm(n_.get("callee", ""))) in ("with_position", "ArraySearcher", "BoxSearcher", "MemmemSearcher") or
              (n_.get("k") == "Call" and norm(n_.get("callee", "")).endswith("MemchrSearcher::new"))]
    empty = bool(es) and all(_empty_pol(x, pat_names) is True for x in es) and bool(others) and all(_empty_pol(x, pat_names) is False for x in others)
    R.check(empty, rule, CMP, "empty pattern -> EmptySearcher", where=h["span"])
    R.check(one, rule, CMP, "one-byte pattern -> MemchrSearcher::new(that byte)", where=h["span"])
    he = E.hirs(r"^<searcher::EmptySearcher as ast::index_expr::Compare<U>>::compare$")
    if len(he) == 1:
        R.check(is_lit(fn_result(he[0]), True), rule, norm(he[0]["path"]), "the empty pattern always occurs (constant true)", where=he[0]["span"])
    else:
        R.cannot(rule, "EmptySearcher::compare", "anchor not found")
    mm = [c for c in exprs(body, "Call", into_closures=False) if norm(c.get("callee", "")) == "searcher::MemmemSearcher::new"]
    R.check(len(mm) == 1 and local_name(mm[0]["args"][0]) in pat_names, rule, CMP, "scalar fallback -> MemmemSearcher::new(bytes)", where=h["span"])
    hm = E.hir("searcher::MemmemSearcher::new")
    if hm:
        ok = any(c["m"] == "build_forward_owned" and is_param(c["args"][0], hm, 0) for c in exprs(hm["body"], "MethodCall"))
        R.check(ok, rule, "searcher::MemmemSearcher::new", "the finder is built for the given needle", where=hm["span"])
    hc = E.hirs(r"^<searcher::MemmemSearcher as ast::index_expr::Compare<U>>::compare$")
    if len(hc) == 1:
        t = fn_result(hc[0])
        R.check(t.get("k") == "MethodCall" and t["m"] == "is_some" and deref(t["recv"]).get("m") == "find", rule, norm(hc[0]["path"]),
                "fallback answers find(..).is_some()", where=hc[0]["span"])
    # the searcher comparators are pure delegations: one call on the value's bytes, no shortcut of their own
    deleg = [(r"^<searcher::MemmemSearcher as ast::index_expr::Compare<U>>::compare$", "find"),
             (r"Compare<U> for sliceslice::MemchrSearcher\}::compare$", "search_in"),
             (r"\w+::ArraySearcher<N> as ast::index_expr::Compare<U>>::compare$", "search_in"),
             (r"\w+::BoxSearcher as ast::index_expr::Compare<U>>::compare$", "search_in")]
    for rx, meth in deleg:
        hs = E.hirs(rx)
        if len(hs) != 1:
            R.cannot("R10-deleg", rx, "anchor not found (%d)" % len(hs))
            continue
        b = hs[0]["body"]
        fn = norm(hs[0]["path"])
        calls_ = [c for c in exprs(b, "MethodCall") if c["m"] == meth]
        import common

        def is_deleg(t, S, fr, meth=meth):
            return t.get("k") == "MethodCall" and (t["m"] == meth or (t["m"] == "is_some" and deref(t["recv"]).get("m") == meth))
        ok_, det_ = common.sole_result(E, hs[0], is_deleg)
        R.check(ok_ and len(calls_) == 1, "R10-deleg", fn,
                "answers exactly what %s() says (no extra shortcut or early return)" % meth,
                "%s; %d %s calls: an added fast path can disagree with the search on boundary lengths" % (det_, len(calls_), meth), hs[0]["span"])
    common.rule_default(E, R, only={"Contains"})
    R.not_decided += ["correctness of sliceslice / memchr (dependencies)", "the wasm32 path (not compiled on the host target)",
                      "equality of answers between the code paths and across recompilations (random anchor)"]
