"""C11 — regex and wildcard operators match with the documented semantics (configuration clauses)."""
from lib import *
import common
import sem

LEVEL = "other"
EXPLANATION = ("The configuration handed to the regex and wildcard engines is extracted from the builder call chains "
               "and compared with the documented semantics: byte-oriented non-Unicode syntax (unicode=false, "
               "utf8=false), leftmost-first, unanchored is_match over the raw bytes, size limits taken from the "
               "parser settings; wildcard without the `?` metasymbol, case-insensitive exactly for the non-strict "
               "variant, whole-value match; validation (star limit with `>`, `**`) and build errors are parse "
               "errors that precede construction; `\\\"` outside a character class is the only rewrite of quoted "
               "regex patterns; operator -> variant wiring by const generic. The engines themselves (regex-automata, "
               "wildcard) and the quoted-regex state machine as a whole are trusted/not decided.")

RX = "rhs_types::regex::imp_real::Regex"
WC = "rhs_types::wildcard::Wildcard"


def chain_calls(n, h=None):
    """[(method, [literal-or-description of args])] for the builder chain ending at n; locals that are parameters of the
    function h are described by position (`param#i`), never by spelling"""
    root, ch = chain(n)

    def lname(x):
        if h is not None:
            for i in range(len(h.get("params", []))):
                if is_param(x, h, i):
                    return "param#%d" % i
            nm = local_name(x)
            ini = let_init(h["body"], nm) if nm else None
            if ini is not None and strip(ini).get("k") in ("Call", "MethodCall"):
                return "call:" + last_seg(norm(strip(ini).get("callee", "")))
        return local_name(x)
    out = []
    for c in ch:
        args = []
        for a in c["args"]:
            v = lit_value(a)
            if v is not None:
                args.append(v)
            else:
                s = strip(a)
                d = def_path(s)
                if d:
                    args.append(last_seg(d))
                elif s.get("k") == "Unary" and s.get("op") == "Not":
                    args.append("!" + (last_seg(def_path(s["e"]) or "") or lname(s["e"]) or "?"))
                elif s.get("k") == "Call" and norm(s.get("callee", "")) == "core::option::Option::Some":
                    inner = strip(s["args"][0])
                    args.append("Some(%s)" % (inner.get("name") if inner.get("k") == "Field" else lname(inner)))
                elif s.get("k") == "Field":
                    args.append(s["name"])
                elif s.get("k") in ("Call", "MethodCall"):
                    args.append("call:" + last_seg(norm(s.get("callee", ""))))
                else:
                    args.append(lname(s) or s.get("k"))
        out.append((c["m"], args))
    return root, out


def rule_regexcfg(E, R):
    rule = "R11-regexcfg"
    hs = E.hir(RX + "::syntax_config")
    if hs:
        root, cc = chain_calls(fn_result(hs))
        d = dict((m, a) for m, a in cc)
        R.check(d.get("unicode") == [False], rule, RX + "::syntax_config", "unicode(false): byte-oriented, non-Unicode classes", str(cc), hs["span"])
        R.check(d.get("utf8") == [False], rule, RX + "::syntax_config", "utf8(false): patterns may match invalid UTF-8", str(cc), hs["span"])
        extra = set(d) - {"unicode", "utf8"}
        R.check(not (extra & {"case_insensitive", "multi_line", "dot_matches_new_line", "swap_greed", "crlf", "ignore_whitespace"}), rule,
                RX + "::syntax_config", "no global syntax flag is forced", str(sorted(extra)), hs["span"])
    else:
        R.cannot(rule, RX + "::syntax_config", "anchor not found")
    hm = E.hir(RX + "::meta_config")
    if hm:
        root, cc = chain_calls(fn_result(hm))
        d = dict((m, a) for m, a in cc)
        R.check(d.get("match_kind") == ["LeftmostFirst"], rule, RX + "::meta_config", "leftmost-first match semantics", str(d.get("match_kind")), hm["span"])
        R.check(d.get("utf8_empty") == [False], rule, RX + "::meta_config", "utf8_empty(false): empty matches may split code points (bytes)", str(d.get("utf8_empty")), hm["span"])
        # the two limits are fields of the settings handed to Regex::new, whether meta_config receives the settings or the
        # two numbers (it is analysed inlined into Regex::new)
        hn_ = E.hir(RX + "::new")
        lim = {}
        if hn_:
            S = sem.Sem(E, hn_)
            for x in S.sites():
                if x.node.get("k") == "MethodCall" and x.node["m"] in ("nfa_size_limit", "hybrid_cache_capacity") and x.node.get("args"):
                    rv_ = S.resolve(x.node["args"][0], x.frame)
                    a_, fr_ = sem.peel(rv_.node), rv_.frame
                    if a_.get("k") == "Call" and norm(a_.get("callee", "")) == "core::option::Option::Some":
                        rv_ = S.resolve(a_["args"][0], fr_)
                        a_, fr_ = sem.peel(rv_.node), rv_.frame
                    v_ = strip(a_)
                    if v_.get("k") == "Field" and sem.param_index(S, v_["e"], fr_) == 2:
                        lim[x.node["m"]] = v_["name"]
        R.check(lim.get("nfa_size_limit") == "regex_compiled_size_limit", rule, RX + "::meta_config",
                "compiled-size limit is the parser's regex_compiled_size_limit", str(lim), hm["span"])
        R.check(lim.get("hybrid_cache_capacity") == "regex_dfa_size_limit", rule, RX + "::meta_config",
                "lazy-DFA cache capacity is the parser's regex_dfa_size_limit", str(lim), hm["span"])
    else:
        R.cannot(rule, RX + "::meta_config", "anchor not found")
    hn = E.hir(RX + "::new")
    if hn:
        bl = [c for c in exprs(hn["body"], "MethodCall") if c["m"] == "build" and "regex_automata::meta" in norm(c.get("callee", ""))]
        ok = False
        if len(bl) == 1:
            root, cc = chain_calls(bl[0], hn)
            d = dict((m, a) for m, a in cc)
            ok = d.get("configure") == ["call:meta_config"] and d.get("syntax") == ["call:syntax_config"] and d.get("build") == ["param#0"]
        R.check(ok, rule, RX + "::new", "the regex is built from the pattern with exactly these two configurations", where=hn["span"])
        # settings are forwarded
        mc = [c for c in exprs(hn["body"], "Call") if norm(c.get("callee", "")) == RX + "::meta_config"]
        R.check(len(mc) == 1 and all(any(is_param(p_, hn, 2) for p_ in exprs(a_, "Path")) for a_ in mc[0]["args"]), rule, RX + "::new",
                "limits come from the caller's settings", where=hn["span"])
        # size-limit error classified
        # (the classification may be a closure in place or a private function of the impl passed to map_err by name)
        bodies_ = [hn["body"]]
        for p_ in exprs(hn["body"], "Path"):
            r_ = p_.get("res", {})
            if r_.get("r") == "def" and str(r_.get("dk", "")).startswith(("Fn", "AssocFn")) and norm(r_.get("path", "")).startswith(RX + "::"):
                hx_ = E.hir(norm(r_["path"]))
                if hx_ is not None and "body" in hx_:
                    bodies_.append(hx_["body"])
        ok = any(c["m"] == "size_limit" for bd_ in bodies_ for c in exprs(bd_, "MethodCall")) and \
            any(last_seg(norm(c.get("callee", ""))) == "CompiledTooBig" for bd_ in bodies_ for c in exprs(bd_, "Call"))
        R.check(ok, rule, RX + "::new", "exceeding the size limit is reported as CompiledTooBig", where=hn["span"])
    else:
        R.cannot(rule, RX + "::new", "anchor not found")
    hi = E.hir(RX + "::is_match")
    if hi:
        ok, det = common.sole_result(E, hi, lambda t, S, fr: t.get("k") == "MethodCall" and
                                     norm(t.get("callee", "")) == "regex_automata::meta::regex::Regex::is_match" and
                                     sem.param_index(S, t["args"][0], fr) == 1 and norm(t["args"][0].get("ty", "")) == "&[u8]")
        R.check(ok, rule, RX + "::is_match", "unanchored search (meta::Regex::is_match) over the raw bytes, for every value", det, hi["span"])
    # lexers: pattern text and settings
    for fn, fmt in (("rhs_types::regex::lex_regex_from_raw_string", "Raw"), ("rhs_types::regex::lex_regex_from_literal", "Literal")):
        h = E.hir(fn)
        if not h:
            R.cannot(rule, fn, "anchor not found")
            continue
        # analysed as part of Regex::lex_with, with the private helpers of the file followed: the compile step may sit in this
        # function or in a helper shared by both lexers; the settings may be taken here or by the caller and passed down
        hl_ = E.hirs(r"LexWith<&ast::parse::FilterParser> for rhs_types::regex::\w+::Regex\}::lex_with$|Regex as lex::LexWith<&ast::parse::FilterParser>>::lex_with$")
        ok = False
        nws, errs = [], []
        Sx = None
        if len(hl_) == 1:
            Sx = sem.Sem(E, hl_[0], max_depth=3)
            under = [x for x in Sx.sites() if fn in x.frame.chain()]
            nws = [x for x in under if x.node.get("k") == "Call" and norm(x.node.get("callee", "")) == RX + "::new"]
            errs = [x for x in under if x.node.get("k") == "Call" and last_seg(norm(x.node.get("callee", ""))) == "ParseRegex" and
                    str(x.node.get("callee_kind", "")).startswith("Ctor")]
            if len(nws) == 1:
                v_ = Sx.resolve(nws[0].node["args"][2], nws[0].frame)
                r_ = sem.is_method(v_.node, "settings")
                ok = r_ is not None and sem.param_index(Sx, r_, v_.frame) == 1
        R.check(ok, rule, fn, "compiled with the parser's own settings", "%d Regex::new sites reached from this lexer" % len(nws), h["span"])
        R.check(len(errs) == 1, "R11-validate", fn, "an invalid or over-limit regex is a parse error (ParseRegex)", where=h["span"])
        if fmt == "Raw":
            # the text handed to the engine is the raw string's content as lexed, untouched
            bound = False
            if len(nws) == 1:
                ms = sem.provenance(Sx, nws[0].node["args"][0], nws[0].frame)[3]
                bound = [m.strip("<>") for m in ms if not m.startswith("<") or m.strip("<>") == "lex_raw_string_as_str"][-1:] == ["lex_raw_string_as_str"] and \
                    all(m.startswith("<") or m in ("lex_raw_string_as_str", "skip_space", "expect", "as_ref", "as_str", "borrow", "deref") for m in ms)
            R.check(bound, rule, fn, "a raw-string pattern reaches the engine verbatim", where=h["span"])
        else:
            # the only rewrite: backslash dropped before a quote outside a class. Read from the path condition of the site
            # that re-emits the backslash: `<inside-a-class flag> || <next char> != '"'` (the scanning loop may live in a
            # private helper of the same file)
            ok = False
            Sl = sem.Sem(E, h)
            for x in Sl.sites():
                n_ = x.node
                if not (n_.get("k") == "MethodCall" and n_["m"] == "push" and n_.get("args") and lit_value(n_["args"][0]) == "\\"):
                    continue
                lits_, ors_ = sem.literals(x.pc)
                for disj in ors_:
                    flag = quote = False
                    for g_, pol_ in disj:
                        ls_, os_ = sem.literals(((g_, pol_),))
                        if os_ or len(ls_) != 1:
                            continue
                        a_, ap_ = ls_[0]
                        if a_.kind == "local" and ap_:
                            b_ = Sl.lookup(sem.peel(a_.node), a_.frame)
                            flag = flag or (b_ is not None and b_.mutable and b_.assigns > 0 and norm((b_.pat or {}).get("ty", "")) == "bool")
                        if a_.kind == "cmp" and ((a_.op == "Ne" and ap_) or (a_.op == "Eq" and not ap_)) and \
                                '"' in (lit_value(sem.peel(a_.l.node)), lit_value(sem.peel(a_.r.node))):
                            quote = True
                    if flag and quote and len(disj) == 2:
                        ok = True
            R.check(ok, rule, fn, "the backslash of an escape is kept unless it escapes a quote outside a character class", where=h["span"])


def rule_wildcfg(E, R):
    rule = "R11-wildcfg"
    hn = E.hir(WC + "::new")
    if not hn:
        return R.cannot(rule, WC + "::new", "anchor not found")
    bl = [c for c in exprs(hn["body"], "MethodCall") if c["m"] == "build" and "wildcard::" in norm(c.get("callee", ""))]
    if len(bl) != 1:
        R.violation(rule, WC + "::new", "one WildcardBuilder chain", str(len(bl)), hn["span"])
    else:
        root, cc = chain_calls(bl[0])
        d = dict((m, a) for m, a in cc)
        R.check("without_one_metasymbol" in d, rule, WC + "::new", "`?` is an ordinary character (without_one_metasymbol)", str(cc), hn["span"])
        R.check(d.get("case_insensitive") == ["!STRICT"], rule, WC + "::new",
                "case-insensitive exactly when the operator is not the strict one", "case_insensitive(%s)" % d.get("case_insensitive"), hn["span"])
        r = strip(root)
        ok = r.get("k") == "Call" and norm(r.get("callee", "")).endswith("WildcardBuilder::from_owned") and \
            is_param(chain(r["args"][0])[0], hn, 0)
        R.check(ok, rule, WC + "::new", "the builder receives the literal's bytes", where=hn["span"])
        extra = set(d) - {"without_one_metasymbol", "case_insensitive", "build"}
        R.check(not extra, rule, WC + "::new", "no other builder option is set", str(sorted(extra)), hn["span"])
    hi = E.hir(WC + "::is_match")
    if hi:
        ok, det = common.sole_result(E, hi, lambda t, S, fr: t.get("k") == "MethodCall" and
                                     norm(t.get("callee", "")) == "wildcard::Wildcard::is_match" and sem.param_index(S, t["args"][0], fr) == 1)
        R.check(ok, rule, WC + "::is_match", "whole-value match (wildcard::Wildcard::is_match) over the raw bytes, for every value", det, hi["span"])
    # validate dominates construction
    lit = [s for s in exprs(hn["body"], "Struct") if norm(s["res"].get("path", "")) == WC]
    # the Wildcard value is built only where the pattern passed validation - whether the checks live in `validate_wildcard`
    # (analysed inlined into `new`) or in `new` itself
    Sw = sem.Sem(E, hn)
    sites_ = [x for x in Sw.sites() if x.node.get("k") == "Struct" and norm(x.node["res"].get("path", "")) == WC]
    R.check(len(sites_) >= 1, "R11-validate", WC + "::new", "validate_wildcard(..)? precedes construction", "no construction site found", hn["span"])
    for x in sites_:
        limit_ok = None
        for op, l, r, fr, certain in sem.weak_cmps(x.pc):
            ln, rn = Sw.resolve(l, fr), Sw.resolve(r, fr)
            if sem.is_method(ln.node, "metasymbol_count") is not None and sem.param_index(Sw, r, fr) == 1:
                limit_ok = (op, "count,limit", certain)
            elif sem.is_method(rn.node, "metasymbol_count") is not None and sem.param_index(Sw, l, fr) == 1:
                limit_ok = (op, "limit,count", certain)
        good = limit_ok in (("Le", "count,limit", True), ("Lt", "limit,count", False))   # count <= limit
        if limit_ok and not good and limit_ok[2]:
            R.violation("R11-validate", WC + "::new", "star limit test is `count > limit`",
                        "the value is built where `%s` holds for (%s): a pattern with exactly `limit` stars must be accepted, one more rejected" % limit_ok[:2],
                        x.node["sp"])
        R.check(limit_ok == ("Le", "count,limit", True), "R11-validate", WC + "::new", "more stars than the limit is rejected",
                "found %s" % (limit_ok,), x.node["sp"])
        # (the test is the private helper's verdict: stated as the helper call, or - when the helper is a single expression that
        # the path condition expands - as that expression evaluated inside the helper)
        ds = any(a_.kind == "call" and not pol and (norm(sem.peel(a_.node).get("callee", "")) == "rhs_types::wildcard::has_double_star" or
                                                    "rhs_types::wildcard::has_double_star" in a_.frame.chain())
                 for a_, pol in sem.literals(x.pc)[0])
        R.check(ds, "R11-validate", WC + "::new", "`**` is rejected", where=x.node["sp"])
        counted = [y for y in Sw.sites() if y.node.get("k") == "MethodCall" and y.node["m"] == "metasymbol_count"]
        built = [y for y in Sw.sites() if y.node.get("k") == "MethodCall" and y.node["m"] == "build" and "wildcard::" in norm(y.node.get("callee", ""))]
        same = bool(counted) and bool(built) and all(sem.passes_through(Sw, y.node["recv"], y.frame, built[0].node) for y in counted)
        R.check(same, "R11-validate", WC + "::new", "stars are counted by the engine's metasymbol count", where=x.node["sp"])
        R.check(limit_ok is not None and ds, "R11-validate", WC + "::new", "validate_wildcard(..)? precedes construction", where=x.node["sp"])
    hl = E.hirs(r"^<rhs_types::wildcard::Wildcard<STRICT> as lex::LexWith<&ast::parse::FilterParser>>::lex_with$")
    if len(hl) == 1:
        nw = [c for c in exprs(hl[0]["body"], "Call") if norm(c.get("callee", "")) == WC + "::new"]
        ok = len(nw) == 1 and strip(nw[0]["args"][1]).get("name") == "wildcard_star_limit"
        R.check(ok, "R11-validate", norm(hl[0]["path"]), "the limit is the parser's wildcard_star_limit", where=hl[0]["span"])
        errs = [c for c in exprs(hl[0]["body"], "Call") if last_seg(norm(c.get("callee", ""))) == "ParseWildcard"]
        R.check(len(errs) == 1, "R11-validate", norm(hl[0]["path"]), "an invalid wildcard is a parse error (ParseWildcard)", where=hl[0]["span"])
    else:
        R.cannot("R11-validate", "Wildcard::lex_with", "anchor not found")


def rule_wiring(E, R):
    rule = "R11-wiring"
    a = E.adt("ast::field_expr::ComparisonOpExpr")
    if not a:
        return R.cannot(rule, "ComparisonOpExpr", "enum not found")
    tys = {v["name"]: [norm(f["ty"]) for f in v["fields"]] for v in a["variants"]}
    R.check(tys.get("Wildcard") == ["rhs_types::wildcard::Wildcard<false>"], rule, "ComparisonOpExpr::Wildcard", "carries Wildcard<STRICT=false>", str(tys.get("Wildcard")))
    R.check(tys.get("StrictWildcard") == ["rhs_types::wildcard::Wildcard<true>"], rule, "ComparisonOpExpr::StrictWildcard", "carries Wildcard<STRICT=true>", str(tys.get("StrictWildcard")))
    R.check(tys.get("Matches") == ["rhs_types::regex::imp_real::Regex"], rule, "ComparisonOpExpr::Matches", "carries the compiled Regex", str(tys.get("Matches")))
    # comparators delegate to is_match
    for rx, meth in ((r"Compare<U> for rhs_types::wildcard::Wildcard<STRICT>\}::compare$", WC + "::is_match"),
                     (r"Regex as ast::index_expr::Compare<U>>::compare$|Compare<U> for rhs_types::regex::imp_real::Regex\}::compare$", RX + "::is_match")):
        hs = E.hirs(rx)
        if len(hs) != 1:
            R.cannot(rule, rx, "anchor not found (%d)" % len(hs))
            continue
        ok, det = common.sole_result(E, hs[0], lambda t, S, fr, meth=meth: t.get("k") == "MethodCall" and norm(t.get("callee", "")) == meth and
                                     sem.param_index(S, t["recv"], fr) == 0)
        R.check(ok, rule, norm(hs[0]["path"]), "comparison is is_match(value bytes)", det, hs[0]["span"])
    # compile: Matches / Wildcard / StrictWildcard hand their own payload to compile_with
    h, sites = common.compile_with_sites(E)
    for c, st in sites:
        v = arm_variants(st, "ComparisonOpExpr")
        if v and v[0] in ("Matches", "Wildcard", "StrictWildcard") and norm(c.get("callee", "")).endswith("compile_with"):
            args = call_args(c)
            payload = set()
            for q in walk(h["body"]):
                if q.get("k") == "PTupleStruct" and norm(q["res"].get("path", "")).endswith("ComparisonOpExpr::" + v[0]):
                    payload |= set(pat_bindings(q))
            R.check(local_name(args[3]) in payload, rule, common.CMP_COMPILE, "%s compiles its own pattern" % v[0], where=c["sp"])


def run(F, R, tier):
    E = F.engine
    rule_regexcfg(E, R)
    rule_wildcfg(E, R)
    rule_wiring(E, R)
    common.rule_default(E, R, only={"Matches", "Wildcard", "StrictWildcard"})
    R.not_decided += ["semantics of regex-automata and wildcard (dependencies)", "the quoted-regex scanner as a state machine",
                      "escape handling of wildcard patterns inside quoted strings (two unescaping layers)"]
