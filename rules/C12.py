"""C12 — uses() and uses_list() report field usage exactly."""
from lib import *
import sem

LEVEL = "other"
EXPLANATION = ("Exhaustiveness of the AST walk decided from types: an ADT is field-bearing if scheme::Field is "
               "reachable through its fields; in every walk/walk_mut implementation each field-bearing child of each "
               "variant/struct is bound (never skipped by `..`/`_`) and forwarded, in that arm, to a visitor method or "
               "walk, over the whole collection (no lossy adaptor); the default visitor methods forward to walk; the "
               "two usage visitors only add the early-exit guard, set the flag under `self.field == *f`, and the "
               "list visitor counts a field only inside an InList comparison while still walking on; the four entry "
               "points resolve the name through Scheme::get_field first.")

FIELD = "scheme::Field"


def field_bearing(E):
    """set of local ADT paths from which scheme::Field is reachable through field types"""
    adts = E.adts
    bearing = {FIELD}
    changed = True
    while changed:
        changed = False
        for p, a in adts.items():
            if p in bearing:
                continue
            for v in a["variants"]:
                for f in v["fields"]:
                    if any(x in bearing for x in f["adts"]):
                        bearing.add(p)
                        changed = True
                        break
                if p in bearing:
                    break
    return bearing


def _is_forward(c):
    cal = norm(c.get("callee", ""))
    return "Visitor::visit_" in cal or "VisitorMut::visit_" in cal or cal.endswith("::walk") or cal.endswith("::walk_mut")


def _forwarded_names(n):
    """{local name: lossy?} of locals that reach a visit_*/walk call inside n (directly, via &/&mut/deref/field, or as
    the element variable of an order-preserving whole-collection iteration)"""
    out = {}
    for c in exprs(n, ("Call", "MethodCall")):
        if not _is_forward(c):
            continue
        for a in call_args(c):
            for p in exprs(a, "Path", into_closures=False):
                nm = local_name(p)
                if nm:
                    out.setdefault(nm, "direct")
    # closures of for_each/map over a collection: element var forwarded => collection forwarded
    for c in exprs(n, "MethodCall"):
        if c["m"] in ("for_each", "map", "try_for_each", "all", "any") and c.get("args"):
            clo = closure_of(c["args"][0])
            if not clo:
                continue
            params = set(pat_bindings({"k": "x", "params": clo.get("params", [])}))
            inner = _forwarded_names(clo["body"])
            if params & set(inner):
                root, ch = chain(c)
                v = chain_verdict(ch[:-1])
                base = strip(root)
                nm = local_name(base)
                if nm is None and base.get("k") == "Field":
                    nm = "self." + base["name"] if local_name(base["e"]) == "self" else None
                if nm:
                    out[nm] = "iter" if v == "ok" else v
    # for loops
    for m in exprs(n, "Match"):
        if m.get("src") == "ForLoopDesugar":
            sc = strip(m["scrut"])
            if sc.get("k") == "Call" and sc.get("args"):
                root, ch = chain(sc["args"][0])
                base = strip(root)
                nm = local_name(base) or (("self." + base["name"]) if base.get("k") == "Field" and local_name(base["e"]) == "self" else None)
                loopvars = set()
                for a_ in exprs(m, "Match"):
                    if a_.get("src") == "ForLoopDesugar" and a_ is not m:
                        for arm in a_["arms"]:
                            loopvars |= set(pat_bindings(arm["pat"]))
                if nm and loopvars & set(_forwarded_names({"k": "x", "arms": m["arms"]})):
                    v = chain_verdict(ch)
                    out[nm] = "iter" if v == "ok" else v
    # self.<field> passed directly
    for c in exprs(n, ("Call", "MethodCall")):
        if _is_forward(c):
            for a in call_args(c):
                for f in exprs(a, "Field", into_closures=False):
                    if local_name(f["e"]) == "self" or (strip(f["e"]).get("k") == "Field"):
                        base = f
                        names = [f["name"]]
                        cur = strip(f["e"])
                        while cur.get("k") == "Field":
                            names.append(cur["name"])
                            cur = strip(cur["e"])
                        if local_name(cur) == "self" or local_name(cur) in out:
                            out.setdefault("self." + names[-1] if local_name(cur) == "self" else local_name(cur), "direct")
    return out


def variant_fields(E, adt_path, variant):
    a = E.adt(adt_path)
    if not a:
        return None
    for v in a["variants"]:
        if v["name"] == variant:
            return v["fields"]
    return None


def rule_walk(E, R):
    rule = "R12-walk"
    bearing = field_bearing(E)
    R.analysed["field_bearing_adts"] = sorted(x for x in bearing if x.startswith("ast::") or x.startswith("scheme::"))
    walks = [h for h in E.hir_list if "body" in h and re.search(r"::(walk|walk_mut)$", norm(h["path"])) and "::tests::" not in norm(h["path"])]
    R.floor(rule, "walk / walk_mut implementations", len(walks), 14)
    n = 0
    for h in walks:
        fn = norm(h["path"])
        it = E.item_by_dp.get(h["dp"], {})
        self_adt = it.get("self_adt")
        if not self_adt:
            continue
        a = E.adt(self_adt)
        if not a:
            continue
        body = h["body"]
        if a["kind"] == "Enum":
            ms = [m for m in exprs(body, "Match", into_closures=False) if local_name(m["scrut"]) == "self" or
                  (strip(m["scrut"]).get("k") == "Unary" and local_name(strip(m["scrut"])["e"]) == "self")]
            if len(ms) != 1:
                R.undecided(rule, fn, "no single `match self`", where=h["span"])
                continue
            covered = set()
            for arm in ms[0]["arms"]:
                for v in pat_variants(arm["pat"]):
                    covered.add(last_seg(v))
                    n += _check_arm(E, R, rule, fn, self_adt, last_seg(v), arm["pat"], arm["body"], bearing)
                if not pat_variants(arm["pat"]):
                    # catch-all arm: every variant it swallows must bear no field
                    for v in a["variants"]:
                        if v["name"] not in covered and any(any(x in bearing for x in f["adts"]) for f in v["fields"]):
                            R.violation(rule, fn, "variant %s handled by a catch-all arm" % v["name"],
                                        "a field-bearing child is not walked", arm["sp"])
        else:
            # struct: fields accessed as self.<f> (or through a match on one of them)
            fields = a["variants"][0]["fields"]
            fwd = _forwarded_names(body)
            for f in fields:
                if not any(x in bearing for x in f["adts"]):
                    continue
                n += 1
                key = "self." + f["name"]
                how = fwd.get(key)
                if how is None:
                    # matched on: `match self.identifier { Variant(ref x) => visit(x) }`
                    for m in exprs(body, "Match", into_closures=False):
                        sc = strip(m["scrut"])
                        if sc.get("k") == "Field" and sc.get("name") == f["name"] and local_name(sc["e"]) == "self":
                            sub = norm(f["ty"])
                            ok_all = True
                            cov = set()
                            for arm in m["arms"]:
                                for v in pat_variants(arm["pat"]):
                                    cov.add(last_seg(v))
                                    _check_arm(E, R, rule, fn, _adt_of_type(E, f), last_seg(v), arm["pat"], arm["body"], bearing)
                            how = "match"
                if how in ("direct", "iter", "match"):
                    R.ok(rule, fn, "field `%s` is walked (%s)" % (f["name"], how), where=h["span"])
                elif how is None:
                    R.violation(rule, fn, "field `%s` is not walked" % f["name"],
                                "a field-bearing child (%s) is never forwarded to the visitor" % norm(f["ty"]), h["span"])
                else:
                    R.violation(rule, fn, "field `%s` is walked through `%s`" % (f["name"], how),
                                "a lossy adaptor skips children", h["span"])
    R.floor(rule, "field-bearing children checked", n, 17)


def _adt_of_type(E, f):
    for x in f["adts"]:
        if x in E.adts and norm(f["ty"]).endswith(x.split("::")[-1]) or x == norm(f["ty"]):
            return x
    for x in f["adts"]:
        if x in E.adts:
            return x
    return None


def _check_arm(E, R, rule, fn, adt, variant, pat, body, bearing):
    fields = variant_fields(E, adt, variant) if adt else None
    if fields is None:
        return 0
    # bindings per field
    bound = {}
    p = pat
    while p.get("k") in ("PRef", "PBox", "PDeref"):
        p = p["pat"]
    if p.get("k") == "PStruct":
        for pf in p["fields"]:
            bs = pat_bindings(pf["pat"])
            bound[pf["name"]] = bs[0] if bs else None
    elif p.get("k") == "PTupleStruct":
        for i, q in enumerate(p["pats"]):
            bs = pat_bindings(q)
            bound[str(i)] = bs[0] if bs else None
    fwd = _forwarded_names(body)
    cnt = 0
    for f in fields:
        if not any(x in bearing for x in f["adts"]):
            continue
        cnt += 1
        b = bound.get(f["name"])
        label = "%s::%s.%s" % (last_seg(adt), variant, f["name"])
        if b is None:
            R.violation(rule, fn, "%s is skipped by the pattern" % label,
                        "a field-bearing child (%s) is not bound, so the visitor never sees fields inside it" % norm(f["ty"]), pat.get("sp", ""))
            continue
        how = fwd.get(b)
        if how in ("direct", "iter"):
            R.ok(rule, fn, "%s is walked (%s)" % (label, how))
        elif how is None:
            R.violation(rule, fn, "%s is bound but not walked" % label, "never forwarded to a visitor method or walk")
        else:
            R.violation(rule, fn, "%s is walked through `%s`" % (label, how), "a lossy adaptor skips children")
    return cnt


DEFAULTS = {"visit_expr": ("walk", "node"), "visit_logical_expr": ("visit_expr", "self"), "visit_comparison_expr": ("visit_expr", "self"),
            "visit_value_expr": ("walk", "node"), "visit_index_expr": ("visit_value_expr", "self"),
            "visit_function_call_expr": ("visit_value_expr", "self"), "visit_function_call_arg_expr": ("visit_value_expr", "self")}


def _only_early_exit_guards(S, site):
    """every condition on the way to the site is `the flag self.uses is not set yet`"""
    for f, pol in site.pc:
        lits, ors = sem.literals(((f, pol),))
        if ors or not lits:
            return False
        for a, p in lits:
            n = strip(a.node) if a.node is not None else {}
            if p or a.kind not in ("opaque", "call", "local") or n.get("k") != "Field" or n.get("name") != "uses" or \
                    sem.param_index(S, n["e"], a.frame) != 0:
                return False
    return True


def rule_visitor(E, R):
    rule = "R12-visitor"
    for tr, walkname in (("ast::visitor::Visitor", "walk"), ("ast::visitor::VisitorMut", "walk_mut")):
        for meth, (target, recv) in DEFAULTS.items():
            fn = "%s::%s" % (tr, meth)
            h = E.hir(fn)
            if not h:
                R.cannot(rule, fn, "anchor not found")
                continue
            S = sem.Sem(E, h, inline=False)
            t = fn_result(h)
            tgt = walkname if target == "walk" else target
            ok = t.get("k") == "MethodCall" and t["m"] == tgt and not [x for x in S.sites() if x.node is t and x.pc]
            if ok:
                # forwards (self, node) in the right roles: walk is node.walk(self); visit_* is self.visit_*(node)
                ri = sem.param_index(S, t["recv"], S.root)
                ai = [sem.param_index(S, a_, S.root) for a_ in t["args"]]
                ok = (ri, ai) == ((1, [0]) if recv == "node" else (0, [1]))
            R.check(ok, rule, fn, "default forwards to %s" % tgt, where=h["span"])
    for vis in ("UsesVisitor", "UsesListVisitor"):
        pre = "<ast::visitor::%s as ast::visitor::Visitor>::" % vis
        methods = {last_seg(norm(h["path"])): h for h in E.hir_list if "body" in h and norm(h["path"]).startswith(pre) and "{closure" not in h["path"]}
        allowed = {"visit_expr", "visit_value_expr", "visit_field"} if vis == "UsesVisitor" else {"visit_expr", "visit_value_expr", "visit_comparison_expr"}
        R.check(set(methods) == allowed, rule, "ast::visitor::" + vis, "overrides exactly %s" % sorted(allowed), str(sorted(methods)))
        for m in ("visit_expr", "visit_value_expr"):
            h = methods.get(m)
            if not h:
                continue
            S = sem.Sem(E, h)
            walks = [x for x in S.sites() if x.node.get("k") == "MethodCall" and x.node["m"] == "walk" and
                     sem.param_index(S, x.node["recv"], x.frame) == 1 and sem.param_index(S, x.node["args"][0], x.frame) == 0]
            ok = len(walks) == 1 and _only_early_exit_guards(S, walks[0]) and not walks[0].in_loop
            R.check(ok, rule, pre + m, "walks the node unless the field was already found (early exit only)", where=h["span"])
    hf = E.hir("<ast::visitor::UsesVisitor as ast::visitor::Visitor>::visit_field")
    if hf:
        S = sem.Sem(E, hf)
        sets = [x for x in S.sites() if x.node.get("k") == "Assign" and strip(x.node["l"]).get("k") == "Field" and strip(x.node["l"])["name"] == "uses"]
        ok = len(sets) == 1 and is_lit(sets[0].node["r"], True)
        if ok:
            lits, ors = sem.literals(sets[0].pc)
            ok = len(lits) == 1 and not ors and lits[0][0].kind == "cmp" and lits[0][1] and lits[0][0].op == "Eq"
            if ok:
                a = lits[0][0]
                sides = []
                for v in (a.l, a.r):
                    n = strip(v.node)
                    if n.get("k") == "Field" and n.get("name") == "field" and sem.param_index(S, n["e"], v.frame) == 0:
                        sides.append("self.field")
                    elif sem.param_index(S, v.node, v.frame) == 1:
                        sides.append("visited")
                ok = sorted(sides) == ["self.field", "visited"]
        R.check(ok, rule, norm(hf["path"]), "`uses` is set exactly when the visited field equals the queried one", where=hf["span"])
    hc = E.hir("<ast::visitor::UsesListVisitor as ast::visitor::Visitor>::visit_comparison_expr")
    if hc:
        S = sem.Sem(E, hc)
        sets = [x for x in S.sites() if x.node.get("k") == "Assign" and strip(x.node["l"]).get("k") == "Field" and
                strip(x.node["l"])["name"] == "uses" and sem.param_index(S, strip(x.node["l"])["e"], x.frame) == 0]
        ok = len(sets) == 1 and is_lit(sets[0].node["r"], True)
        why = "expected: if the operator is InList { run a UsesVisitor for the same field over the comparison; if it found the field set uses }"
        if ok:
            x = sets[0]
            lits, ors = sem.literals(x.pc)
            inlist = found = False
            for a, pol in lits:
                if a.kind == "is" and pol and len(a.scruts) == 1 and {sem.variant_head(y[0]) for y in a.alts} == {"ComparisonOpExpr::InList"}:
                    n = strip(a.scruts[0].node)
                    inlist = n.get("k") == "Field" and n.get("name") == "op" and sem.param_index(S, n["e"], a.scruts[0].frame) == 1
                if pol and a.kind in ("opaque", "call") and a.node is not None:
                    n = strip(a.node)
                    recv = n["e"] if n.get("k") == "Field" and n.get("name") == "uses" else sem.is_method(n, "uses")
                    if recv is None:
                        continue
                    vb = sem.root_local(S, recv, a.frame)
                    if vb is None or vb.expr is None:
                        continue
                    mk = sem.peel(vb.expr)
                    same_field = norm(mk.get("callee", "")) == "ast::visitor::UsesVisitor::new" and mk.get("args") and \
                        strip(mk["args"][0]).get("k") == "Field" and strip(mk["args"][0])["name"] == "field" and \
                        sem.param_index(S, strip(mk["args"][0])["e"], vb.frame) == 0
                    visited = [y for y in S.sites() if y.node.get("k") == "MethodCall" and y.node["m"] == "visit_comparison_expr" and
                               sem.root_local(S, y.node["recv"], y.frame) is vb and sem.param_index(S, y.node["args"][0], y.frame) == 1]
                    found = bool(same_field and visited)
            others = [a for a, pol in lits if not (a.kind == "is" or a.kind in ("opaque", "call", "ok"))]
            ok = inlist and found and not ors and not others
        R.check(ok, rule, norm(hc["path"]), "a field counts for uses_list iff it occurs inside an `in $list` comparison", why, hc["span"])
        walks = [x for x in S.sites() if x.node.get("k") == "MethodCall" and x.node["m"] == "walk" and
                 sem.param_index(S, x.node["recv"], x.frame) == 1 and x.frame is S.root]
        R.check(len(walks) == 1 and _only_early_exit_guards(S, walks[0]), rule, norm(hc["path"]),
                "the comparison's children are still walked (nested list comparisons are found)", where=hc["span"])
    else:
        R.cannot(rule, "UsesListVisitor::visit_comparison_expr", "anchor not found")


def rule_resolve(E, R):
    rule = "R12-resolve"
    for ty in ("ast::FilterAst", "ast::FilterValueAst"):
        for meth, vis in (("uses", "UsesVisitor"), ("uses_list", "UsesListVisitor")):
            fn = "%s::%s" % (ty, meth)
            h = E.hir(fn)
            if not h:
                R.cannot(rule, fn, "anchor not found")
                continue
            S = sem.Sem(E, h)
            gets = [x for x in S.sites() if x.node.get("k") == "MethodCall" and norm(x.node.get("callee", "")) == "scheme::Scheme::get_field"]
            news = [x for x in S.sites() if x.node.get("k") == "Call" and norm(x.node.get("callee", "")) == "ast::visitor::%s::new" % vis]
            ok = len(gets) == 1 and len(news) == 1
            if ok:
                g, nw = gets[0], news[0]
                gsch = strip(g.node["recv"])
                ok = sem.param_index(S, g.node["args"][0], g.frame) == 1 and not g.pc and \
                    gsch.get("k") == "Field" and gsch.get("name") == "scheme" and sem.param_index(S, gsch["e"], g.frame) == 0
                # the visitor is built from the resolved field, only when resolution succeeded
                ok = ok and sem.passes_through(S, nw.node["args"][0], nw.frame, g.node)
                vb = None
                for b_ in nw.frame.binds.values():
                    if b_.expr is not None and sem.peel(b_.expr) is nw.node:
                        vb = b_
                walks = [x for x in S.sites() if x.node.get("k") == "MethodCall" and x.node["m"] == "walk" and
                         sem.param_index(S, x.node["recv"], x.frame) == 0 and vb is not None and
                         sem.root_local(S, x.node["args"][0], x.frame) is vb]
                flags = [x for x in S.sites() if x.node.get("k") == "MethodCall" and x.node["m"] == "uses" and vb is not None and
                         sem.root_local(S, x.node["recv"], x.frame) is vb]
                ok = ok and len(walks) == 1 and len(flags) == 1 and walks[0].pc == nw.pc and not walks[0].in_loop
                if ok:
                    # the flag is what the function returns on success; failure of get_field is what it returns otherwise
                    fl = flags[0]
                    good = False
                    for leaf in S.result_leaves():
                        n = leaf.node
                        if n.get("k") == "Call" and norm(n.get("callee", "")) == "core::result::Result::Ok" and sem.peel(n["args"][0]) is fl.node:
                            good = any(a.kind == "ok" and pol and sem.peel(a.node) is g.node for a, pol in sem.literals(leaf.pc)[0])
                        elif n.get("k") == "MethodCall" and n["m"] == "map" and S.resolve(n["recv"], leaf.frame).node is g.node:
                            clo = closure_of(n["args"][0])
                            good = clo is not None and tail(clo["body"]) is fl.node
                    ok = good
            R.check(ok, rule, fn, "resolves the name with get_field (unknown -> error), walks the whole AST with a %s, returns its flag" % vis, where=h["span"])


def run(F, R, tier):
    E = F.engine
    rule_walk(E, R)
    rule_visitor(E, R)
    rule_resolve(E, R)
    R.not_decided += ["`name occurs in the source` <-> `Field node in the AST` is the parser's construction (see C16 exact lookup)"]
