"""C12 — uses() and uses_list() report field usage exactly."""
from lib import *

LEVEL = "other"
EXPLANATION = ("Exhaustiveness of the AST walk decided from types: an ADT is field-bearing if scheme::Field is "
               "reachable through its fields; in every walk/walk_mut implementation each field-bearing child of each "
               "variant/struct is bound (never skipped by `..`/`_`) and forwarded, in that arm, to a visitor method or "
               "walk, over the whole collection (no lossy adaptor); the default visitor methods forward to walk; the "
               "two usage visitors only add the early-exit guard, set the flag under `self.field == *f`, and the "
               "list visitor counts a field only inside an InList comparison while still walking on; the four entry "
               "points resolve the name through Scheme::get_field first.")

FIELD = "scheme::Field"


def field_bearing(E):
    """set of local ADT paths from which scheme::Field is reachable through field types"""
    adts = E.adts
    bearing = {FIELD}
    changed = True
    while changed:
        changed = False
        for p, a in adts.items():
            if p in bearing:
                continue
            for v in a["variants"]:
                for f in v["fields"]:
                    if any(x in bearing for x in f["adts"]):
                        bearing.add(p)
                        changed = True
                        break
                if p in bearing:
                    break
    return bearing


def _is_forward(c):
    cal = norm(c.get("callee", ""))
    return "Visitor::visit_" in cal or "VisitorMut::visit_" in cal or cal.endswith("::walk") or cal.endswith("::walk_mut")


def _forwarded_names(n):
    """{local name: lossy?} of locals that reach a visit_*/walk call inside n (directly, via &/&mut/deref/field, or as
    the element variable of an order-preserving whole-collection iteration)"""
    out = {}
    for c in exprs(n, ("Call", "MethodCall")):
        if not _is_forward(c):
            continue
        for a in call_args(c):
            for p in exprs(a, "Path", into_closures=False):
                nm = local_name(p)
                if nm:
                    out.setdefault(nm, "direct")
    # closures of for_each/map over a collection: element var forwarded => collection forwarded
    for c in exprs(n, "MethodCall"):
        if c["m"] in ("for_each", "map", "try_for_each", "all", "any") and c.get("args"):
            clo = closure_of(c["args"][0])
            if not clo:
                continue
            params = set(pat_bindings({"k": "x", "params": clo.get("params", [])}))
            inner = _forwarded_names(clo["body"])
            if params & set(inner):
                root, ch = chain(c)
                v = chain_verdict(ch[:-1])
                base = strip(root)
                nm = local_name(base)
                if nm is None and base.get("k") == "Field":
                    nm = "self." + base["name"] if local_name(base["e"]) == "self" else None
                if nm:
                    out[nm] = "iter" if v == "ok" else v
    # for loops
    for m in exprs(n, "Match"):
        if m.get("src") == "ForLoopDesugar":
            sc = strip(m["scrut"])
            if sc.get("k") == "Call" and sc.get("args"):
                root, ch = chain(sc["args"][0])
                base = strip(root)
                nm = local_name(base) or (("self." + base["name"]) if base.get("k") == "Field" and local_name(base["e"]) == "self" else None)
                loopvars = set()
                for a_ in exprs(m, "Match"):
                    if a_.get("src") == "ForLoopDesugar" and a_ is not m:
                        for arm in a_["arms"]:
                            loopvars |= set(pat_bindings(arm["pat"]))
                if nm and loopvars & set(_forwarded_names({"k": "x", "arms": m["arms"]})):
                    v = chain_verdict(ch)
                    out[nm] = "iter" if v == "ok" else v
    # self.<field> passed directly
    for c in exprs(n, ("Call", "MethodCall")):
        if _is_forward(c):
            for a in call_args(c):
                for f in exprs(a, "Field", into_closures=False):
                    if local_name(f["e"]) == "self" or (strip(f["e"]).get("k") == "Field"):
                        base = f
                        names = [f["name"]]
                        cur = strip(f["e"])
                        while cur.get("k") == "Field":
                            names.append(cur["name"])
                            cur = strip(cur["e"])
                        if local_name(cur) == "self" or local_name(cur) in out:
                            out.setdefault("self." + names[-1] if local_name(cur) == "self" else local_name(cur), "direct")
    return out


def variant_fields(E, adt_path, variant):
    a = E.adt(adt_path)
    if not a:
        return None
    for v in a["variants"]:
        if v["name"] == variant:
            return v["fields"]
    return None


def rule_walk(E, R):
    rule = "R12-walk"
    bearing = field_bearing(E)
    R.analysed["field_bearing_adts"] = sorted(x for x in bearing if x.startswith("ast::") or x.startswith("scheme::"))
    walks = [h for h in E.hir_list if "body" in h and re.search(r"::(walk|walk_mut)$", norm(h["path"])) and "::tests::" not in norm(h["path"])]
    R.floor(rule, "walk / walk_mut implementations", len(walks), 14)
    n = 0
    for h in walks:
        fn = norm(h["path"])
        it = E.item_by_dp.get(h["dp"], {})
        self_adt = it.get("self_adt")
        if not self_adt:
            continue
        a = E.adt(self_adt)
        if not a:
            continue
        body = h["body"]
        if a["kind"] == "Enum":
            ms = [m for m in exprs(body, "Match", into_closures=False) if local_name(m["scrut"]) == "self" or
                  (strip(m["scrut"]).get("k") == "Unary" and local_name(strip(m["scrut"])["e"]) == "self")]
            if len(ms) != 1:
                R.undecided(rule, fn, "no single `match self`", where=h["span"])
                continue
            covered = set()
            for arm in ms[0]["arms"]:
                for v in pat_variants(arm["pat"]):
                    covered.add(last_seg(v))
                    n += _check_arm(E, R, rule, fn, self_adt, last_seg(v), arm["pat"], arm["body"], bearing)
                if not pat_variants(arm["pat"]):
                    # catch-all arm: every variant it swallows must bear no field
                    for v in a["variants"]:
                        if v["name"] not in covered and any(any(x in bearing for x in f["adts"]) for f in v["fields"]):
                            R.violation(rule, fn, "variant %s handled by a catch-all arm" % v["name"],
                                        "a field-bearing child is not walked", arm["sp"])
        else:
            # struct: fields accessed as self.<f> (or through a match on one of them)
            fields = a["variants"][0]["fields"]
            fwd = _forwarded_names(body)
            for f in fields:
                if not any(x in bearing for x in f["adts"]):
                    continue
                n += 1
                key = "self." + f["name"]
                how = fwd.get(key)
                if how is None:
                    # matched on: `match self.identifier { Variant(ref x) => visit(x) }`
                    for m in exprs(body, "Match", into_closures=False):
                        sc = strip(m["scrut"])
                        if sc.get("k") == "Field" and sc.get("name") == f["name"] and local_name(sc["e"]) == "self":
                            sub = norm(f["ty"])
                            ok_all = True
                            cov = set()
                            for arm in m["arms"]:
                                for v in pat_variants(arm["pat"]):
                                    cov.add(last_seg(v))
                                    _check_arm(E, R, rule, fn, _adt_of_type(E, f), last_seg(v), arm["pat"], arm["body"], bearing)
                            how = "match"
                if how in ("direct", "iter", "match"):
                    R.ok(rule, fn, "field `%s` is walked (%s)" % (f["name"], how), where=h["span"])
                elif how is None:
                    R.violation(rule, fn, "field `%s` is not walked" % f["name"],
                                "a field-bearing child (%s) is never forwarded to the visitor" % norm(f["ty"]), h["span"])
                else:
                    R.violation(rule, fn, "field `%s` is walked through `%s`" % (f["name"], how),
                                "a lossy adaptor skips children", h["span"])
    R.floor(rule, "field-bearing children checked", n, 17)


def _adt_of_type(E, f):
    for x in f["adts"]:
        if x in E.adts and norm(f["ty"]).endswith(x.split("::")[-1]) or x == norm(f["ty"]):
            return x
    for x in f["adts"]:
        if x in E.adts:
            return x
    return None


def _check_arm(E, R, rule, fn, adt, variant, pat, body, bearing):
    fields = variant_fields(E, adt, variant) if adt else None
    if fields is None:
        return 0
    # bindings per field
    bound = {}
    p = pat
    while p.get("k") in ("PRef", "PBox", "PDeref"):
        p = p["pat"]
    if p.get("k") == "PStruct":
        for pf in p["fields"]:
            bs = pat_bindings(pf["pat"])
            bound[pf["name"]] = bs[0] if bs else None
    elif p.get("k") == "PTupleStruct":
        for i, q in enumerate(p["pats"]):
            bs = pat_bindings(q)
            bound[str(i)] = bs[0] if bs else None
    fwd = _forwarded_names(body)
    cnt = 0
    for f in fields:
        if not any(x in bearing for x in f["adts"]):
            continue
        cnt += 1
        b = bound.get(f["name"])
        label = "%s::%s.%s" % (last_seg(adt), variant, f["name"])
        if b is None:
            R.violation(rule, fn, "%s is skipped by the pattern" % label,
                        "a field-bearing child (%s) is not bound, so the visitor never sees fields inside it" % norm(f["ty"]), pat.get("sp", ""))
            continue
        how = fwd.get(b)
        if how in ("direct", "iter"):
            R.ok(rule, fn, "%s is walked (%s)" % (label, how))
        elif how is None:
            R.violation(rule, fn, "%s is bound but not walked" % label, "never forwarded to a visitor method or walk")
        else:
            R.violation(rule, fn, "%s is walked through `%s`" % (label, how), "a lossy adaptor skips children")
    return cnt


DEFAULTS = {"visit_expr": ("walk", "node"), "visit_logical_expr": ("visit_expr", "self"), "visit_comparison_expr": ("visit_expr", "self"),
            "visit_value_expr": ("walk", "node"), "visit_index_expr": ("visit_value_expr", "self"),
            "visit_function_call_expr": ("visit_value_expr", "self"), "visit_function_call_arg_expr": ("visit_value_expr", "self")}


def rule_visitor(E, R):
    rule = "R12-visitor"
    for tr, walkname in (("ast::visitor::Visitor", "walk"), ("ast::visitor::VisitorMut", "walk_mut")):
        for meth, (target, recv) in DEFAULTS.items():
            fn = "%s::%s" % (tr, meth)
            h = E.hir(fn)
            if not h:
                R.cannot(rule, fn, "anchor not found")
                continue
            t = tail(h["body"])
            tgt = walkname if target == "walk" else target
            ok = t.get("k") == "MethodCall" and t["m"] == tgt and local_name(t["recv"]) == recv and \
                [local_name(a) for a in t["args"]] == (["self"] if recv == "node" else ["node"])
            R.check(ok, rule, fn, "default forwards to %s" % tgt, where=h["span"])
    for vis in ("UsesVisitor", "UsesListVisitor"):
        pre = "<ast::visitor::%s as ast::visitor::Visitor>::" % vis
        methods = {last_seg(norm(h["path"])): h for h in E.hir_list if "body" in h and norm(h["path"]).startswith(pre) and "{closure" not in h["path"]}
        allowed = {"visit_expr", "visit_value_expr", "visit_field"} if vis == "UsesVisitor" else {"visit_expr", "visit_value_expr", "visit_comparison_expr"}
        R.check(set(methods) == allowed, rule, "ast::visitor::" + vis, "overrides exactly %s" % sorted(allowed), str(sorted(methods)))
        for m in ("visit_expr", "visit_value_expr"):
            h = methods.get(m)
            if not h:
                continue
            t = tail(h["body"])
            ok = False
            if t.get("k") == "If" and "else" not in t:
                c = strip(t["cond"])
                neg = c.get("k") == "Unary" and c["op"] == "Not" and strip(c["e"]).get("k") == "Field" and strip(c["e"])["name"] == "uses"
                w = tail(t["then"])
                ok = neg and w.get("k") == "MethodCall" and w["m"] == "walk" and local_name(w["recv"]) == "node" and local_name(w["args"][0]) == "self"
            R.check(ok, rule, pre + m, "walks the node unless the field was already found (early exit only)", where=h["span"])
    hf = E.hir("<ast::visitor::UsesVisitor as ast::visitor::Visitor>::visit_field")
    if hf:
        t = tail(hf["body"])
        ok = False
        if t.get("k") == "If" and "else" not in t:
            c = strip(t["cond"])
            eq = c.get("k") == "Binary" and c["op"] == "Eq" and strip(c["l"]).get("name") == "field" and local_name(chain(c["r"])[0]) == "f"
            asg = [a for a in exprs(t["then"], "Assign")]
            ok = eq and len(asg) == 1 and strip(asg[0]["l"]).get("name") == "uses" and is_lit(asg[0]["r"], True)
        R.check(ok, rule, norm(hf["path"]), "`uses` is set exactly when the visited field equals the queried one", where=hf["span"])
    hc = E.hir("<ast::visitor::UsesListVisitor as ast::visitor::Visitor>::visit_comparison_expr")
    if hc:
        body = hc["body"]
        ifs = [i for i in exprs(body, "If", into_closures=False)]
        inlist = None
        for i in ifs:
            c = strip(i["cond"])
            if c.get("k") == "LetExpr" and (pat_variant(c["pat"]) or "").endswith("ComparisonOpExpr::InList"):
                inlist = i
        ok = False
        if inlist is not None:
            news = [c for c in exprs(inlist["then"], "Call") if norm(c.get("callee", "")) == "ast::visitor::UsesVisitor::new"]
            visits = [c for c in exprs(inlist["then"], "MethodCall") if c["m"] == "visit_comparison_expr" and local_name(c["args"][0]) == "comparison_expr"]
            sets = [a for a in exprs(inlist["then"], "Assign") if strip(a["l"]).get("name") == "uses" and is_lit(a["r"], True)]
            guarded = any(strip(j["cond"]).get("k") == "Field" and strip(j["cond"])["name"] == "uses" for j in exprs(inlist["then"], "If"))
            fld = bool(news) and strip(news[0]["args"][0]).get("name") == "field"
            ok = len(news) == 1 and len(visits) == 1 and len(sets) == 1 and guarded and fld
        R.check(ok, rule, norm(hc["path"]), "a field counts for uses_list iff it occurs inside an `in $list` comparison",
                "expected: if let InList{..} = op { run a UsesVisitor for the same field over the comparison; if it found the field set uses }", hc["span"])
        t = tail(body)
        walks_on = t.get("k") == "If" and strip(t["cond"]).get("k") == "Unary" and \
            tail(t["then"]).get("m") == "walk" and local_name(tail(t["then"])["recv"]) == "comparison_expr"
        R.check(walks_on, rule, norm(hc["path"]), "the comparison's children are still walked (nested list comparisons are found)", where=hc["span"])
    else:
        R.cannot(rule, "UsesListVisitor::visit_comparison_expr", "anchor not found")


def rule_resolve(E, R):
    rule = "R12-resolve"
    for ty in ("ast::FilterAst", "ast::FilterValueAst"):
        for meth, vis in (("uses", "UsesVisitor"), ("uses_list", "UsesListVisitor")):
            fn = "%s::%s" % (ty, meth)
            h = E.hir(fn)
            if not h:
                R.cannot(rule, fn, "anchor not found")
                continue
            t = tail(h["body"])
            ok = False
            if t.get("k") == "MethodCall" and t["m"] == "map":
                g = strip(t["recv"])
                gf = g.get("k") == "MethodCall" and norm(g.get("callee", "")) == "scheme::Scheme::get_field" and \
                    root_is_field(g["recv"], "self", "scheme") and local_name(g["args"][0]) == "field_name"
                clo = closure_of(t["args"][0])
                inner = False
                if clo:
                    news = [c for c in exprs(clo["body"], "Call") if norm(c.get("callee", "")) == "ast::visitor::%s::new" % vis]
                    walks = [c for c in exprs(clo["body"], "MethodCall") if c["m"] == "walk" and local_name(c["recv"]) == "self"]
                    res = tail(clo["body"])
                    inner = len(news) == 1 and local_name(news[0]["args"][0]) in pat_bindings({"k": "x", "params": clo["params"]}) and \
                        len(walks) == 1 and res.get("k") == "MethodCall" and res["m"] == "uses"
                ok = gf and inner
            R.check(ok, rule, fn, "resolves the name with get_field (unknown -> error), walks the whole AST with a %s, returns its flag" % vis, where=h["span"])


def run(F, R, tier):
    E = F.engine
    rule_walk(E, R)
    rule_visitor(E, R)
    rule_resolve(E, R)
    R.not_decided += ["`name occurs in the source` <-> `Field node in the AST` is the parser's construction (see C16 exact lookup)"]
