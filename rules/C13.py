"""C13 — the configurable nesting limit bounds every accepted filter."""
from lib import *
import parsergraph
import sem

LEVEL = "other"
EXPLANATION = ("An interprocedural abstract interpretation over the monomorphic call graph of the parser assigns to "
               "every FilterParser value the number of with_increased_nesting() steps since function entry. Every "
               "call edge that passes a parser is classified: the edges into the content of the four nesting "
               "constructs (parenthesis, not, any/all, function-call argument list - all entry points) must carry "
               "exactly +1 and every other edge 0, on all paths, for every input. The comparison/increment/writers "
               "of the counter and the default limit are extracted from the source; recursive AST constructors sit "
               "only in functions on a +1 edge, so AST depth (hence compile/execute/serialize/hash/drop recursion) is "
               "bounded by the limit times a constant.")

INC = "ast::parse::FilterParser::with_increased_nesting"
LWF = "ast::function_expr::FunctionCallExpr::lex_with_function"
QARG = "<ast::logical_expr::QuantifierArgExpr as lex::LexWith<&ast::parse::FilterParser>>::lex_with"
LOGICAL = "<ast::logical_expr::LogicalExpr as lex::LexWith<&ast::parse::FilterParser>>::lex_with"
SIMPLE = "ast::logical_expr::LogicalExpr::lex_simple_expr"
# content lexers: target -> (construct, allowed callers or None for any)
CONTENT = {
    LWF: ("function-call argument list", None),
    QARG: ("any/all quantifier", None),
}
# caller-specific content edges
CONTENT_FROM = {
    (SIMPLE, LOGICAL): "parenthesis",
    (SIMPLE, SIMPLE): "not",
}


def rule_depth(G, R):
    rule = "R13-depth"
    pe = G.parser_edges()
    R.floor(rule, "call edges passing a FilterParser", len(pe), 30)
    # (1) once the counter has been increased, the un-incremented parser is dead: everything lexed after a successful
    #     with_increased_nesting() in the same function (or captured by a closure created there) gets the new parser
    regions = G.inc_regions()
    R.floor(rule, "with_increased_nesting call sites", len(regions), 5)
    spenders = set()
    for i, where, pre, passed in regions:
        fn = G.name[i]
        post = tuple(sorted(min(x + 1, 6) for x in pre))
        used = False
        for callee, vals, w in passed:
            label = "%s: after the increment passes delta %s to %s" % (fn.split("::")[-1], list(vals), callee)
            if vals == post:
                used = True
                R.ok(rule, fn, label, where=w)
            else:
                R.violation(rule, fn, "after the increment the outer parser is still passed to %s" % callee,
                            "a parser with nesting delta %s (expected %s) is handed on after with_increased_nesting(): whatever is "
                            "lexed through it does not count towards the limit (or counts twice)" % (list(vals), list(post)), w)
        R.check(used, rule, fn, "the incremented parser is the one used to lex the construct's content",
                "with_increased_nesting() result is not passed to any lexing call", where)
        if used:
            spenders.add(fn.split("::{closure")[0])
    # (2) entries that are only ever a construct's content: every caller must come with +1
    for target, (construct, _) in CONTENT.items():
        callers = [(G.name[i], d) for i, to, d, w in pe if G.name[to] == target]
        R.check(len(callers) >= 1 and all(d == (1,) for _, d in callers), rule, target,
                "every caller lexes the %s with the counter increased exactly once" % construct, str(callers))
    # (3) no edge carries more than +1, and +1 edges leave only functions that increment (or their closures)
    for i, to, d, where in pe:
        a, b = G.name[i], G.name[to]
        base = a.split("::{closure")[0]
        if max(d) >= 2:
            R.violation(rule, a, "%s -> %s carries nesting delta %s" % (a, b, list(d)), "one construct spends more than one unit", where)
        elif max(d) == 1 and base not in spenders:
            R.violation(rule, a, "%s -> %s carries +1 but %s never increments" % (a, b, base), where=where)
        else:
            R.ok(rule, a, "%s -> %s: delta %s" % (a, b, list(d)), where=where, nontrivial=(max(d) > 0))
    # (4) the constructs of the statement are all present (parenthesis and `not`: see R13-astdepth, which asks each
    #     Parenthesized/Unary/Quantifier construction to follow a successful increment)
    qsites = [r for r in regions if "lex_quantifier_expr" in G.name[r[0]]]
    R.check(len(qsites) >= 1, rule, "ast::logical_expr::LogicalExpr::lex_quantifier_expr", "any/all increments the counter", str(len(qsites)))
    fsites = [r for r in regions if any(c == LWF for c, _, _ in r[3])]
    R.check(len(fsites) >= 2, rule, LWF, "both entry points of a function-call argument list increment the counter", str(len(fsites)))
    R.analysed["with_increased_nesting_sites"] = [G.name[r[0]] for r in regions]
    R.analysed["parser_instances"] = len(G.reach)


def rule_cmp(E, R):
    rule = "R13-cmp"
    h = E.hir(INC)
    if not h:
        return R.cannot(rule, INC, "anchor not found")
    S = sem.Sem(E, h)

    def field_of_self(n, fr, name):
        v = S.resolve(n, fr)
        x = strip(v.node)
        if x.get("k") != "Field" or x.get("name") != name:
            return False
        b, _, _, _ = sem.provenance(S, x["e"], v.frame)
        return b is not None and b.name == "self"

    def limit_cmp(pc):
        """the certain comparison between the counter and the limit on this path, as (op, 'cur'/'max' order)"""
        for op, l, r, fr, certain in sem.weak_cmps(pc):
            if not certain:
                continue
            if field_of_self(l, fr, "current_nesting_depth") and field_of_self(r, fr, "max_nesting_depth"):
                return op, "cur,max"
            if field_of_self(l, fr, "max_nesting_depth") and field_of_self(r, fr, "current_nesting_depth"):
                return op, "max,cur"
        return None
    leaves = S.result_leaves()
    oks = [x for x in leaves if norm(x.node.get("callee", "")) == "core::result::Result::Ok"]
    errs = [x for x in leaves if norm(x.node.get("callee", "")) == "core::result::Result::Err"]
    ok_cmp = bool(oks)
    for x in oks:
        c = limit_cmp(x.pc)
        if c != ("Lt", "cur,max"):
            ok_cmp = False
            R.violation(rule, INC, "limit test is `current_nesting_depth >= max_nesting_depth`",
                        "the incremented parser is returned on a path where %s: the filter must be accepted exactly when its "
                        "nesting is at most the limit" % (("`%s` holds for (%s)" % c) if c else "the counter is not compared with the limit"),
                        x.node.get("sp", ""))
    if ok_cmp:
        R.ok(rule, INC, "limit test is `current_nesting_depth >= max_nesting_depth`", where=h["span"])
    ok_err = bool(errs) and all(limit_cmp(x.pc) == ("Le", "max,cur") for x in errs)
    incs = [x for x in S.sites() if x.node.get("k") == "AssignOp" and strip(x.node["l"]).get("k") == "Field" and
            strip(x.node["l"]).get("name") == "current_nesting_depth"]
    plain = [x for x in S.sites() if x.node.get("k") == "Assign" and strip(x.node["l"]).get("k") == "Field" and
             strip(x.node["l"]).get("name") == "current_nesting_depth"]
    ok_inc = len(incs) == 1 and not plain and incs[0].node["op"].startswith("Add") and lit_value(incs[0].node["r"]) == 1 and \
        not incs[0].in_loop and limit_cmp(incs[0].pc) == ("Lt", "cur,max")
    ok_ret = False
    if incs and oks:
        nb = sem.root_local(S, strip(incs[0].node["l"])["e"], incs[0].frame)
        cl = sem.is_method(nb.expr, "clone") if nb is not None and nb.expr is not None else None
        from_self = cl is not None and sem.provenance(S, cl, nb.frame)[0] is not None and sem.provenance(S, cl, nb.frame)[0].name == "self"
        ok_ret = from_self and all(x.node.get("args") and S.lookup(sem.peel(x.node["args"][0]), x.frame) is nb for x in oks)
    R.check(ok_err, rule, INC, "at the limit an error is returned", where=h["span"])
    R.check(ok_inc, rule, INC, "otherwise the counter is increased by exactly 1", where=h["span"])
    R.check(ok_ret, rule, INC, "on a clone of the parser, which is returned", where=h["span"])
    # writers of the counter
    writers = {}
    for hb in E.hir_list:
        if "body" not in hb:
            continue
        p = norm(hb["path"])
        for a in exprs(hb["body"], ("Assign", "AssignOp")):
            l = strip(a["l"])
            if l.get("k") == "Field" and l.get("name") == "current_nesting_depth":
                writers.setdefault(p, []).append(a["k"])
        for s in exprs(hb["body"], "Struct"):
            if norm(s["res"].get("path", "")) == "ast::parse::FilterParser" and not s.get("x"):
                for f in s["fields"]:
                    if f["name"] == "current_nesting_depth":
                        writers.setdefault(p, []).append("init=%s" % lit_value(f["e"]))
    # every place that builds a parser from scratch starts the counter at 0 (constructors may delegate to one another);
    # the only other writer is the `+= 1` in with_increased_nesting
    ctors = {k_: v_ for k_, v_ in writers.items() if k_ != INC}
    ok_w = writers.get(INC) == ["AssignOp"] and bool(ctors) and all(v_ == ["init=0"] for v_ in ctors.values()) and \
        all(k_.startswith("ast::parse::FilterParser::") and "::tests::" not in k_ for k_ in ctors)
    R.check(ok_w, rule, "ast::parse::FilterParser.current_nesting_depth",
            "counter written only by the constructors (0) and with_increased_nesting (+1)", str(writers))


def rule_default(E, R):
    rule = "R13-default"
    fn = "<ast::parse::ParserSettings as core::default::Default>::default"
    h = E.hir(fn)
    if not h:
        R.cannot(rule, fn, "anchor not found")
    else:
        val = None
        for s in exprs(h["body"], "Struct"):
            for f in s["fields"]:
                if f["name"] == "max_nesting_depth":
                    val = lit_value(f["e"])
        R.check(val == 128, rule, fn, "default maximum nesting depth is 128", "found %s" % val, h["span"])
    fs = "ast::parse::FilterParser::set_max_nesting_depth"
    fg = "ast::parse::FilterParser::max_nesting_depth"
    hs, hg = E.hir(fs), E.hir(fg)
    if hs:
        asg = list(exprs(hs["body"], "Assign"))
        ok = len(asg) == 1 and strip(asg[0]["l"]).get("name") == "max_nesting_depth" and is_param(asg[0]["r"], hs, 1)
        R.check(ok, rule, fs, "setter writes the field the limit test reads", where=hs["span"])
    else:
        R.cannot(rule, fs, "anchor not found")
    if hg:
        t = fn_result(hg)
        R.check(t.get("k") == "Field" and t.get("name") == "max_nesting_depth", rule, fg, "getter reads the same field", where=hg["span"])
    # new() uses the default settings
    hn = E.hir("ast::parse::FilterParser::new")
    if hn:
        ok = any(norm(c.get("callee", "")) == "core::default::Default::default" and "ParserSettings" in c.get("ty", "")
                 for c in exprs(hn["body"], "Call"))
        R.check(ok, rule, "ast::parse::FilterParser::new", "a new parser starts from ParserSettings::default()", where=hn["span"])


RECURSIVE_VARIANTS = {"ast::logical_expr::LogicalExpr::Parenthesized": "parenthesis",
                      "ast::logical_expr::LogicalExpr::Unary": "not",
                      "ast::logical_expr::LogicalExpr::Quantifier": "any/all quantifier"}


def _inc_succeeded(S, pc):
    """does the path condition say that a with_increased_nesting() call returned Ok?"""
    lits, _ = sem.literals(pc)
    for a, pol in lits:
        if not pol:
            continue
        if a.kind == "ok":
            n = sem.peel(a.node)
            if n.get("k") in ("Call", "MethodCall") and norm(n.get("resolved") or n.get("callee") or "") == INC:
                return True
        if a.kind == "is" and a.alts and all(alt and str(alt[0]).startswith("Result::Ok") for alt in a.alts):
            for v in a.scruts:
                n = sem.peel(S.resolve(v.node, v.frame).node)
                if n.get("k") in ("Call", "MethodCall") and norm(n.get("resolved") or n.get("callee") or "") == INC:
                    return True
    return False


def rule_ast_depth(G, E, R):
    """every construction of a self-recursive AST node in the parser sits on a path on which with_increased_nesting()
    has succeeded (in the same function or in the private caller it was split off from)"""
    rule = "R13-astdepth"
    callers = callers_by_name(E)
    own, inl, where, variant = {}, {}, {}, {}
    for hb in E.hir_list:
        if "body" not in hb:
            continue
        p = norm(hb["path"])
        if "::tests::" in p or p.endswith("::simplify") or "{closure" in p or "lex" not in p:
            continue
        S = sem.Sem(E, hb)
        for x in S.sites():
            n = x.node
            if n.get("k") not in ("Struct", "Call") or n.get("x"):
                continue
            d = norm(n["res"].get("path", "")) if n["k"] == "Struct" else \
                (norm(n.get("callee", "")) if n.get("callee_kind", "").startswith("Ctor") else "")
            if d not in RECURSIVE_VARIANTS:
                continue
            f = norm(x.frame.h["path"])
            key = (f, n.get("sp", ""))
            where[key] = n.get("sp", "")
            variant[key] = d
            good = _inc_succeeded(S, x.pc)
            if x.frame.depth == 0:
                own[key] = good
            else:
                inl.setdefault(key, {})[p] = inl.get(key, {}).get(p, True) and good
    per_variant = {}
    for key in sorted(where):
        f, _ = key
        d = variant[key]
        per_variant[d] = per_variant.get(d, 0) + 1
        ok = own.get(key, False)
        detail = ""
        if not ok:
            cs = {c for c in callers.get(f, ()) if "::tests::" not in c}
            seen = inl.get(key, {})
            ok = bool(cs) and cs <= set(seen) and all(seen.values())
            detail = "callers %s; budget spent before the call in %s" % (sorted(cs), sorted(c for c, g in seen.items() if g))
        R.check(ok, rule, f, "%s node built only where the nesting budget has been spent" % last_seg(d),
                "a recursive AST node is built on a path on which with_increased_nesting() has not succeeded: AST depth is "
                "no longer bounded by the limit. " + detail, where[key])
    for d, what in RECURSIVE_VARIANTS.items():
        R.check(per_variant.get(d, 0) >= 1, rule, d, "the parser builds %s nodes (%s)" % (last_seg(d), what),
                "no construction site found in a lexing function")
    # FunctionCallExpr: built in lex_with_function only, whose every caller spends budget (checked in R13-depth)
    R.floor(rule, "recursive AST constructions in the parser", len(where), 3)


def run(F, R, tier):
    E = F.engine
    G = parsergraph.ParserGraph(E)
    rule_depth(G, R)
    rule_cmp(E, R)
    rule_default(E, R)
    rule_ast_depth(G, E, R)
    R.not_decided += ["byte size of stack frames (depth is bounded, bytes are not)",
                      "user FunctionDefinition callbacks invoked while lexing arguments"]
    R.assumptions += ["flow-insensitive max over parser-typed locals (an over-approximation of the delta on any one path)"]
