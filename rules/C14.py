"""C14 — execution contexts survive serialization and reject bad JSON safely."""
import json
import os
from lib import *
import re
import sem
import common

LEVEL = "other"
EXPLANATION = ("Static rules over every Deserialize/DeserializeSeed/Visitor impl of the workspace: (1) the explicit "
               "panic sites reachable from them in the call graph are a subset of a reviewed allow-list; (2) values "
               "reach a context, array or map only under a successful full type comparison; (3) no deserializer "
               "requests a borrowed-only `&str`/`&[u8]` (which works for from_str on unescaped input only); (4) the "
               "shapes a serializer emits are shapes the matching visitor accepts, and literal keys agree. "
               "Round-trip equality of values is not decided.")

SPEC = os.path.join(os.path.dirname(os.path.dirname(os.path.abspath(__file__))), "spec", "deser_panics.json")
DE_TRAITS = ("serde_core::de::Deserialize", "serde_core::de::DeserializeSeed", "serde_core::de::Visitor")


def deser_roots(C):
    roots = []
    hand = 0
    for imp in C.impls:
        if imp.get("trait", "") in DE_TRAITS:
            if not imp["derived"] and not imp.get("exp"):
                hand += 1
            for it in imp["items"]:
                if it["kind"] == "AssocFn":
                    roots.append(it["dp"])
    return roots, hand


def rule_panic(F, R, rule="R14-panic", restrict=None, floor_roots=30):
    with open(SPEC) as f:
        allowed0 = {(a["function"], a["kind"]): a for a in json.load(f)["allowed"]}
    total_reach = 0
    for C in (F.engine, F.ffi, F.wasm):
        roots, hand = deser_roots(C)
        allowed = {(canon_fn(C, fn_), k_): v_ for (fn_, k_), v_ in allowed0.items()}
        if C is F.engine:
            R.floor(rule, "deserializer entry points (engine)", len(roots), floor_roots)
            R.analysed["handwritten_deserializer_impls"] = hand
        if not roots:
            continue
        G = CallGraph(C)
        seen = G.reach(roots)
        total_reach += len(seen)
        present = {}
        for dp in seen:
            m = C.mir_by_dp.get(dp)
            if m:
                for kind, where, callee in panic_sites(m):
                    present.setdefault((canon_fn(C, norm(m["path"])), kind), set()).add(where)
        if os.environ.get("VERIF_DUMP_PANIC_COUNTS") and rule == "R14-panic":
            print("PANIC-COUNTS deser_panics " + json.dumps({"%s|%s" % k_: len(v_) for k_, v_ in present.items()}))
        verdicts = judge_panic_sites(C, allowed, present)
        for dp in seen:
            m = C.mir_by_dp.get(dp)
            if not m:
                continue
            fn = canon_fn(C, norm(m["path"]))
            if restrict and not restrict(G.path_to(seen, dp)):
                continue
            for kind, where, callee in panic_sites(m):
                label = "%s site" % kind
                st_, why_ = verdicts.get((fn, kind), ("new", ""))
                if st_ == "ok":
                    R.ok(rule, fn, label, "reviewed: " + allowed[(fn, kind)]["reason"], where)
                elif st_ == "moved":
                    R.ok(rule, fn, label + " (moved)", why_, where)
                elif st_ == "grown":
                    R.violation(rule, fn, label + " (more than reviewed)", "%s: a new explicit panic appeared in a reviewed deserializer "
                                "function (spec/deser_panics.json)" % why_, where)
                else:
                    path = G.path_to(seen, dp)
                    R.violation(rule, fn, label,
                                "explicit panic (%s) reachable from a deserializer: %s" % (callee, " -> ".join(path[-5:])), where)
    R.analysed["functions_reachable_from_deserializers"] = total_reach
    # the allow-listed SchemeMismatch arm relies on this:
    E = F.engine
    fn = "execution_context::ExecutionContext::set_field_value_from_name"
    h = E.hir(fn)
    if h:
        uses = [c for c in exprs(h["body"], ("Call", "Path", "Struct")) if "SchemeMismatch" in json.dumps(c.get("res", {})) or
                "SchemeMismatch" in norm(c.get("callee", ""))]
        R.check(not uses, rule, fn, "never constructs SetFieldValueError::SchemeMismatch",
                "the visitor's `SchemeMismatch(_) => unreachable!()` arm is only dead while this holds", h["span"])
    else:
        R.cannot(rule, fn, "anchor not found")


def _borrowed_only(t):
    t = norm(t).strip()
    return t in ("&str", "&[u8]", "&core::primitive::str")


def rule_borrow(F, R, rule="R14-borrow", scope=None):
    n = 0
    for C in F.crates:
        for h in C.hir_list:
            if "body" not in h:
                continue
            fn = norm(h["path"])
            if scope and not scope(fn):
                continue
            for c in exprs(h["body"], ("Call", "MethodCall")):
                cal = norm(c.get("callee", ""))
                if not cal.startswith("serde_core::de::") or "targs" not in c:
                    continue
                short = cal[len("serde_core::de::"):]
                if short.split("::")[0] not in ("MapAccess", "SeqAccess", "Deserialize", "EnumAccess", "VariantAccess"):
                    continue
                n += 1
                targs = c["targs"]
                req = targs[2:] if short.split("::")[0] != "Deserialize" else targs[:1]
                bad = [t for t in req if _borrowed_only(t)]
                label = "%s::<%s>" % (short, ", ".join(norm(t) for t in req))
                if bad:
                    R.violation(rule, fn, label,
                                "requests a borrowed-only %s: succeeds only for from_str/from_slice on input without "
                                "escapes, fails for readers, value trees and escaped strings (use Cow<str>/String)" % bad[0], c["sp"])
                else:
                    R.ok(rule, fn, label, where=c["sp"])
    return n


def _is_declared_type(E, S, node, frame):
    """the expression is the container's declared element type: `<container>.value_type()`, or a field of the visitor struct
    that every construction of the visitor initialises with `<container>.value_type()`"""
    v = S.resolve(node, frame)
    if sem.is_method(v.node, "value_type") is not None:
        return True
    def tkey(t):
        t = norm(t or "").strip()
        while t.startswith("&"):
            t = t[1:].lstrip()
            if t.startswith("mut "):
                t = t[4:]
        return re.sub(r"<[^<>]*>$", "", t).strip()
    fld = None
    n = strip(v.node)
    if n.get("k") == "Field":
        fld = (tkey(n["e"].get("ty", "")), n["name"])
    elif v.bind is not None and v.bind.proj and v.bind.proj[-1][0] == "f" and v.bind.expr is not None:
        fld = (tkey(sem.peel(v.bind.expr).get("ty", "")), v.bind.proj[-1][2])
    if not fld:
        return False
    sty = fld[0]
    inits = []
    for hb in E.hir_list:
        if "body" not in hb:
            continue
        for s_ in exprs(hb["body"], "Struct"):
            if tkey(s_.get("ty", "")) == sty and sty:
                for f_ in s_["fields"]:
                    if f_["name"] == fld[1]:
                        inits.append(f_["e"])
    return bool(inits) and all(sem.is_method(sem.peel(i_), "value_type") is not None for i_ in inits)


def _store_guarded(E, h, push_method, R, rule, fn, what):
    """every `<container of LhsValue>.<push_method>(.., elem)` in the visitor body sits on a path where the element's own
    type (elem.get_type()) is known to equal the container's declared element type (self.0.value_type())"""
    S = sem.Sem(E, h)
    n = 0
    for x in S.sites():
        c = x.node
        if c.get("k") != "MethodCall" or c["m"] != push_method or x.frame is not S.root:
            continue
        rt = norm(strip(c["recv"]).get("ty", "") + " " + strip(c["recv"]).get("aty", ""))
        if "types::LhsValue" not in rt or not ("Vec<" in rt or "BTreeMap<" in rt):
            continue
        n += 1
        elem = c["args"][-1]
        eb = sem.root_local(S, elem, x.frame)
        guarded = False
        for op, l, r, fr, certain in sem.weak_cmps(x.pc):
            if not certain or op != "Eq":
                continue
            for a_, b_ in ((l, r), (r, l)):
                declared = _is_declared_type(E, S, a_, fr)
                gt = sem.is_method(S.resolve(b_, fr).node, "get_type")
                if declared and gt is not None and eb is not None and sem.root_local(S, gt, S.resolve(b_, fr).frame) is eb:
                    guarded = True
        R.check(guarded, rule, fn, "%s stored only after `type != value_type -> Err`" % what, where=c["sp"])
    return n


def rule_store(F, R, rule="R14-store"):
    E = F.engine
    # context visitor stores only through set_field_value_from_name
    hs = E.hirs(r"ExecutionContextVisitor<U> as serde_core::de::Visitor>::visit_map$")
    if len(hs) != 1:
        R.cannot(rule, "ExecutionContextVisitor::visit_map", "anchor not found")
    else:
        h = hs[0]
        fn = norm(h["path"])
        # read with the private helpers of the file followed (the field branch may live in its own method)
        Sv = sem.Sem(E, h)
        vs = Sv.sites()
        sets = [x.node for x in vs if x.node.get("k") in ("Call", "MethodCall") and
                re.search(r"ExecutionContext::set_field_value(_from_name)?$", norm(x.node.get("callee", "")))]
        direct = [x.node for x in vs if x.node.get("k") in ("Assign", "AssignOp") and any(f.get("name") == "values" for f in exprs(x.node["l"], "Field"))]
        direct += [x.node for x in vs if x.node.get("k") == "MethodCall" and x.node["m"] in ("replace", "insert", "push", "swap") and
                   any(f.get("name") == "values" for f in exprs(x.node["recv"], "Field"))]
        R.check(len(sets) >= 1 and not direct, rule, fn, "field values stored only through the type-checked setter",
                "%d setter calls, %d direct writes to `values`" % (len(sets), len(direct)), h["span"])
        # the setter's error is propagated: `setter(..).map_err(..)?`, or a match whose every Err arm returns an error / panics
        bodies = [h["body"]] + [E.hir(p_)["body"] for p_, _ in Sv.inlined if E.hir(p_) is not None]
        for c in sets:
            prop = False
            for bd in bodies:
                for m in exprs(bd, "MethodCall"):
                    if m["m"] == "map_err" and deref(m["recv"]) is c:
                        prop = prop or any(sem.is_try(t_) and any(y is m for y in walk(sem.try_inner(t_))) for t_ in exprs(bd, "Match"))
                for t_ in exprs(bd, "Match"):
                    if sem.is_try(t_) and sem.peel(sem.try_inner(t_)) is c:
                        prop = True
                    if not sem.is_try(t_) and deref(t_["scrut"]) is c:
                        errs = [a_ for a_ in t_["arms"] if pat_variant(a_["pat"]) == "core::result::Result::Err" or a_["pat"].get("k") == "PWild"]
                        prop = bool(errs) and all(bool(explicit_err_returns(a_["body"])) or sem.diverges(a_["body"]) or
                                                  sem.ctor_head(tail(a_["body"])) == "Result::Err" or
                                                  any(norm(c_.get("callee", "")).startswith("core::panicking") for c_ in exprs(a_["body"], "Call"))
                                                  for a_ in errs)
            R.check(prop, rule, fn, "setter error becomes a deserialization error", where=c["sp"])
    n = 0
    for rx, meth, what in ((r"ArrayVisitor as serde_core::de::Visitor>::visit_seq$", "push", "array element"),
                           (r"::MapVisitor as serde_core::de::Visitor>::visit_map$", "insert", "map value"),
                           (r"::MapVisitor as serde_core::de::Visitor>::visit_seq$", "insert", "map value")):
        hs = E.hirs(rx)
        if len(hs) != 1:
            R.cannot(rule, rx, "anchor not found")
            continue
        k = _store_guarded(E, hs[0], meth, R, rule, norm(hs[0]["path"]), what)
        R.floor(rule, "stores in " + rx, k, 1)
        n += k
    # elements are deserialized with the container's own element type
    for rx in (r"ArrayVisitor as serde_core::de::Visitor>::visit_seq$", r"::MapVisitor as serde_core::de::Visitor>::visit_map$"):
        for h in E.hirs(rx):
            seeds = [c for c in exprs(h["body"], "Call") if norm(c.get("callee", "")) == "types::LhsValueSeed"]
            Sx = sem.Sem(E, h, inline=False)
            good = seeds and all(_is_declared_type(E, Sx, c["args"][0], Sx.root) for c in seeds)
            R.check(bool(good), rule, norm(h["path"]), "elements deserialized with the declared element type", where=h["span"])


def visitor_methods(E, self_suffix):
    out = set()
    for imp in E.impls:
        if imp.get("trait") == "serde_core::de::Visitor" and norm(imp["self_ty"]).endswith(self_suffix):
            out |= {it["name"] for it in imp["items"] if it["kind"] == "AssocFn"}
    return out


def ser_calls(h, E=None):
    """the Serializer::serialize_* shapes a serializer emits, itself or through private helpers of the same file"""
    nodes = exprs(h["body"], ("Call", "MethodCall")) if E is None else [x.node for x in sem.Sem(E, h).sites()]
    return {last_seg(norm(c.get("callee", ""))) for c in nodes
            if c.get("k") in ("Call", "MethodCall") and norm(c.get("callee", "")).startswith("serde_core::ser::Serializer::serialize_")}


def rule_shapes(F, R, rule="R14-shapes"):
    E = F.engine
    table = [
        ("<lhs_types::bytes::Bytes as serde_core::ser::Serialize>::serialize", "BytesVisitor",
         {"serialize_str": {"visit_str"}, "serialize_bytes": {"visit_bytes", "visit_seq"}}),
        ("<lhs_types::map::Map as serde_core::ser::Serialize>::serialize", "MapVisitor",
         {"serialize_map": {"visit_map"}, "serialize_seq": {"visit_seq"}}),
        ("<lhs_types::array::Array as serde_core::ser::Serialize>::serialize", "ArrayVisitor",
         {"serialize_seq": {"visit_seq"}}),
        ("<execution_context::ExecutionContext<U> as serde_core::ser::Serialize>::serialize", "ExecutionContextVisitor<U>",
         {"serialize_map": {"visit_map"}}),
    ]
    for ser, vis, need in table:
        h = E.hir(ser)
        if not h:
            R.cannot(rule, ser, "anchor not found")
            continue
        emitted = ser_calls(h, E)
        methods = visitor_methods(E, vis)
        if not methods:
            R.cannot(rule, vis, "visitor impl not found")
            continue
        for shape in sorted(emitted):
            if shape not in need:
                R.undecided(rule, ser, "emits %s" % shape, "shape not in the reviewed table")
                continue
            missing = need[shape] - methods
            R.check(not missing, rule, ser, "%s is accepted by %s" % (shape, vis),
                    "visitor lacks %s (has %s)" % (sorted(missing), sorted(methods)), h["span"])
        R.check(set(need) <= emitted | set(), rule, ser, "emitted shapes are the reviewed ones",
                "emits %s, table has %s" % (sorted(emitted), sorted(need)), h["span"])
    # LhsValue bytes: str or bytes, same as Bytes
    hl = E.hir("<types::LhsValue as serde_core::ser::Serialize>::serialize")
    if hl:
        em = ser_calls(hl, E)
        R.check(em <= {"serialize_str", "serialize_bytes"}, rule, norm(hl["path"]), "LhsValue::Bytes emits str|bytes only",
                str(sorted(em)), hl["span"])
    # deserializer hints admit every emitted shape
    hb = E.hir("<lhs_types::bytes::Bytes as serde_core::de::Deserialize>::deserialize")
    if hb:
        hints = {last_seg(norm(c.get("callee", ""))) for c in exprs(hb["body"], ("Call", "MethodCall"))
                 if "Deserializer::deserialize_" in norm(c.get("callee", ""))}
        R.check(hints <= {"deserialize_bytes", "deserialize_byte_buf", "deserialize_any"} and hints, rule, norm(hb["path"]),
                "Bytes deserializer hint admits str, bytes and seq", str(sorted(hints)), hb["span"])
    else:
        R.cannot(rule, "Bytes::deserialize", "anchor not found")


def _hint_terms(e, body=None, depth=0):
    """split a length-hint expression into terms: ('len', x) | ('count', x) | ('bool', x) | ('lit', k) | ('?', kind)"""
    e = deref(e)
    if e.get("k") == "Binary" and e["op"] == "Add":
        return _hint_terms(e["l"], body, depth) + _hint_terms(e["r"], body, depth)
    v = lit_value(e)
    if isinstance(v, int):
        return [("lit", v)]
    if e.get("k") == "MethodCall" and e["m"] == "len":
        return [("len", local_name(chain(e)[0]) or "self")]
    if e.get("k") == "MethodCall" and e["m"] == "count":
        return [("count", "iter")]
    if e.get("k") == "Call" and norm(e.get("callee", "")).endswith("From::from") and norm(e["args"][0].get("ty", "")) == "bool":
        return [("bool", "cond")]
    if e.get("k") == "Cast" and norm(strip(e["e"]).get("ty", "")) == "bool":
        return [("bool", "cond")]
    if e.get("k") == "If":
        return [("bool", "cond")]
    nm = local_name(e)
    if nm and body is not None and depth < 3:
        for st in exprs(body, "SLet"):
            if st["pat"].get("name") == nm and "init" in st:
                return _hint_terms(st["init"], body, depth + 1)
    return [("?", e.get("k"))]


def rule_lenhint(F, R, rule="R14-lenhint"):
    """the length announced to serialize_map/serialize_seq accounts for every entry that is written: serde_json closes
    the object/array at once for a hint of Some(0), so a later entry lands after the closing brace"""
    n = 0
    for C in (F.engine, F.ffi):
        # hand-written serializers: the Serialize impls that are not derived, and any other function of the crate that opens
        # a map / sequence itself (a private helper such an impl was split into)
        cands = []
        derived = set()
        for imp in C.impls:
            if imp.get("trait") != "serde_core::ser::Serialize":
                continue
            for it in imp["items"]:
                if imp["derived"] or imp.get("exp"):
                    derived.add(it["dp"])
                else:
                    cands.append(it["dp"])
        for hb_ in C.hir_list:
            if "body" in hb_ and hb_["dp"] not in derived and hb_["dp"] not in cands and "::tests::" not in norm(hb_["path"]) and \
                    "{closure" not in hb_["path"] and \
                    any(norm(c_.get("callee", "")).endswith(("Serializer::serialize_map", "Serializer::serialize_seq")) and not c_.get("x")
                        for c_ in exprs(hb_["body"], ("Call", "MethodCall"), into_closures=False)):
                cands.append(hb_["dp"])
        for dp_ in cands:
            for _once in (0,):
                hb = C.hir_by_dp.get(dp_)
                if not hb or "body" not in hb:
                    continue
                fn = norm(hb["path"])
                body = hb["body"]
                S_ = None
                for c in exprs(body, ("Call", "MethodCall"), into_closures=False):
                    cal = norm(c.get("callee", ""))
                    if not (cal.endswith("Serializer::serialize_map") or cal.endswith("Serializer::serialize_seq")):
                        continue
                    n += 1
                    harg = deref(call_args(c)[1])
                    if def_path(harg) == "core::option::Option::None":
                        R.ok(rule, fn, "no length is announced (None)", where=c["sp"])
                        continue
                    if not (harg.get("k") == "Call" and norm(harg.get("callee", "")) == "core::option::Option::Some"):
                        R.undecided(rule, fn, "length hint of unknown form", where=c["sp"])
                        continue
                    terms = _hint_terms(harg["args"][0], body)
                    if S_ is None:
                        S_ = sem.Sem(C, hb, inline=False)
                    cs = [x for x in S_.sites() if x.node is c]
                    base = cs[0].pc if cs else ()
                    kinds = []
                    groups = {}
                    for x in S_.sites():
                        n2 = x.node
                        if n2.get("k") not in ("Call", "MethodCall") or \
                                not re.search(r"Serialize(Map|Seq)::serialize_(entry|element|key)$", norm(n2.get("callee", ""))):
                            continue
                        if x.pc[:len(base)] != base:
                            continue
                        # is the entry written once per element of an iteration (for loop, or a closure handed to an iterator method)?
                        loop = x.in_loop
                        filtered = False
                        if x.in_closure:
                            clo_ = x.in_closure[-1]
                            for mc in exprs(body, "MethodCall"):
                                if mc["m"] in ("for_each", "try_for_each", "map", "try_fold", "fold") and any(closure_of(a_) is clo_ for a_ in mc["args"]):
                                    loop = True
                                    _, ch_ = chain(mc)
                                    filtered = any(y["m"] in ("filter", "filter_map", "flatten", "take_while", "skip_while", "flat_map") for y in ch_)
                        # conditions of its own (beyond loop bookkeeping and `?`)
                        extra = []
                        for f_, pol in x.pc[len(base):]:
                            lits, ors = sem.literals(((f_, pol),))
                            for a_, p_ in lits:
                                if a_.kind in ("ok", "forall"):
                                    continue
                                if a_.kind == "is" and len(a_.scruts) == 1 and sem.is_method(a_.scruts[0].node, "next") is not None:
                                    continue
                                extra.append((a_, p_))
                            extra += [("or", o_) for o_ in ors]
                        pos_scruts = {id(a_.scruts[0].node) for a_, p_ in extra if a_ != "or" and a_.kind == "is" and p_ and len(a_.scruts) == 1}
                        extra = [(a_, p_) for a_, p_ in extra if not (a_ != "or" and a_.kind == "is" and not p_ and len(a_.scruts) == 1 and
                                                                     id(a_.scruts[0].node) in pos_scruts)]
                        if loop:
                            kinds.append("count" if (extra or filtered) else "len")
                            continue
                        # outside loops: alternatives of one exhaustive match write one entry between them
                        sole = extra[0] if len(extra) == 1 and extra[0][0] != "or" else None
                        if sole and sole[0].kind == "is" and sole[1] and len(sole[0].scruts) == 1:
                            key_ = id(sole[0].scruts[0].node)
                            groups.setdefault(key_, {"alts": set(), "ty": norm(sole[0].scruts[0].node.get("ty", ""))})["alts"] |= \
                                {sem.variant_head(y[0]) for y in sole[0].alts}
                            continue
                        kinds.append("bool" if extra else "lit")
                    for g in groups.values():
                        ty_ = g["ty"].replace("&mut ", "").replace("&", "").strip()
                        uni = set(sem.enum_universe(C, ty_)) or set(sem.enum_universe(F.engine, ty_))
                        kinds.append("lit" if uni and g["alts"] >= uni else "bool")
                    want = sorted(kinds)
                    got = []
                    for t, v in terms:
                        if t == "lit":
                            got += ["lit"] * v
                        else:
                            got.append(t)
                    ok = sorted(got) == want
                    R.check(ok, rule, fn, "the announced length accounts for every entry written",
                            "announces %s but writes entries of kinds %s (len = one per element of a loop, count = conditional per "
                            "element, bool = one conditional entry, lit = one unconditional entry): with a hint of Some(0) serde_json "
                            "closes the container before the remaining entries" % (terms, want), c["sp"])
    R.floor(rule, "serialize_map / serialize_seq calls in hand-written serializers", n, 6)


def _inside_for_loop(body, node):
    found = [False]

    def go(n, in_loop):
        if n is node:
            found[0] = in_loop
            return True
        k = n.get("k")
        nxt = in_loop or (k == "Loop" and str(n.get("src", "")).startswith("ForLoop")) or \
            (k == "MethodCall" and n.get("m") in ("for_each", "try_for_each"))
        for c in children(n):
            if go(c, nxt):
                return True
        return False
    go(body, False)
    return found[0]


def rule_keyorder(F, R, rule="R14-keyorder"):
    """a hand-written visit_map must not depend on the order of the keys: a value tree (and any producer that sorts or
    reorders keys) delivers them in a different order than the writer emitted them"""
    n = 0
    for C in (F.engine, F.ffi):
        for imp in C.impls:
            if imp.get("trait") != "serde_core::de::Visitor" or imp["derived"] or imp.get("exp"):
                continue
            for it in imp["items"]:
                if it["name"] != "visit_map":
                    continue
                hb = C.hir_by_dp.get(it["dp"])
                if not hb or "body" not in hb:
                    continue
                n += 1
                fn = norm(hb["path"])
                # a visitor that names its keys is identified by them (stable when the visitor type is renamed or merged into
                # its seed type); others by their path
                named = sorted({v for v in common.str_lits(hb["body"], C) if isinstance(v, str) and 0 < len(v) <= 16 and " " not in v and v.isidentifier()})
                if named:
                    fn = "%s: visit_map of the visitor for keys [%s]" % (fn.lstrip("<").split("::")[0], ",".join(named))
                # key requests made by the visitor, directly or through private helpers of the same file
                Sk = sem.Sem(C, hb)
                keys = [x for x in Sk.sites() if x.node.get("k") == "MethodCall" and x.node["m"] in ("next_key", "next_key_seed", "next_entry", "next_entry_seed")]
                outside = [x for x in keys if not x.in_loop]
                R.check(not outside, rule, fn, "keys are consumed in a loop, in whatever order they arrive",
                        "%d key request(s) outside a loop: the visitor expects the keys in one fixed order and rejects the same "
                        "map when they arrive in another (e.g. from a serde_json::Value, which sorts keys)" % len(outside), hb["span"])
    R.floor(rule, "hand-written visit_map implementations", n, 4)


def rule_unknownkey(F, R, rule="R14-unknownkey"):
    """JSON naming an unknown key is rejected: in the context's visit_map every value is read either as the list section
    (under the test that the key is the list-section literal) or as the value of a key the scheme resolved; nothing is
    skipped"""
    E = F.engine
    hs = E.hirs(r"^<.*execution_context::.* as serde_core::de::Visitor>::visit_map$")
    hs = [h for h in hs if "$lists" in set(common.str_lits(h["body"], E))]
    if len(hs) != 1:
        return R.cannot(rule, "the context's visit_map", "anchor not found (%d)" % len(hs))
    h = hs[0]
    fn = norm(h["path"])
    S = sem.Sem(E, h)
    sites = S.sites()
    vals = [x for x in sites if x.node.get("k") == "MethodCall" and x.node["m"] in ("next_value", "next_value_seed", "next_entry", "next_entry_seed")]
    R.floor(rule, "value requests in the context's visit_map", len(vals), 2)

    def key_is_list_literal(pc):
        lits, _ = sem.literals(pc)
        for a, pol in lits:
            if not pol:
                continue
            if a.kind == "cmp" and a.op == "Eq" and "$lists" in (lit_value(sem.peel(a.l.node)), lit_value(sem.peel(a.r.node))):
                return True
            if a.kind == "is" and a.alts and all("$lists" in str(alt) for alt in a.alts):
                return True
        return False

    def key_resolved(pc):
        lits, _ = sem.literals(pc)
        for a, pol in lits:
            if pol and a.kind == "ok" and any(norm(c.get("callee", "")) in ("scheme::Scheme::get_field", "scheme::Scheme::get")
                                              for c in list(exprs(a.node, ("Call", "MethodCall"))) + chain(a.node)[1]):
                return True
        return False
    n_list = n_field = 0
    for x in vals:
        tys = " ".join(norm(str(a_.get("ty", ""))) for a_ in x.node.get("args", [])) + " " + norm(str(x.node.get("ty", "")))
        is_list_seed = any(c.get("callee_kind", "").startswith("Ctor") and last_seg(norm(c.get("callee", ""))) == "ListMatcherSlice"
                           for a_ in x.node.get("args", []) for c in exprs(deref(a_), "Call"))
        if "IgnoredAny" in tys:
            R.violation(rule, fn, "no value is skipped", "a value is read as IgnoredAny: the key it belongs to is accepted without "
                        "being a declared field or the list section", x.node["sp"])
        elif is_list_seed:
            n_list += 1
            R.check(key_is_list_literal(x.pc), rule, fn, "the list section is read only under the key `$lists`", where=x.node["sp"])
        else:
            n_field += 1
            R.check(key_resolved(x.pc), rule, fn, "any other value is read only after the scheme resolved its key as a field (unknown keys fail)",
                    "a value request that is not the list section must follow a successful Scheme::get_field(key)?", x.node["sp"])
    R.check(n_list >= 1 and n_field >= 1, rule, fn, "both kinds of entries (list section, field values) are read", "%d / %d" % (n_list, n_field), h["span"])
    # nowhere in the crate is input skipped by a hand-written reader
    skipped = []
    for hb in E.hir_list:
        if "body" not in hb or "::tests::" in norm(hb["path"]):
            continue
        for c in exprs(hb["body"], ("Call", "MethodCall")):
            if "IgnoredAny" in norm(str(c.get("ty", ""))) and not c.get("x"):
                skipped.append((norm(hb["path"]), c.get("sp", "")))
    for p_, sp in skipped:
        R.violation(rule, p_, "no hand-written reader skips input (IgnoredAny)", "unknown input must be an error", sp)
    if not skipped:
        R.ok(rule, "engine", "no hand-written reader skips input (IgnoredAny)")


def _inside_loop_any(body, node):
    found = [False]

    def go(n, in_loop):
        if n is node:
            found[0] = in_loop
            return True
        nxt = in_loop or n.get("k") == "Loop"
        for c in children(n):
            if go(c, nxt):
                return True
        return False
    go(body, False)
    return found[0]


def run(F, R, tier):
    rule_panic(F, R)
    rule_lenhint(F, R)
    rule_keyorder(F, R)
    rule_unknownkey(F, R)
    n = rule_borrow(F, R, scope=lambda fn: "scheme::Scheme" not in fn and "SerdeField" not in fn)
    R.floor("R14-borrow", "typed serde requests", n, 30)
    rule_store(F, R)
    rule_shapes(F, R)
    common.rule_keys(F.engine, R)
    R.not_decided += ["equality of the round-tripped context (values, matcher state)",
                      "implicit panics (bounds checks, arithmetic) - listed only as notes",
                      "behaviour of serde_json / erased_serde (dependencies)",
                      "`deserialize_struct(\"\", &[], ..)` for maps relies on a self-describing format (assumption)"]
    R.assumptions += ["panics inside dependencies are out of scope", "user ListDefinition::deserialize_matcher is outside the claim"]
