"""C15 — type and scheme encodings round-trip; over-deep or duplicate input is refused."""
from lib import *
import sem
import C14

LEVEL = "other"
EXPLANATION = ("Static rules: no explicit panic is reachable from the Type/CompoundType/Scheme deserializers "
               "(over-deep descriptors must become errors); the scheme deserializer requests owned-or-borrowed keys "
               "(input-source independence); the engine's and the C API's bit-packing of container layers are "
               "extracted from push/pop bodies and must be the same table (Array=0, Map=1, shift-left/or, "
               "and-1/shift-right, len+-1, empty -> no layer); from_type/into_type and the C conversions are inverse "
               "arm tables; duplicate field names are propagated as errors. Round trips over all 4*2^32 layer strings "
               "follow only under these table semantics; JSON text is not decided.")


def _push_features(h):
    f = {}
    body = h["body"]
    for m in find_matches(body):
        arms = {}
        for a in m["arms"]:
            v = pat_variant(a["pat"])
            if v:
                arms[last_seg(v)] = lit_value(a["body"])
        if arms:
            f["bits"] = arms
    for a in exprs(body, "Assign"):
        l = strip(a["l"])
        if l.get("k") == "Field" and l["name"] == "layers":
            r = strip(a["r"])
            if r.get("k") == "Binary" and r["op"] == "BitOr":
                sh = strip(r["l"])
                f["combine"] = ("BitOr",
                                sh.get("op") if sh.get("k") == "Binary" else None,
                                strip(sh.get("l", {})).get("name") if sh.get("k") == "Binary" else None,
                                lit_value(sh.get("r", {})) if sh.get("k") == "Binary" else None,
                                _bits_role(body, r["r"]))
    for a in exprs(body, "AssignOp"):
        l = strip(a["l"])
        if l.get("k") == "Field" and l["name"] == "len":
            f["len"] = (a["op"].replace("Assign", ""), lit_value(a["r"]))
    return f


_CRATES = []


def E_of(h):
    for c in _CRATES:
        if c.hir_by_dp.get(h["dp"]) is h:
            return c
    return None


def _pop_features(h):
    f = {}
    body = h["body"]
    # what is returned for an empty / non-empty stack, read from the path conditions of the result leaves
    S = sem.Sem(E_of(h), h, inline=False) if E_of(h) is not None else None
    if S is not None:
        for x in S.result_leaves():
            t = strip(x.node)
            last = strip(t["es"][-1]) if t.get("k") == "Tup" and t.get("es") else t
            for op, l, r, fr, certain in sem.weak_cmps(x.pc):
                if not certain:
                    continue
                for a_, b_, o in ((l, r, op), (r, l, {"Lt": "Gt", "Le": "Ge"}.get(op, op))):
                    an = strip(S.resolve(a_, fr).node)
                    if an.get("k") == "Field" and an.get("name") == "len" and lit_value(b_) is not None:
                        nonempty = (o, lit_value(b_)) in (("Gt", 0), ("Ne", 0), ("Ge", 1))
                        empty = (o, lit_value(b_)) in (("Le", 0), ("Eq", 0), ("Lt", 1))
                        if empty:
                            f["empty"] = [def_path(last)]
                        elif nonempty:
                            f["guard"] = ("Gt", "len", 0)
    for a in exprs(body, "AssignOp"):
        l = strip(a["l"])
        if l.get("k") == "Field" and l["name"] in ("len", "layers"):
            f[l["name"]] = (a["op"].replace("Assign", ""), lit_value(a["r"]))
    # which layer the low bit selects: read from the path condition of the leaves that return Some(Layer::X)
    if S is not None:
        for x in S.result_leaves():
            t = strip(x.node)
            last = strip(t["es"][-1]) if t.get("k") == "Tup" and t.get("es") else t
            layer = None
            for c in exprs(last, "Call"):
                if norm(c.get("callee", "")) == "core::option::Option::Some" and c.get("args"):
                    ls_ = [last_seg(def_path(p_)) for p_ in exprs(c["args"][0], "Path") if "Layer::" in (def_path(p_) or "")]
                    layer = ls_[0] if len(ls_) == 1 else None
            if not layer:
                continue
            for op, l, r, fr, certain in sem.weak_cmps(x.pc):
                if not certain or op not in ("Eq", "Ne"):
                    continue
                for a_, b_ in ((l, r), (r, l)):
                    an = strip(S.resolve(a_, fr).node)
                    if an.get("k") == "Binary" and an["op"] == "BitAnd" and strip(an["l"]).get("name") == "layers" and lit_value(b_) is not None:
                        f["test"] = ("BitAnd", lit_value(an["r"]), "Eq", lit_value(b_))
                        f["true_is" if op == "Eq" else "false_is"] = layer
    return f


WANT_PUSH = {"bits": {"Array": 0, "Map": 1}, "combine": ("BitOr", "Shl", "layers", 1, "<bit of the pushed layer>"), "len": ("Add", 1)}


def _bits_role(body, e):
    """the or-ed operand is the local bound to the Array->0 / Map->1 table (named by role, not by spelling)"""
    nm = local_name(e)
    ini = let_init(body, nm) if nm else None
    if ini is not None and strip(ini).get("k") == "Match" and all(isinstance(lit_value(a["body"]), int) for a in strip(ini)["arms"]):
        return "<bit of the pushed layer>"
    return nm
WANT_POP = {"guard": ("Gt", "len", 0), "empty": ["core::option::Option::None"], "test": ("BitAnd", 1, "Eq", 0),
            "len": ("Sub", 1), "layers": ("Shr", 1), "true_is": "Array", "false_is": "Map"}


def rule_pack(F, R):
    rule = "R15-pack"
    _CRATES[:] = [F.engine, F.ffi, F.wasm]
    got = {}
    for C, pre in ((F.engine, "types::CompoundType"), (F.ffi, "CType")):
        for name, fe in (("push", _push_features), ("pop", _pop_features)):
            h = C.hir(pre + "::" + name)
            if not h:
                R.cannot(rule, pre + "::" + name, "anchor not found")
                continue
            got[(pre, name)] = fe(h)
            want = WANT_PUSH if name == "push" else WANT_POP
            R.check(got[(pre, name)] == want, rule, pre + "::" + name, "bit-packing table matches the documented encoding",
                    "extracted %s, expected %s" % (got[(pre, name)], want), h["span"])
    for name in ("push", "pop"):
        a, b = got.get(("types::CompoundType", name)), got.get(("CType", name))
        if a is not None and b is not None:
            R.check(a == b, rule, "types::CompoundType::%s <-> CType::%s" % (name, name), "engine and C API agree",
                    "engine %s, C %s" % (a, b))
    # engine bounds len < 32 before pushing
    h = F.engine.hir("types::CompoundType::push")
    if h:
        S = sem.Sem(F.engine, h, inline=False)

        def len_cmp(pc):
            for op, l, r, fr, certain in sem.weak_cmps(pc):
                if not certain:
                    continue
                ln, rn = strip(S.resolve(l, fr).node), strip(S.resolve(r, fr).node)
                if ln.get("k") == "Field" and ln.get("name") == "len" and lit_value(r) is not None:
                    return (op, "len", lit_value(r))
                if rn.get("k") == "Field" and rn.get("name") == "len" and lit_value(l) is not None:
                    return (op, lit_value(l), "len")
            return None
        leaves = S.result_leaves()
        nones = [x for x in leaves if def_path(x.node) == "core::option::Option::None"]
        somes = [x for x in leaves if norm(x.node.get("callee", "")) == "core::option::Option::Some"]
        writes = [x for x in S.sites() if x.node.get("k") in ("Assign", "AssignOp") and strip(x.node["l"]).get("k") == "Field"]
        ok = bool(nones) and bool(somes) and all(len_cmp(x.pc) in (("Le", 32, "len"), ("Lt", 31, "len")) for x in nones) and \
            all(len_cmp(x.pc) in (("Lt", "len", 32), ("Le", "len", 31)) for x in somes + writes)
        R.check(ok, rule, "types::CompoundType::push", "a 33rd layer is refused (None), never wrapped", where=h["span"])
    R.note("CType::push has no 32-layer bound (C side): outside `every type all three can represent`")


def _inner_variants(p):
    """variant(s) matched by p, looking inside a single-field Some(..)/Ok(..) wrapper"""
    if p.get("k") == "PTupleStruct" and len(p.get("pats", [])) == 1 and \
            last_seg(norm(p["res"].get("path", ""))) in ("Some", "Ok"):
        inner = pat_variants(p["pats"][0])
        if inner:
            return inner
    return pat_variants(p)


def _arm_table(h, scrut_ty_re):
    """variant -> variant table of a conversion match: {pattern variant: resulting ctor/variant}"""
    out = {}
    for m in find_matches(h["body"], scrut_ty_re):
        for a in m["arms"]:
            for v in _inner_variants(a["pat"]):
                t = tail(a["body"])
                res = None
                if t.get("k") == "Call":
                    cal = norm(t.get("callee", ""))
                    if cal == "core::option::Option::Some" and t["args"]:
                        inner = strip(t["args"][0])
                        if inner.get("k") == "Call":
                            res = ("Some", last_seg(norm(inner.get("callee", ""))), [last_seg(def_path(x) or "") for x in inner["args"]])
                    else:
                        res = (last_seg(cal), [last_seg(def_path(x) or local_name(x) or "") for x in t.get("args", [])])
                elif t.get("k") == "MethodCall":
                    res = (t["m"], [last_seg(def_path(x) or "") for x in t["args"]])
                elif t.get("k") == "Path":
                    res = (last_seg(def_path(t) or ""),)
                elif t.get("k") == "Struct":
                    fl = {f["name"]: f["e"] for f in t["fields"]}
                    prim = fl.get("primitive")
                    pv = None
                    if prim is not None:
                        for p in exprs(prim, "Path"):
                            d = def_path(p)
                            if d and "CPrimitiveType::" in d:
                                pv = last_seg(d)
                    res = ("struct", pv, lit_value(fl.get("len", {})), lit_value(fl.get("layers", {})))
                out.setdefault(last_seg(v), res)
    return out


def _conv_table(C, h, src_enum, tgt_rx):
    """conversion table of a function, read from the path conditions of the constructor sites: {source variant (of the enum
    whose last path segment is src_enum, also nested in Some(..)/Ok(..)): sorted labels `Enum::Variant` of the target
    constructors (paths matching tgt_rx) built under it}. Works for match arms, let-matches with early returns, helpers."""
    S = sem.Sem(C, h)
    rx = re.compile(tgt_rx)
    out = {}
    for x in S.sites():
        n = x.node
        d = None
        if n.get("k") == "Path":
            r = n["res"]
            if r.get("r") == "def" and str(r.get("dk", "")).startswith("Ctor"):
                d = norm(r["path"])
        elif n.get("k") == "Call" and str(n.get("callee_kind", "")).startswith("Ctor"):
            d = norm(n.get("callee", ""))
        if not d or not rx.search(d):
            continue
        srcs = sem.nested_variants(x.pc, lambda v: True, src_enum)
        for sv in (srcs or {"*"}):
            out.setdefault(sv, set()).add(sem.short_variant(d))
    return {k: sorted(v) for k, v in out.items()}, S


PRIMS = ("Bool", "Bytes", "Int", "Ip")


def rule_inverse(F, R):
    rule = "R15-inverse"
    E = F.engine
    h = E.hir("types::CompoundType::try_from_type") or E.hir("types::CompoundType::from_type")
    if not h:
        R.cannot(rule, "types::CompoundType::from_type", "anchor not found")
    else:
        t, _ = _conv_table(E, h, "Type", r"types::(PrimitiveType|Layer)::\w+$")
        want = {p: ["PrimitiveType::" + p] for p in PRIMS}
        want.update({"Array": ["Layer::Array"], "Map": ["Layer::Map"]})
        R.check(t == want, rule, norm(h["path"]), "Type -> CompoundType arm table", "extracted %s" % t, h["span"])
    h = E.hir("types::CompoundType::into_type")
    if not h:
        R.cannot(rule, "types::CompoundType::into_type", "anchor not found")
    else:
        t1, _ = _conv_table(E, h, "Layer", r"types::Type::(Array|Map)$")
        t2, _ = _conv_table(E, h, "PrimitiveType", r"types::Type::(Bool|Bytes|Int|Ip)$")
        ok1 = t1 == {"Array": ["Type::Array"], "Map": ["Type::Map"]}
        ok2 = t2 == {p: ["Type::" + p] for p in PRIMS}
        R.check(ok1 and ok2, rule, norm(h["path"]), "CompoundType -> Type arm table is the inverse",
                "layers %s primitives %s" % (t1, t2), h["span"])
    # C side
    X = F.ffi
    hc = X.hir("<CType as core::convert::From<wirefilter::types::Type>>::from")
    ht = X.hir("{impl core::convert::From<CType> for wirefilter::types::Type}::from")
    if not hc or not ht:
        R.cannot(rule, "CType <-> Type conversions", "anchors not found")
        return
    t, S = _conv_table(X, hc, "Type", r"(CPrimitiveType|Layer)::\w+$")
    want = {p: ["CPrimitiveType::" + p] for p in PRIMS}
    want.update({"Array": ["Layer::Array"], "Map": ["Layer::Map"]})
    # a primitive type is the bare CType { len: 0, layers: 0, primitive }
    bare = set()
    bare_ok = True
    for x in S.sites():
        n = x.node
        if n.get("k") == "Struct" and last_seg(norm(n["res"].get("path", ""))) in ("CType", "Self") and "CType" in norm(n.get("ty", "")):
            fl = {f["name"]: f["e"] for f in n["fields"]}
            srcs = sem.nested_variants(x.pc, lambda v: True, "Type") or {"*"}
            bare |= srcs
            bare_ok = bare_ok and lit_value(fl.get("len", {})) == 0 and lit_value(fl.get("layers", {})) == 0
    R.check(t == want and bare == set(PRIMS) and bare_ok, rule, norm(hc["path"]), "Type -> CType arm table",
            "extracted %s; bare CType literal for %s (len/layers zero: %s)" % (t, sorted(bare), bare_ok), hc["span"])
    t1, _ = _conv_table(X, ht, "Layer", r"types::Type::(Array|Map)$")
    t2, _ = _conv_table(X, ht, "CPrimitiveType", r"types::Type::(Bool|Bytes|Int|Ip)$")
    ok1 = t1 == {"Array": ["Type::Array"], "Map": ["Type::Map"]}
    ok2 = t2 == {p: ["Type::" + p] for p in PRIMS}
    R.check(ok1 and ok2, rule, norm(ht["path"]), "CType -> Type arm table is the inverse", "layers %s primitives %s" % (t1, t2), ht["span"])
    # the primitive codes are distinct
    a = X.adt("CPrimitiveType")
    if a:
        ds = [v["discr"] for v in a["variants"]]
        R.check(len(set(ds)) == len(ds) == 4, rule, "CPrimitiveType", "four distinct primitive codes", str(ds), a["span"])


def rule_dup(F, R):
    rule = "R15-dup"
    E = F.engine
    hs = E.hirs(r"FieldMapVisitor as serde_core::de::Visitor>::visit_map$")
    if len(hs) != 1:
        return R.cannot(rule, "Scheme FieldMapVisitor::visit_map", "anchor not found")
    h = hs[0]
    fn = norm(h["path"])
    adds = list(calls(h["body"], r"scheme::SchemeBuilder::add_field_full$"))
    R.floor(rule, "add_field_full calls in the scheme visitor", len(adds), 1)
    for c in adds:
        # result must flow into `?` (possibly through map_err)
        propagated = False
        for m in exprs(h["body"], "Match"):
            if str(m.get("src", "")).startswith("TryDesugar"):
                s = strip(m["scrut"])
                if s.get("k") == "Call" and s.get("args"):
                    root, ch = chain(s["args"][0])
                    inner = strip(s["args"][0])
                    if inner is c or (c in ch and all(x["m"] == "map_err" for x in ch[ch.index(c) + 1:])):
                        propagated = True
        R.check(propagated, rule, fn, "duplicate-name error of add_field_full is propagated with `?`",
                "a dropped Result silently keeps the first definition", c["sp"])
        returned = _returned_builder(E, h)
        recv_b = sem.root_local(returned[0], c["recv"], returned[0].root) if returned and c["k"] == "MethodCall" else None
        R.check((returned is not None and recv_b is not None and recv_b is returned[1]) if c["k"] == "MethodCall" else True, rule, fn,
                "fields are added to the builder that is returned", where=c["sp"])
    R.check(_returned_builder(E, h) is not None, rule, fn, "the visitor returns that builder", where=h["span"])


def _returned_builder(E, h):
    """(Sem, binding) of the SchemeBuilder local that every successful result of the visitor is made of: `Ok(builder)` or
    `Ok(builder.build())`"""
    S = sem.Sem(E, h)
    oks = [x for x in S.result_leaves() if sem.ctor_head(x.node) == "Result::Ok" and x.node.get("args")]
    binds = []
    for x in oks:
        b = sem.root_local(S, x.node["args"][0], x.frame)
        v = sem.peel(x.node["args"][0])
        only_build = all(m["m"] == "build" for m in chain(v, follow=False)[1])
        if b is None or b.pat is None or "SchemeBuilder" not in norm(b.pat.get("ty", "")) or not only_build:
            return None
        binds.append(b)
    if not binds or any(b is not binds[0] for b in binds):
        return None
    return S, binds[0]


def run(F, R, tier):
    # R15-deep: no explicit panic reachable through the type / scheme deserializers
    def via_types(path):
        return any(("types::" in p and "deserialize" in p.lower()) or "scheme::Scheme" in p or "SerdeField" in p or
                   "CompoundType" in p for p in path)
    C14.rule_panic(F, R, rule="R15-deep", restrict=via_types)
    n = C14.rule_borrow(F, R, rule="R14-borrow", scope=lambda fn: "scheme::Scheme" in fn or "SerdeField" in fn)
    R.floor("R14-borrow", "typed serde requests in the scheme deserializer", n, 1)
    rule_pack(F, R)
    rule_inverse(F, R)
    rule_dup(F, R)
    R.not_decided += ["round trip for all layer strings (follows from the tables only under the stated semantics)",
                      "JSON text form of types and schemes (serde_json, derived impls)",
                      "wasm constructor behaviour beyond using Scheme::deserialize (serde_wasm_bindgen is a dependency)"]
