"""C16 — a scheme is a consistent registry of uniquely named fields, functions and lists."""
from lib import *
import sem
import C08

LEVEL = "other"
EXPLANATION = ("Who-may-write and dominance rules over scheme.rs: the registry collections of SchemeBuilder are "
               "mutated only by add_field_full / add_function / add_list, and in each the push happens only in the "
               "Vacant arm of the map entry for the complete name/type, paired with inserting the pre-push length "
               "as index, while the Occupied arm mutates nothing and reports the kind found in the entry; a built "
               "Scheme is an Arc<SchemeBuilder> that is never mutated (no get_mut/make_mut, no interior "
               "mutability); identifiers are looked up only through HashMap::get with the complete dotted run; "
               "get_field/get_function accept only their own kind; every reference object is built from an index "
               "read out of the registry; scheme equality is pointer identity.")

SB = "scheme::SchemeBuilder"
REG_FIELDS = {"items", "fields", "functions", "list_types", "lists"}
MUT = {"push", "insert", "entry", "remove", "clear", "retain", "extend", "append", "pop", "truncate", "drain", "swap_remove",
       "get_mut", "iter_mut", "values_mut", "sort", "dedup", "reverse", "swap", "as_mut", "remove_entry", "extend_from_slice"}
ADDERS = {SB + "::add_field_full": ("items", "fields", "Field"), SB + "::add_function": ("items", "functions", "Function"),
          SB + "::add_list": ("list_types", "lists", None)}


def _reg_field(n):
    """name of the SchemeBuilder registry field at the root of expression n (through self.inner / Arc deref)"""
    for f in exprs(n, "Field"):
        if f.get("name") in REG_FIELDS and SB in norm(strip(f["e"]).get("ty", "") + " " + strip(f["e"]).get("aty", "")):
            return f["name"]
    return None


def rule_writers(E, R):
    rule = "R16-writers"
    writers = {}
    readers = {}
    for hb in E.hir_list:
        if "body" not in hb:
            continue
        fn = norm(hb["path"])
        if "::tests::" in fn:
            continue
        for c in exprs(hb["body"], "MethodCall"):
            fld = _reg_field(c["recv"])
            if not fld:
                continue
            root, ch = chain(c)
            first = ch[0]["m"] if ch else c["m"]
            # only the first method applied to the collection matters
            if strip(ch[0]["recv"]).get("k") != "Field":
                continue
            if first in MUT:
                writers.setdefault(fn, set()).add("%s.%s" % (fld, first))
            else:
                readers.setdefault(fn, set()).add("%s.%s" % (fld, first))
        for a in exprs(hb["body"], ("Assign", "AssignOp")):
            fld = _reg_field(a["l"])
            if fld:
                writers.setdefault(fn, set()).add("%s =" % fld)
    want = set(ADDERS)
    R.check(set(writers) == want, rule, SB, "registry collections are mutated only by add_field_full / add_function / add_list",
            "writers: %s" % {k: sorted(v) for k, v in writers.items()})
    R.analysed["registry_readers"] = {k: sorted(v) for k, v in readers.items()}
    # immutability after build
    bad = []
    for hb in E.hir_list:
        if "body" not in hb:
            continue
        for c in exprs(hb["body"], ("Call", "MethodCall")):
            cal = norm(c.get("callee", ""))
            if cal in ("alloc::sync::Arc::get_mut", "alloc::sync::Arc::make_mut", "alloc::sync::Arc::get_mut_unchecked") and \
                    SB in norm(json_types(c)):
                bad.append((norm(hb["path"]), cal))
    R.check(not bad, rule, "scheme::Scheme", "a built scheme is never mutated through its Arc", str(bad))
    a = E.adt(SB)
    if a:
        inter = [x for x in a.get("interior", []) if not x.startswith("dyn:") and x != "alloc::sync::Arc"]  # Arc<str> names: reference counts are not registry state
        R.check(not inter, rule, SB, "no interior mutability in the registry (only opaque user definitions)", str(a.get("interior")), a["span"])
    s = E.adt("scheme::Scheme")
    if s:
        f = s["variants"][0]["fields"]
        R.check(len(f) == 1 and norm(f[0]["ty"]) == "alloc::sync::Arc<scheme::SchemeBuilder>", rule, "scheme::Scheme",
                "Scheme is exactly an Arc<SchemeBuilder>", str([x["ty"] for x in f]), s["span"])
    hb = E.hir(SB + "::build")
    if hb:
        t = fn_result(hb)
        ok = t.get("k") == "Struct" and any(norm(c.get("callee", "")) == "alloc::sync::Arc::new" and local_name(c["args"][0]) == "self"
                                            for c in exprs(t, "Call"))
        R.check(ok, rule, SB + "::build", "build() freezes the builder itself (Arc::new(self))", where=hb["span"])


def json_types(c):
    return " ".join([c.get("ty", "")] + [a.get("ty", "") for a in c.get("args", [])])


def rule_vacant(E, R):
    rule = "R16-vacant"
    for fn, (mapf, vecf, kind) in ADDERS.items():
        h = E.hir(fn)
        if not h:
            R.cannot(rule, fn, "anchor not found")
            continue
        body = h["body"]
        S = sem.Sem(E, h)
        entries = [x for x in S.sites() if x.node.get("k") == "MethodCall" and x.node["m"] == "entry" and
                   _reg_field(S.resolve(x.node["recv"], x.frame).node) == mapf]
        if len(entries) != 1:
            R.violation(rule, fn, "registration goes through `%s.entry(key)`" % mapf, "%d entry() calls on the table" % len(entries), h["span"])
            continue
        ent = entries[0]
        on_entry = lambda v, ent=ent: S.resolve(v.node, v.frame).node is ent.node
        where_ = lambda x: sem.nested_variants(x.pc, on_entry, "Entry")
        # the key is the complete name / the type
        key = ent.node["args"][0]
        kn = "param#1" if sem.param_index(S, key, ent.frame) == 1 else local_name(chain(key)[0])
        R.check(kn == "param#1" and not ent.pc, rule, fn, "the entry key is the complete %s" % ("name" if mapf == "items" else "type"), str(kn), ent.node["sp"])
        leaves = S.result_leaves()
        # failures of a private helper that is used with `?` are failures of this function
        for fr_ in {x.frame for x in S.sites() if x.frame is not S.root}:
            used_with_try = any(sem.is_try(y.node) and sem.peel(sem.try_inner(y.node)) is fr_.call for y in S.sites())
            if used_with_try:
                leaves = leaves + [x for x in S._leaves(fr_.h["body"], lambda s_, fr_=fr_: s_.frame is fr_ and not s_.in_closure)
                                   if norm(x.node.get("callee", "")) == "core::result::Result::Err"]
        vac_ok = [x for x in leaves if norm(x.node.get("callee", "")) == "core::result::Result::Ok" and where_(x) == {"Vacant"}]
        occ_err = [x for x in leaves if norm(x.node.get("callee", "")) == "core::result::Result::Err" and where_(x) == {"Occupied"}]
        if not vac_ok or not occ_err:
            R.violation(rule, fn, "both Vacant and Occupied arms present",
                        "a vacant entry must lead to Ok, an occupied one to Err (found %d / %d such returns)" % (len(vac_ok), len(occ_err)), ent.node["sp"])
            continue
        occ = {"sp": occ_err[0].node.get("sp", ""), "body": occ_err[0].node}
        # all mutations of the registry happen for a vacant entry only
        muts = [x for x in S.sites() if x.node.get("k") == "MethodCall" and x.node["m"] in MUT - {"entry"} and _reg_field(x.node["recv"])]
        R.check(len(muts) == 1 and muts[0].node["m"] == "push" and _reg_field(muts[0].node["recv"]) == vecf and where_(muts[0]) == {"Vacant"},
                rule, fn, "the only mutation is one push onto `%s`, in the Vacant arm" % vecf,
                "mutations: %s" % [(x.node["m"], sorted(where_(x) or [])) for x in muts], ent.node["sp"])
        occ_muts = [x for x in S.sites() if x.node.get("k") == "MethodCall" and x.node["m"] in ("insert", "remove", "get_mut", "into_mut", "remove_entry")
                    and where_(x) == {"Occupied"}]
        R.check(not occ_muts, rule, fn, "the Occupied arm changes nothing", str([x.node["m"] for x in occ_muts]), occ["sp"])
        # index = len() before the push, inserted into the entry
        order = S.sites()
        lens = [x for x in order if x.node.get("k") == "MethodCall" and x.node["m"] == "len" and _reg_field(x.node["recv"]) == vecf]
        ins = [x for x in order if x.node.get("k") == "MethodCall" and x.node["m"] == "insert" and "VacantEntry" in norm(strip(x.node["recv"]).get("ty", ""))]
        i_len = order.index(lens[0]) if lens else None
        i_push = order.index(muts[0]) if len(muts) == 1 else None
        i_ins = order.index(ins[0]) if ins else None
        for x in ins:
            v0 = S.resolve(x.node["args"][0], x.frame)
            a0 = sem.peel(v0.node)
            inner = a0["args"][0] if a0.get("k") == "Call" and a0.get("args") else a0
            ins_ok = bool(lens) and S.resolve(inner, v0.frame).node is lens[0].node
            ctor = last_seg(norm(a0.get("callee", ""))) if a0.get("k") == "Call" else None
            R.check(ins_ok and (kind is None or ctor == kind) and where_(x) == {"Vacant"}, rule, fn,
                    "the entry records the new element's index%s" % ((" as SchemeItem::" + kind) if kind else ""),
                    "inserted %s(%s)" % (ctor, local_name(inner)), x.node["sp"])
        R.check(None not in (i_len, i_push, i_ins) and i_len < i_push, rule, fn,
                "index taken from len() before the push", "len@%s push@%s insert@%s" % (i_len, i_push, i_ins), ent.node["sp"])
        R.check(bool(vac_ok), rule, fn, "a fresh name succeeds", where=ent.node["sp"])
        # Occupied reports what it found
        if kind is not None:
            # (also through a private helper of the same file)
            S = sem.Sem(E, h)
            UI = sem.enum_universe(E, "scheme::SchemeItem")
            pI = lambda v: norm(v.node.get("ty", "")).replace("&", "").replace("mut ", "").strip() == "scheme::SchemeItem"
            pE = lambda v: "Entry<" in norm(v.node.get("ty", ""))
            tbl = {}
            for x in S.sites():
                c = x.node
                if c.get("k") == "Call" and "RedefinitionError" in norm(c.get("callee", "")) and c.get("callee_kind", "").startswith("Ctor"):
                    ent = sem.admits(x.pc, pE, None)
                    if not ent or {sem.variant_head(e) for e in ent} != {"Entry::Occupied"}:
                        tbl.setdefault("<outside Occupied>", []).append(last_seg(norm(c["callee"])))
                        continue
                    items = sem.admitted_tuples(x.pc, [pI], [UI])
                    for (it,) in items:
                        tbl.setdefault(last_seg(it), []).append(last_seg(norm(c["callee"])))
            want = {"Field": ["Field", "FieldRedefinitionError"], "Function": ["Function", "FunctionRedefinitionError"]}
            R.check({k: sorted(v) for k, v in tbl.items()} == {k: sorted(v) for k, v in want.items()}, rule, fn,
                    "a taken name fails with the kind (field / function) that holds it", str(tbl), occ["sp"])
        else:
            ok = all(any("ListRedefinitionError" in norm(c.get("callee", "")) for c in exprs(x.node, "Call")) for x in occ_err)
            R.check(ok, rule, fn, "a second list for the same type fails", where=occ["sp"])
    # sibling agreement of the two identifier adders is implied by both matching the same table
    for fn, opt in ((SB + "::add_field", False), (SB + "::add_optional_field", True)):
        h = E.hir(fn)
        if not h:
            R.cannot(rule, fn, "anchor not found")
            continue
        # followed into the private registration helper: the FieldDefinition that is pushed onto `fields` is made of this
        # function's name, its type and the literal flag (wherever the struct is put together)
        S = sem.Sem(E, h)
        pushes = [x for x in S.sites() if x.node.get("k") == "MethodCall" and x.node["m"] == "push" and _reg_field(x.node["recv"]) == "fields"]
        ok = False
        if len(pushes) == 1 and pushes[0].node.get("args"):
            v = S.resolve(pushes[0].node["args"][0], pushes[0].frame)
            st = sem.peel(v.node)
            if st.get("k") == "Struct" and last_seg(norm(st["res"].get("path", ""))) == "FieldDefinition" and not st.get("base"):
                fl = {f["name"]: f["e"] for f in st["fields"]}
                ok = set(fl) == {"name", "ty", "optional"} and \
                    lit_value(S.resolve(fl["optional"], v.frame).node) is opt and \
                    sem.param_index(S, fl["ty"], v.frame) == 2 and \
                    (sem.param_index(S, fl["name"], v.frame) == 1 or
                     # the key handed back by the registry entry that was opened with the name
                     any(x.node.get("k") == "MethodCall" and x.node["m"] == "entry" and _reg_field(S.resolve(x.node["recv"], x.frame).node) == "items" and
                         sem.param_index(S, x.node["args"][0], x.frame) == 1 and sem.passes_through(S, fl["name"], v.frame, x.node)
                         for x in S.sites()))
        R.check(ok, rule, fn, "registers (name, ty, optional=%s)" % str(opt).lower(), where=h["span"])


def rule_exact(E, R):
    rule = "R16-exact"
    fn = "scheme::Scheme::get"
    h = E.hir(fn)
    if not h:
        R.cannot(rule, fn, "anchor not found")
    else:
        gets = [c for c in exprs(h["body"], "MethodCall") if _reg_field(c["recv"]) == "items" and strip(c["recv"]).get("k") == "Field"]
        ok = len(gets) == 1 and gets[0]["m"] == "get" and is_param(gets[0]["args"][0], h, 1)
        R.check(ok, rule, fn, "identifiers are resolved by one HashMap::get with the complete name", where=h["span"])
        S = sem.Sem(E, h, inline=False)
        tbl = {}
        anyp = lambda v: True
        for x in S.sites():
            n_ = x.node
            kind = None
            if n_.get("k") == "Call" and n_.get("callee_kind", "").startswith("Ctor") and "Identifier::" in norm(n_.get("callee", "")):
                kind = ("built", last_seg(norm(n_["callee"])))
            elif n_.get("k") == "Struct" and last_seg(norm(n_["res"].get("path", ""))) in ("FieldRef", "FunctionRef"):
                kind = ("lit", last_seg(norm(n_["res"]["path"])))
            if not kind:
                continue
            vs = sem.nested_variants(x.pc, anyp, "SchemeItem") or {"?"}
            for v in vs:
                ent = tbl.setdefault(v, {"built": [], "lit": [], "idx_ok": True})
                ent[kind[0]].append(kind[1])
                if kind[0] == "lit":
                    idx = [f["e"] for f in n_["fields"] if f["name"] == "index"]
                    ent["idx_ok"] = ent["idx_ok"] and bool(idx) and _index_from_registry(h, idx[0])
        ok = tbl.get("Field", {}).get("built") == ["Field"] and tbl.get("Field", {}).get("lit") == ["FieldRef"] and \
            tbl.get("Function", {}).get("built") == ["Function"] and tbl.get("Function", {}).get("lit") == ["FunctionRef"] and \
            set(tbl) == {"Field", "Function"} and all(v["idx_ok"] for v in tbl.values())
        R.check(ok, rule, fn, "a field entry yields a FieldRef and a function entry a FunctionRef, with the stored index", str(tbl), h["span"])
    # other readers of `items`
    for hb in E.hir_list:
        if "body" not in hb:
            continue
        p = norm(hb["path"])
        if p in (fn,) or p in ADDERS or "::tests::" in p:
            continue
        for c in exprs(hb["body"], "MethodCall"):
            if _reg_field(c["recv"]) == "items" and strip(c["recv"]).get("k") == "Field":
                R.violation(rule, p, "reads the name table with `%s`" % c["m"],
                            "names must be resolved by exact lookup only (no iteration / prefix search)", c["sp"])
    for f2, good, bad in (("scheme::Scheme::get_field", "Field", "UnknownFieldError"), ("scheme::Scheme::get_function", "Function", "UnknownFunctionError")):
        hh = E.hir(f2)
        if not hh:
            R.cannot(rule, f2, "anchor not found")
            continue
        S2 = sem.Sem(E, hh, inline=False)
        looks = [x for x in S2.sites() if x.node.get("k") == "MethodCall" and norm(x.node.get("callee", "")) == fn]
        via_get = len(looks) == 1 and not looks[0].pc and is_param(looks[0].node["args"][0], hh, 1) and local_name(looks[0].node["recv"]) == "self"
        leaves = S2.result_leaves()
        oks = [x for x in leaves if norm(x.node.get("callee", "")) == "core::result::Result::Ok"]
        errs = [x for x in leaves if norm(x.node.get("callee", "")) == "core::result::Result::Err"]
        on_lookup = (lambda v: bool(looks) and sem.peel(v.node) is looks[0].node)
        acc = bool(oks) and all(sem.nested_variants(x.pc, on_lookup, "Identifier") == {good} and
                                sem.passes_through(S2, x.node["args"][0], x.frame, looks[0].node) for x in oks) if looks else False
        rej = bool(errs) and len(oks) + len(errs) == len(leaves) and \
            all(bad in str(def_path(x.node["args"][0]) or "") for x in errs)
        ok = via_get and acc and rej
        R.check(ok, rule, f2, "accepts only a %s; anything else (other kind, unknown name) is %s" % (good.lower(), bad), where=hh["span"])
    # the identifier scanner
    fi = "<scheme::Identifier as lex::LexWith<&scheme::Scheme>>::lex_with"
    hi = E.hir(fi)
    if not hi:
        return R.cannot(rule, fi, "anchor not found")
    S = sem.Sem(E, hi)
    sites = S.sites()
    tw = [x.node for x in sites if x.node.get("k") == "Call" and norm(x.node.get("callee", "")) == "lex::take_while"]
    # every segment is scanned with the same class test (one scanning call in a loop, or one before and one inside it)
    pred_ok = bool(tw)
    for t_ in tw:
        clo = closure_of(t_["args"][2]) if len(t_.get("args", [])) > 2 else None
        one = False
        if clo:
            cs = [norm(c.get("callee", "")) for c in exprs(clo["body"], ("Call", "MethodCall"))]
            lits = [lit_value(x) for x in exprs(clo["body"], ("Lit", "Path")) if lit_value(x) is not None]
            one = cs == ["core::char::methods::{impl char}::is_ascii_alphanumeric"] and lits == ["_"] and binops(clo["body"]).count("Or") == 1
        pred_ok = pred_ok and one
    R.check(pred_ok, rule, fi, "an identifier segment is [A-Za-z0-9_]+", where=hi["span"])
    dots = [x for x in sites if x.node.get("k") == "Call" and norm(x.node.get("callee", "")) == "lex::expect" and lit_value(x.node["args"][1]) == "."]
    R.check(len(dots) == 1, rule, fi, "segments are joined by `.`", where=hi["span"])
    look_sites = [x for x in sites if x.node.get("k") == "MethodCall" and norm(x.node.get("callee", "")) == fn]
    look = [x.node for x in look_sites]
    # the looked-up text is span(<copy of the input taken on entry>, <the cursor after the last segment>)
    name_ok = False
    if len(look) == 1:
        v = S.resolve(look[0]["args"][0], look_sites[0].frame)
        i = sem.peel(v.node)
        if v.proj:
            i, vf, rest = S.project(v.node, v.frame, v.proj)
            i = sem.peel(i) if not rest else {}
        else:
            vf = v.frame
        if norm(i.get("callee", "")) == "lex::span" and len(i.get("args", [])) == 2:
            # span(<start of the text>, <cursor after the last segment>): both derive from the input parameter; the first is
            # never reassigned, the second is the variable the scanning loop advances
            a_b = S.lookup(sem.peel(i["args"][0]), vf)
            c_b = S.lookup(sem.peel(i["args"][1]), vf)
            name_ok = a_b is not None and c_b is not None and a_b is not c_b and a_b.assigns == 0 and c_b.assigns > 0 and \
                sem.param_index(S, i["args"][0], vf, through_mut=True) == 0 and \
                sem.param_index(S, i["args"][1], vf, through_mut=True) == 0
    R.check(len(look) == 1 and name_ok, rule, fi,
            "the whole maximal dotted run is looked up (no prefix fallback)", where=hi["span"])
    oks = [x for x in S.result_leaves() if x.node.get("k") == "Call" and norm(x.node.get("callee", "")) == "core::result::Result::Ok"]
    good = bool(oks) and len(look) == 1
    for x in oks:
        found = False
        for a, pol in sem.literals(x.pc)[0]:
            if a.kind == "ok" and pol:
                root, ch = chain(a.node)
                if look and ch and ch[0] is look[0] and [c["m"] for c in ch[1:]] in (["ok_or"], ["ok_or_else"]):
                    found = True
            if a.kind == "is" and pol and len(a.scruts) == 1 and {sem.variant_head(y[0]) for y in a.alts} == {"Option::Some"}:
                v = S.resolve(a.scruts[0].node, a.scruts[0].frame)
                if look and v.node is look[0]:
                    found = True
        good = good and found
    R.check(good, rule, fi, "an unknown name is an error", "every accepting return must sit on a path where the lookup found the name", hi["span"])


def _index_from_registry(hb, e):
    """the local is the payload of a SchemeItem entry, or the parameter of a closure mapped over `0..<registry>.len()` or over a
    lookup in the registry's type table"""
    nm = local_name(e)
    if not nm:
        return False
    body = hb["body"]
    for q in walk(body):
        if q.get("k") == "PTupleStruct" and "SchemeItem::" in norm(q["res"].get("path", "")) and nm in pat_bindings(q):
            return True
    # `let index = *self.inner.list_types.get(ty)?;`
    ini = let_init(body, nm)
    if ini is not None:
        i_ = sem.peel(ini)
        while i_.get("k") == "Unary" and i_.get("op") == "Deref":
            i_ = sem.peel(i_["e"])
        if i_.get("k") == "MethodCall" and i_["m"] == "get" and _reg_field(i_["recv"]):
            return True
    for c in exprs(body, "MethodCall"):
        if c["m"] != "map" or not c.get("args"):
            continue
        clo = closure_of(c["args"][0])
        if not clo or nm not in closure_param_names(clo):
            continue
        r = deref(c["recv"])
        if r.get("k") == "Struct" and "ops::range::Range" in norm(r["res"].get("path", "")):
            fl = {x["name"]: deref(x["e"]) for x in r["fields"]}
            if lit_value(fl.get("start", {})) == 0 and fl.get("end", {}).get("m") == "len" and _reg_field(fl["end"]["recv"]):
                return True
        if r.get("k") == "MethodCall" and r["m"] == "get" and _reg_field(r["recv"]):
            return True
    return False


REF_TYPES = {"scheme::FieldRef", "scheme::Field", "scheme::FunctionRef", "scheme::Function", "scheme::ListRef", "scheme::List"}


def rule_refs(E, R):
    rule = "R16-refs"
    n = 0
    for hb in E.hir_list:
        if "body" not in hb:
            continue
        fn = norm(hb["path"])
        if "::tests::" in fn:
            continue
        for s in exprs(hb["body"], "Struct"):
            d = norm(s["res"].get("path", ""))
            if d not in REF_TYPES or s.get("x"):
                continue
            n += 1
            f = {x["name"]: strip(x["e"]) for x in s["fields"]}
            idx = f.get("index", {})
            src = None
            if idx.get("k") == "Field" and idx.get("name") == "index" and local_name(idx["e"]) == "self":
                src = "self.index"
            elif _index_from_registry(hb, idx["e"] if idx.get("k") == "Unary" and idx.get("op") == "Deref" else idx):
                src = "index read from the registry"
            in_scheme_mod = fn.startswith("scheme::") or fn.startswith("<scheme::")
            R.check(src is not None and in_scheme_mod, rule, fn, "%s built from %s" % (last_seg(d), src or "?"),
                    "reference objects must carry an index that came out of the registry", s["sp"])
    R.floor(rule, "reference object constructions", n, 12)
    # the range-based iterators produce exactly 0..len
    for fn, vecf in (("scheme::Scheme::fields", "fields"), ("scheme::Scheme::functions", "functions"), ("scheme::Scheme::lists", "lists")):
        h = E.hir(fn)
        if not h:
            R.cannot(rule, fn, "anchor not found")
            continue
        rng = [s for s in exprs(h["body"], "Struct", into_closures=False) if "ops::range::Range" in norm(s["res"].get("path", ""))]
        ok = False
        for r in rng:
            fl = {x["name"]: x["e"] for x in r["fields"]}
            end = strip(fl.get("end", {}))
            ok = lit_value(fl.get("start", {})) == 0 and end.get("k") == "MethodCall" and end["m"] == "len" and _reg_field(end["recv"]) == vecf
        R.check(ok, rule, fn, "enumerates indexes 0..%s.len() in insertion order" % vecf, where=h["span"])
    # accessors read the entry at their own index
    for fn, fld in (("scheme::FieldRef::name", "name"), ("scheme::FieldRef::optional", "optional"), ("<scheme::FieldRef as types::GetType>::get_type", "ty")):
        h = E.hir(fn)
        if not h:
            R.cannot(rule, fn, "anchor not found")
            continue
        ix = [i for i in exprs(h["body"], "Index")]
        ok = len(ix) == 1 and _reg_field(ix[0]["e"]) == "fields" and strip(ix[0]["idx"]).get("name") == "index" and \
            any(f.get("name") == fld for f in exprs(h["body"], "Field"))
        R.check(ok, rule, fn, "reads `%s` of fields[self.index]" % fld, where=h["span"])


def run(F, R, tier):
    E = F.engine
    import witness
    witness.report(R, "W16", "W16")
    rule_writers(E, R)
    rule_vacant(E, R)
    rule_exact(E, R)
    rule_refs(E, R)
    C08.rule_schemeeq(E, R)
    R.not_decided += ["hashing/equality behaviour of HashMap with the Fnv hasher (dependency)",
                      "case sensitivity follows from byte-exact HashMap keys (no normalisation call exists: checked by R16-exact readers census)"]
