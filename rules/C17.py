"""C17 — `in $list` delegates exactly to the context's list matcher."""
from lib import *
import common

LEVEL = "other"
EXPLANATION = ("Static rules: the two built-in matchers are constant functions with the documented constants "
               "(all assignments to the return place in MIR); the list-name lexer's accepted character set is "
               "extracted from its match arms and compared with {a-z,0-9,_,.}; matcher creation, every accessor and "
               "the (de)serializers index the matcher table by the list's registration index; the compiled "
               "comparison calls match_value(name, value) on the matcher of the parsed list; absent value -> false; "
               "clear() clears every matcher. User matchers are outside the claim.")

ALWAYS = "<list_matcher::AlwaysListMatcher as list_matcher::ListMatcher>::match_value"
NEVER = "<list_matcher::NeverListMatcher as list_matcher::ListMatcher>::match_value"


def const_return(E, R, fn, expected, rule="R17-const"):
    m = E.mir(fn)
    if not m:
        return R.cannot(rule, fn, "anchor not found")
    defs = m.defs(0)
    vals = set()
    for bb, j, rv in defs:
        if j != "term" and rv["k"] == "Use" and "c" in rv["op"] and "v" in rv["op"]["c"]:
            vals.add(bool(rv["op"]["c"]["v"]))
        else:
            vals.add("non-constant")
    R.check(vals == {expected}, rule, fn, "returns the constant %s on every path" % str(expected).lower(),
            "return place is assigned %s; the built-in %s must match %s value" % (
                sorted(map(str, vals)), "always-list" if expected else "never-list", "every" if expected else "no"),
            m.b["span"])


def chars_of_pat(p):
    """set of chars matched by an or-pattern of char literals/ranges; None if not understood"""
    out = set()
    ps = p["pats"] if p.get("k") == "POr" else [p]
    for q in ps:
        k = q.get("k")
        if k == "PExpr" and q["e"].get("k") == "PELit" and q["e"]["lit"].get("t") == "char":
            out.add(q["e"]["lit"]["v"])
        elif k == "PRange" and q.get("lo", {}).get("k") == "PELit" and q.get("hi", {}).get("k") == "PELit":
            lo, hi = q["lo"]["lit"]["v"], q["hi"]["lit"]["v"]
            if "Included" not in q.get("end", ""):
                return None
            out |= {chr(c) for c in range(ord(lo), ord(hi) + 1)}
        else:
            return None
    return out


def rule_alpha(E, R):
    rule = "R17-alpha"
    fn = "<rhs_types::list::ListName as lex::Lex>::lex"
    h = E.hir(fn)
    if not h:
        return R.cannot(rule, fn, "anchor not found")
    body = h["body"]
    want = set("abcdefghijklmnopqrstuvwxyz0123456789_.")
    # the arm that pushes the char
    got = None
    for m in find_matches(body, r"^char$"):
        acc = set()
        any_push = False
        for a in m["arms"]:
            pushes = [c for c in exprs(a["body"], "MethodCall") if c["m"] == "push" and local_name(c["recv"]) == "res"]
            if not pushes:
                continue
            any_push = True
            if "guard" in a:
                # an arm admitted by a predicate: map known ASCII predicates to their sets, anything else is too wide
                preds = [last_seg(norm(c.get("callee", ""))) for c in exprs(a["guard"], ("Call", "MethodCall"))]
                known = {"is_ascii_lowercase": set("abcdefghijklmnopqrstuvwxyz"), "is_ascii_digit": set("0123456789")}
                unknown = [p for p in preds if p not in known]
                base = chars_of_pat(a["pat"]) if a["pat"].get("k") not in ("PBinding", "PWild") else None
                if unknown or not preds or any(b != "Or" for b in binops(a["guard"]) if b in ("And", "Or")) and False:
                    R.violation(rule, fn, "list-name characters admitted by predicate %s" % (unknown or preds),
                                "the documented alphabet is a-z 0-9 _ . ; a predicate such as char::is_lowercase / is_alphanumeric also "
                                "admits non-ASCII letters", a["sp"])
                    acc = None
                    break
                for p_ in preds:
                    acc |= known[p_]
            else:
                cs = chars_of_pat(a["pat"])
                if cs is None:
                    acc = None
                    break
                acc |= cs
        if any_push:
            got = acc
    if got is None:
        if not any(r.status == "violation" and r.rule == rule for r in R.results):
            R.cannot(rule, fn, "could not extract the accepted character set")
    else:
        extra, missing = sorted(got - want), sorted(want - got)
        R.check(got == want, rule, fn, "accepted characters are exactly a-z 0-9 _ .",
                "extra %s missing %s" % (extra, missing), h["span"])
    # `$` required
    ex = [c for c in calls(body, r"^lex::expect$") if lit_value(c["args"][1]) == "$"]
    R.check(len(ex) >= 1, rule, fn, "`$` is required (expect(input, \"$\")?)", where=h["span"])
    # empty name rejected: each break of the scan loop sits in the else-branch of `if res.is_empty() {return Err}`
    n_break = 0
    ok_break = True
    for n, st in walk_arms(body):
        if n.get("k") == "Break":
            n_break += 1
            guarded = False
            for ent in st:
                if ent[0] == "if" and ent[2] is False:
                    guarded = True
            ok_break = ok_break and guarded
    empties = [i for i in exprs(body, "If") if any(c["m"] == "is_empty" and local_name(c["recv"]) == "res"
               for c in exprs(i["cond"], "MethodCall")) and list(exprs(i["then"], "Ret"))]
    R.check(n_break >= 1 and ok_break and len(empties) >= n_break, rule, fn, "an empty name is rejected on every exit of the scan loop",
            "%d breaks, %d `if res.is_empty() { return Err }` guards" % (n_break, len(empties)), h["span"])
    # leading / trailing dot
    dot = False
    for i in exprs(body, "If"):
        ms = {c["m"] for c in exprs(i["cond"], "MethodCall")}
        lits = [x["lit"].get("v") for x in exprs(i["cond"], "Lit")]
        if {"first", "last"} <= ms and lits.count(46) >= 2 and list(exprs(i["then"], "Ret")) \
                and any(o == "Or" for o in binops(i["cond"])):
            dot = True
    R.check(dot, rule, fn, "a leading or trailing `.` is rejected", where=h["span"])


def rule_order(E, R):
    rule = "R17-order"
    # creation in registration order
    fn = "execution_context::ExecutionContext::new_with"
    h = E.hir(fn)
    if not h:
        R.cannot(rule, fn, "anchor not found")
    else:
        ok = False
        for s in exprs(h["body"], "Struct"):
            for f in s["fields"]:
                if f["name"] == "list_matchers":
                    root, ch = chain(f["e"])
                    if local_name(root) == "scheme" and ch and ch[0]["m"] == "lists" and chain_verdict(ch[1:]) == "ok":
                        clo = [closure_of(x["args"][0]) for x in ch if x["m"] == "map"]
                        ok = bool(clo) and clo[0] is not None and \
                            len(list(calls(clo[0]["body"], r"list_matcher::ListDefinition::new_matcher$"))) == 1
        R.check(ok, rule, fn, "one matcher per registered list, in registration order",
                "expected scheme.lists().map(|l| l.definition().new_matcher()).collect()", h["span"])
    # accessors index by list.index()
    n = 0
    for hb in E.hir_list:
        if "body" not in hb:
            continue
        p = norm(hb["path"])
        if "execution_context" not in p:
            continue
        for ix in exprs(hb["body"], "Index"):
            base = strip(ix["e"])
            is_lm = (base.get("k") == "Field" and base.get("name") == "list_matchers") or \
                    ("ListMatcher" in base.get("ty", "") and base.get("k") == "Field" and base.get("name") == "1")
            if not is_lm:
                continue
            n += 1
            idx = strip(ix["idx"])
            good = idx.get("k") == "MethodCall" and idx["m"] == "index" and \
                norm(idx.get("callee", "")) in ("scheme::ListRef::index", "scheme::List::index")
            R.check(good, rule, p, "matcher table indexed by list.index()", where=ix["sp"])
    R.floor(rule, "list_matchers[...] index sites", n, 8)
    # the compiled comparison
    cm = E.hirs(r"compile_with_compiler::InList as ast::index_expr::Compare<U>>::compare$")
    if len(cm) != 1:
        R.cannot(rule, "InList::compare", "anchor not found")
    else:
        b = cm[0]["body"]
        mv = list(calls(b, r"list_matcher::ListMatcher::match_value$"))
        good = False
        if len(mv) == 1:
            c = mv[0]
            recv = strip(c["recv"])
            a0, a1 = c["args"][0], c["args"][1]
            r0, ch0 = chain(a0)
            good = (recv.get("k") == "MethodCall" and recv["m"] in ("get_list_matcher_unchecked", "get_list_matcher")
                    and local_name(recv["recv"]) == "ctx"
                    and root_is_field(recv["args"][0], "self", "list")
                    and root_is_field(a0, "self", "name") and [x["m"] for x in ch0] == ["as_str"]
                    and local_name(a1) == "value")
        R.check(good, rule, norm(cm[0]["path"]), "calls ctx's matcher for self.list with (self.name, value)",
                where=cm[0]["span"])
    # the parser takes the list from the scheme by the lhs type and the name from ListName::lex
    fn = "ast::field_expr::ComparisonExpr::lex_with_lhs"
    h = E.hir(fn)
    if not h:
        return R.cannot(rule, fn, "anchor not found")
    lits = [s for s in exprs(h["body"], "Struct") if norm(s["res"].get("path", "")).endswith("ComparisonOpExpr::InList")]
    R.floor(rule, "InList constructions in the parser", len(lits), 1)
    gl = list(calls(h["body"], r"scheme::Scheme::get_list$"))
    ok_gl = len(gl) == 1 and local_name(strip(gl[0]["args"][0])) == "lhs_type"
    R.check(ok_gl, rule, fn, "list looked up by the left-hand side type", where=h["span"])
    if gl:
        # its None must become an error: .ok_or(..)? chain
        par = [c for c in exprs(h["body"], "MethodCall") if c["m"] in ("ok_or", "ok_or_else") and strip(c["recv"]) is gl[0]]
        R.check(len(par) == 1, rule, fn, "no list registered for the type -> parse error", where=gl[0]["sp"])
    for s in lits:
        fl = {f["name"]: f["e"] for f in s["fields"]}
        good = local_name(chain(fl.get("list", {}))[0]) == "list" and local_name(fl.get("name", {})) == "name"
        R.check(good, rule, fn, "InList node holds the looked-up list and the lexed name", where=s["sp"])
    # every other InList construction site
    for hb in E.hir_list:
        if "body" not in hb or norm(hb["path"]) == fn:
            continue
        for s in exprs(hb["body"], "Struct"):
            if norm(s["res"].get("path", "")).endswith("ComparisonOpExpr::InList") and not s.get("x"):
                R.violation(rule, norm(hb["path"]), "InList constructed outside the parser", where=s["sp"])


def run(F, R, tier):
    E = F.engine
    const_return(E, R, ALWAYS, True)
    const_return(E, R, NEVER, False)
    rule_alpha(E, R)
    rule_order(E, R)
    common.rule_default(E, R, only={"InList"})
    common.rule_clear(E, R)
    common.rule_keys(E, R)
    R.not_decided += ["answers of user-supplied ListMatcher implementations",
                      "serialized payload of a matcher (user type); round-trip equality of matcher state"]
    R.assumptions += ["dyn ListMatcher calls are closed over the two built-in matchers only"]
