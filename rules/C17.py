"""C17 — `in $list` delegates exactly to the context's list matcher."""
from lib import *
import sem
import common

LEVEL = "other"
EXPLANATION = ("Static rules: the two built-in matchers are constant functions with the documented constants "
               "(all assignments to the return place in MIR); the list-name lexer's accepted character set is "
               "extracted from its match arms and compared with {a-z,0-9,_,.}; matcher creation, every accessor and "
               "the (de)serializers index the matcher table by the list's registration index; the compiled "
               "comparison calls match_value(name, value) on the matcher of the parsed list; absent value -> false; "
               "clear() clears every matcher. User matchers are outside the claim.")

ALWAYS = "<list_matcher::AlwaysListMatcher as list_matcher::ListMatcher>::match_value"
NEVER = "<list_matcher::NeverListMatcher as list_matcher::ListMatcher>::match_value"


def const_return(E, R, fn, expected, rule="R17-const"):
    m = E.mir(fn)
    if not m:
        return R.cannot(rule, fn, "anchor not found")
    defs = m.defs(0)
    vals = set()
    for bb, j, rv in defs:
        if j != "term" and rv["k"] == "Use" and "c" in rv["op"] and "v" in rv["op"]["c"]:
            vals.add(bool(rv["op"]["c"]["v"]))
        else:
            vals.add("non-constant")
    R.check(vals == {expected}, rule, fn, "returns the constant %s on every path" % str(expected).lower(),
            "return place is assigned %s; the built-in %s must match %s value" % (
                sorted(map(str, vals)), "always-list" if expected else "never-list", "every" if expected else "no"),
            m.b["span"])


def chars_of_pat(p):
    """set of chars matched by an or-pattern of char literals/ranges; None if not understood"""
    out = set()
    ps = p["pats"] if p.get("k") == "POr" else [p]
    for q in ps:
        k = q.get("k")
        if k == "PExpr" and q["e"].get("k") == "PELit" and q["e"]["lit"].get("t") == "char":
            out.add(q["e"]["lit"]["v"])
        elif k == "PExpr" and q["e"].get("k") == "PEPath" and isinstance(CONST_VALUES.get(q["e"].get("res", {}).get("path")), str) and \
                len(CONST_VALUES[q["e"]["res"]["path"]]) == 1 and norm(q.get("ty", "char")).lstrip("&") == "char":
            # a char constant used as a pattern
            out.add(CONST_VALUES[q["e"]["res"]["path"]])
        elif k == "PRange" and q.get("lo", {}).get("k") == "PELit" and q.get("hi", {}).get("k") == "PELit":
            lo, hi = q["lo"]["lit"]["v"], q["hi"]["lit"]["v"]
            if "Included" not in q.get("end", ""):
                return None
            out |= {chr(c) for c in range(ord(lo), ord(hi) + 1)}
        else:
            return None
    return out


def _chars_of_any(p):
    """char set of a pattern, looking through `Some(..)`, bindings `c @ ..` and or-patterns; None if not a char set"""
    k = p.get("k")
    if k == "PTupleStruct" and last_seg(norm(p["res"].get("path", ""))) == "Some" and len(p.get("pats", [])) == 1:
        return _chars_of_any(p["pats"][0])
    if k == "PBinding":
        return _chars_of_any(p["sub"]) if p.get("sub") else None
    return chars_of_pat(p)


def rule_alpha(E, R):
    rule = "R17-alpha"
    fn = "<rhs_types::list::ListName as lex::Lex>::lex"
    h = E.hir(fn)
    if not h:
        return R.cannot(rule, fn, "anchor not found")
    body = h["body"]
    want = set("abcdefghijklmnopqrstuvwxyz0123456789_.")
    # the accumulator: a String local that receives `push(char)`
    accs = {local_name(c["recv"]) for c in exprs(body, "MethodCall") if c["m"] == "push" and norm(c["recv"].get("ty", "")).endswith("string::String")}
    accs.discard(None)
    got = set()
    ok_extract = True
    n_arms = 0
    scanned = False
    if not accs:
        # no character-by-character accumulation: the name is cut out of the input by an iterator search whose predicate
        # classifies one character (`find(|c| !matches!(c, SET))`, `take_while(|c| matches!(c, SET))`, ...)
        for c in exprs(body, "MethodCall"):
            if c["m"] not in ("find", "position", "take_while", "trim_start_matches", "split_once", "rfind") or not c.get("args"):
                continue
            clo = closure_of(c["args"][0])
            if not clo:
                continue
            stops_on_true = c["m"] in ("find", "position", "rfind", "split_once")
            for m in exprs(clo["body"], "Match"):
                if norm(m["scrut"].get("ty", "")).lstrip("&") != "char":
                    continue
                true_arms = [a for a in m["arms"] if is_lit(tail(a["body"]), True)]
                negated = any(u.get("op") == "Not" and any(x is m for x in walk(u)) for u in exprs(clo["body"], "Unary"))
                accepts = (negated and stops_on_true) or (not negated and not stops_on_true)
                if not accepts or any("guard" in a for a in true_arms):
                    continue
                for a in true_arms:
                    cs = _chars_of_any(a["pat"])
                    if cs is None:
                        ok_extract = False
                    else:
                        got |= cs
                        n_arms += 1
                scanned = True
        # the local that holds the scanned name: the one tested with is_empty()
        accs = {local_name(c["recv"]) for i in exprs(body, "If") if explicit_err_returns(i["then"])
                for c in exprs(i["cond"], "MethodCall") if c["m"] == "is_empty"}
        accs.discard(None)
    if len(accs) != 1:
        return R.cannot(rule, fn, "could not identify the name accumulator (%s)" % sorted(accs))
    acc = accs.pop()
    # the characters that reach `acc.push(c)`: read from the path condition of each push - char patterns the pushed character
    # was matched against (match arm, `if let`, `matches!`) and ASCII class predicates tested on it
    Sp = sem.Sem(E, h)
    known = {"is_ascii_lowercase": set("abcdefghijklmnopqrstuvwxyz"), "is_ascii_digit": set("0123456789")}
    for x in Sp.sites():
        c_ = x.node
        if not (c_.get("k") == "MethodCall" and c_["m"] == "push" and c_.get("args") and sem.root_local(Sp, c_["recv"], x.frame) is not None and
                sem.root_local(Sp, c_["recv"], x.frame).name == acc) or x.in_closure:
            continue
        n_arms += 1
        pushed = Sp.resolve(c_["args"][0], x.frame)
        pb = pushed.bind or Sp.lookup(pushed.node, pushed.frame)
        sets = []
        lits_, ors_ = sem.literals(x.pc)
        bad_pred = []
        for a_, pol in lits_:
            sty_ = norm(a_.scruts[0].node.get("ty", "")).lstrip("&") if a_.kind == "is" and a_.scruts else ""
            if a_.kind == "is" and pol and a_.pats and len(a_.scruts) == 1 and sty_ in ("char", "core::option::Option<char>"):
                sb = Sp.resolve(a_.scruts[0].node, a_.scruts[0].frame)
                payload = pb is not None and pb.kind in ("pat", "loopvar") and pb.expr is not None and \
                    sem.peel(pb.expr) is sem.peel(a_.scruts[0].node)
                if (sb.bind or Sp.lookup(sb.node, sb.frame)) is pb or payload or \
                        Sp.same(a_.scruts[0].node, a_.scruts[0].frame, c_["args"][0], x.frame):
                    cs_all = set()
                    okp = True
                    for p_ in a_.pats:
                        cs = _chars_of_any(p_)
                        if cs is None:
                            okp = False
                        else:
                            cs_all |= cs
                    if okp:
                        sets.append(cs_all)
            if a_.kind == "call" and pol and a_.node is not None:
                nm_ = last_seg(norm(sem.peel(a_.node).get("callee", "")))
                if norm(str(sem.peel(a_.node).get("recv", {}).get("ty", ""))).lstrip("&") == "char" or nm_.startswith("is_"):
                    if nm_ in known:
                        sets.append(known[nm_])
                    elif nm_.startswith("is_") and "char" in norm(sem.peel(a_.node).get("callee", "")):
                        bad_pred.append(nm_)
        # a disjunction of class tests / patterns (`c.is_ascii_lowercase() || c.is_ascii_digit() || matches!(c, '_' | '.')`)
        for disj in ors_:
            u = set()
            okd = True
            for g_, gp_ in disj:
                ls2, os2 = sem.literals(((g_, gp_),))
                if os2 or len(ls2) != 1 or not ls2[0][1]:
                    okd = False
                    break
                a2 = ls2[0][0]
                if a2.kind == "is" and a2.pats and all(_chars_of_any(p_) is not None for p_ in a2.pats):
                    for p_ in a2.pats:
                        u |= _chars_of_any(p_)
                elif a2.kind == "call" and last_seg(norm(sem.peel(a2.node).get("callee", ""))) in known:
                    u |= known[last_seg(norm(sem.peel(a2.node).get("callee", "")))]
                elif a2.kind == "call" and last_seg(norm(sem.peel(a2.node).get("callee", ""))).startswith("is_"):
                    bad_pred.append(last_seg(norm(sem.peel(a2.node).get("callee", ""))))
                    okd = False
                else:
                    okd = False
            if okd and u:
                sets.append(u)
        if bad_pred:
            R.violation(rule, fn, "list-name characters admitted by predicate %s" % sorted(set(bad_pred)),
                        "the documented alphabet is a-z 0-9 _ . ; a predicate such as char::is_lowercase / is_alphanumeric also "
                        "admits non-ASCII letters", c_["sp"])
            ok_extract = False
            continue
        if not sets:
            ok_extract = False
            R.violation(rule, fn, "list-name characters admitted by an open pattern", "a site that pushes the character does not "
                        "restrict it to a set of literals/ranges", c_["sp"])
            continue
        cs = sets[0]
        for s_ in sets[1:]:
            cs = cs & s_
        got |= cs
    if n_arms == 0:
        R.cannot(rule, fn, "could not extract the accepted character set")
    elif ok_extract:
        extra, missing = sorted(got - want), sorted(want - got)
        R.check(got == want, rule, fn, "accepted characters are exactly a-z 0-9 _ .", "extra %s missing %s" % (extra, missing), h["span"])
    # `$` required
    ex = [c for c in calls(body, r"^lex::expect$") if lit_value(c["args"][1]) == "$"]
    R.check(len(ex) >= 1, rule, fn, "`$` is required (expect(input, \"$\")?)", where=h["span"])
    # an empty name is rejected for both ways the scan can stop (a foreign character, end of input): read from the path
    # conditions - every way out of the scanning loop is taken with a non-empty name, and an empty one leads to Err
    S = sem.Sem(E, h)
    sites = S.sites()

    def is_empty_test(a_):
        n_ = sem.peel(a_.node) if a_.kind == "call" and a_.node is not None else {}
        if n_.get("k") == "MethodCall" and n_["m"] == "is_empty":
            b_ = sem.root_local(S, n_["recv"], a_.frame)
            return b_ is not None and b_.name == acc
        return False

    def empty_pol(x):
        for a_, pol in sem.literals(x.pc)[0]:
            if is_empty_test(a_):
                return pol
        # not stated outright: forced by the conditions taken together (guarded arms that were not taken, ..)
        return sem.implied(x.pc, is_empty_test)
    leaves = S.result_leaves()
    errs = [x for x in leaves if sem.ctor_head(x.node) == "Result::Err"]
    oks = [x for x in leaves if sem.ctor_head(x.node) == "Result::Ok"]
    empties = len([x for x in errs if empty_pol(x) is True])
    breaks = [x for x in sites if x.node.get("k") == "Break" and not x.node.get("x") and not x.in_closure]
    n_break = len(breaks)
    exits_ok = all(empty_pol(x) is False for x in breaks)
    R.check((empties >= 1 and n_break >= 1 and exits_ok) or (scanned and n_break == 0 and empties >= 1), rule, fn,
            "an empty name is rejected whether the scan stops at a foreign character or at the end of input",
            "%d `is_empty() -> Err` returns; %d loop exits, all taken with a non-empty name: %s" % (empties, n_break, exits_ok), h["span"])
    # leading / trailing dot: the accepting return is reached only when neither end of the name is a `.`
    def ends_tested(x):
        seen = set()
        lits_, _ = sem.literals(x.pc)
        for a_, pol in lits_:
            if pol:
                continue
            nodes = [a_.node] if a_.kind in ("call", "opaque") else ([a_.l.node, a_.r.node] if a_.kind == "cmp" and a_.op == "Eq" else [])
            ms = {c["m"] for n_ in nodes if n_ is not None for c in exprs(n_, "MethodCall")}
            ls = [lit_value(y) for n_ in nodes if n_ is not None for y in exprs(n_, ("Lit", "Path")) if lit_value(y) is not None]
            if 46 in ls or "." in ls:
                if ms & {"first", "starts_with"}:
                    seen.add("first")
                if ms & {"last", "ends_with"}:
                    seen.add("last")
        return seen
    dot = bool(oks) and all(ends_tested(x) == {"first", "last"} for x in oks)
    R.check(dot, rule, fn, "a leading or trailing `.` is rejected", where=h["span"])


def rule_order(E, R):
    rule = "R17-order"
    # creation in registration order
    fn = "execution_context::ExecutionContext::new_with"
    h = E.hir(fn)
    if not h:
        R.cannot(rule, fn, "anchor not found")
    else:
        ok = False
        for s in exprs(h["body"], "Struct"):
            for f in s["fields"]:
                if f["name"] == "list_matchers":
                    root, ch = chain(f["e"])
                    if is_param(root, h, 0) and ch and ch[0]["m"] == "lists" and chain_verdict(ch[1:]) == "ok":
                        clo = [closure_of(x["args"][0]) for x in ch if x["m"] == "map"]
                        ok = bool(clo) and clo[0] is not None and \
                            len(list(calls(clo[0]["body"], r"list_matcher::ListDefinition::new_matcher$"))) == 1
        if not ok:
            # the same with an explicit loop: a vector filled, unconditionally, with one new_matcher() per element of scheme.lists()
            Sn = sem.Sem(E, h, inline=False)
            for s_ in exprs(h["body"], "Struct"):
                for f_ in s_["fields"]:
                    if f_["name"] != "list_matchers":
                        continue
                    vb = sem.provenance(Sn, f_["e"], Sn.root)[0]
                    pushes = [x for x in Sn.sites() if x.node.get("k") == "MethodCall" and x.node["m"] == "push" and vb is not None and
                              sem.root_local(Sn, x.node["recv"], x.frame) is vb]
                    for ls, pat, it in sem.for_loops(Sn):
                        b_, _, _, ms = sem.provenance(Sn, it, ls.frame)
                        whole = sem.param_index(Sn, it, ls.frame) == 0 and ms[:1] == ["lists"] and \
                            chain_verdict([{"m": m_} for m_ in ms[1:]], terminal_ok=()) == "ok"
                        inside = [x for x in pushes if any(y is x.node for y in walk(ls.node))]
                        if whole and len(pushes) == 1 and len(inside) == 1 and not inside[0].pc_has_conditions() and \
                                len(list(calls(inside[0].node["args"][0], r"list_matcher::ListDefinition::new_matcher$"))) == 1 and \
                                not [b2 for b2 in exprs(ls.node, ("Break", "Continue")) if not b2.get("x")]:
                            ok = True
        R.check(ok, rule, fn, "one matcher per registered list, in registration order",
                "expected scheme.lists().map(|l| l.definition().new_matcher()).collect()", h["span"])
    # accessors index by list.index()
    n = 0
    for hb in E.hir_list:
        if "body" not in hb:
            continue
        p = norm(hb["path"])
        if "execution_context" not in p:
            continue
        for ix in exprs(hb["body"], "Index"):
            base = strip(ix["e"])
            bt = norm(base.get("ty", "") + " " + base.get("aty", ""))
            is_lm = (base.get("k") == "Field" and base.get("name") == "list_matchers") or \
                    ("[alloc::boxed::Box<dyn list_matcher::ListMatcher" in bt)
            if not is_lm:
                continue
            n += 1
            idx = strip(ix["idx"])
            good = idx.get("k") == "MethodCall" and idx["m"] == "index" and \
                norm(idx.get("callee", "")) in ("scheme::ListRef::index", "scheme::List::index")
            R.check(good, rule, p, "matcher table indexed by list.index()", where=ix["sp"])
    R.floor(rule, "list_matchers[...] index sites", n, 8)
    # the compiled comparison
    cm = E.hirs(r"\w+::InList as ast::index_expr::Compare<U>>::compare$")
    if len(cm) != 1:
        R.cannot(rule, "InList::compare", "anchor not found")
    else:
        b = cm[0]["body"]
        mv = list(calls(b, r"list_matcher::ListMatcher::match_value$"))
        good = False
        if len(mv) == 1:
            c = mv[0]
            recv = deref(c["recv"])
            a0, a1 = deref(c["args"][0]), c["args"][1]
            r0, ch0 = chain(a0)
            good = (recv.get("k") == "MethodCall" and recv["m"] in ("get_list_matcher_unchecked", "get_list_matcher")
                    and is_param(recv["recv"], cm[0], 2)
                    and root_is_field(recv["args"][0], "self", "list")
                    and root_is_field(a0, "self", "name") and [x["m"] for x in ch0] == ["as_str"]
                    and is_param(a1, cm[0], 1))
        R.check(good, rule, norm(cm[0]["path"]), "calls ctx's matcher for self.list with (self.name, value)",
                where=cm[0]["span"])
    # the parser takes the list from the scheme by the lhs type and the name from ListName::lex
    fn = "ast::field_expr::ComparisonExpr::lex_with_lhs"
    h = E.hir(fn)
    if not h:
        return R.cannot(rule, fn, "anchor not found")
    S = sem.Sem(E, h)
    lits = [x for x in S.sites() if x.node.get("k") == "Struct" and norm(x.node["res"].get("path", "")).endswith("ComparisonOpExpr::InList")]
    R.floor(rule, "InList constructions in the parser", len(lits), 1)
    gl = [x for x in S.sites() if x.node.get("k") in ("Call", "MethodCall") and norm(x.node.get("callee", "")) == "scheme::Scheme::get_list"]
    ok_gl = len(gl) == 1
    if ok_gl:
        recv = sem.is_method(S.resolve(call_args(gl[0].node)[-1], gl[0].frame).node, "get_type")
        ok_gl = recv is not None and sem.provenance(S, recv, gl[0].frame)[0] is not None and \
            sem.provenance(S, recv, gl[0].frame)[0].kind == "param"
    R.check(ok_gl, rule, fn, "list looked up by the left-hand side type", where=h["span"])
    for x in lits:
        fl = {f["name"]: f["e"] for f in x.node["fields"]}
        found = False
        for a_, pol in sem.literals(x.pc)[0]:
            if a_.kind == "ok" and pol and gl:
                root, ch = chain(a_.node)
                if ch and ch[0] is gl[0].node and [c["m"] for c in ch[1:]] in (["ok_or"], ["ok_or_else"]):
                    found = True
            if a_.kind == "is" and pol and gl and len(a_.scruts) == 1 and {sem.variant_head(y[0]) for y in a_.alts} == {"Option::Some"} and \
                    S.resolve(a_.scruts[0].node, a_.scruts[0].frame).node is gl[0].node:
                found = True
        R.check(found, rule, fn, "no list registered for the type -> parse error", where=x.node["sp"])
        lexes = [y.node for y in S.sites() if y.node.get("k") == "Call" and norm(y.node.get("callee", "")).endswith("Lex::lex") and
                 "ListName" in norm(y.node.get("ty", ""))]
        good = bool(gl) and "list" in fl and "name" in fl and sem.passes_through(S, fl["list"], x.frame, gl[0].node) and \
            any(sem.passes_through(S, fl["name"], x.frame, l_) for l_ in lexes)
        R.check(good, rule, fn, "InList node holds the looked-up list and the lexed name", where=x.node["sp"])
    # every other InList construction site
    covered = {fn} | {p_ for p_, _ in S.inlined}
    for hb in E.hir_list:
        if "body" not in hb or norm(hb["path"]) in covered:
            continue
        for s_ in exprs(hb["body"], "Struct"):
            if norm(s_["res"].get("path", "")).endswith("ComparisonOpExpr::InList") and not s_.get("x"):
                R.violation(rule, norm(hb["path"]), "InList constructed outside the parser", where=s_["sp"])


def run(F, R, tier):
    E = F.engine
    const_return(E, R, ALWAYS, True)
    const_return(E, R, NEVER, False)
    rule_alpha(E, R)
    rule_order(E, R)
    common.rule_default(E, R, only={"InList"})
    common.rule_clear(E, R)
    common.rule_keys(E, R)
    R.not_decided += ["answers of user-supplied ListMatcher implementations",
                      "serialized payload of a matcher (user type); round-trip equality of matcher state"]
    R.assumptions += ["dyn ListMatcher calls are closed over the two built-in matchers only"]
