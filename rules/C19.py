"""C19 — the panic catcher returns results or panic text and never leaks state."""
from lib import *
import sem

LEVEL = "other"
EXPLANATION = ("Path and who-may-write rules over engine/src/panic.rs: in catch_panic the nesting level is "
               "decremented exactly once, unconditionally, after catch_unwind returned and before its result is "
               "inspected, iff start_catching() incremented it; when catching is disabled f is called directly; the "
               "level/enabled cells have no other writer and abort on overflow; all catcher state is thread-local "
               "except the hook-installed flag; the hook records iff the thread's level is > 0, otherwise forwards "
               "to the previously installed hook (captured before installation) or aborts per the fallback mode; the "
               "recorded text contains the panic payload. The install race on the flag and the backtrace text are "
               "not decided.")

P = "panic::"
CATCH = P + "catch_panic"
START = P + "panic_catcher_start_catching"
STOP = P + "panic_catcher_stop_catching"


def _tls_with(n, key_suffix):
    """LocalKey::with / with_borrow* calls on the thread-local named *key_suffix inside n"""
    out = []
    for c in exprs(n, "MethodCall"):
        if c["m"] in ("with", "with_borrow", "with_borrow_mut", "set", "get", "replace", "take") and \
                (def_path(c["recv"]) or "").endswith(key_suffix) and "LocalKey" in norm(c.get("callee", "")):
            out.append(c)
    return out


def _cell_writes(clo):
    return [c for c in exprs(clo["body"], "MethodCall") if c["m"] in ("set", "replace", "swap", "take", "update") and
            "core::cell::Cell" in norm(c.get("callee", ""))]


def _call_lit(pc, pred):
    """polarity of the certain bool-call literal of the path condition whose call node satisfies pred (None if absent)"""
    for a, pol in sem.literals(pc)[0]:
        if a.kind == "call" and a.node is not None and pred(strip(a.node)):
            return pol
    return None


def rule_pair(E, R):
    rule = "R19-pair"
    h = E.hir(CATCH)
    if not h:
        return R.cannot(rule, CATCH, "anchor not found")
    S = sem.Sem(E, h, inline=False)
    sites = S.sites()
    is_start = lambda n: n.get("k") == "Call" and norm(n.get("callee", "")) == START
    started = lambda x: _call_lit(x.pc, is_start)
    starts = [x for x in sites if is_start(x.node)]
    R.check(len(starts) == 1 and not starts[0].pc, rule, CATCH, "catch_panic branches on start_catching()",
            "start_catching() must be called exactly once, unconditionally", h["span"])
    cu = [x for x in sites if x.node.get("k") == "Call" and norm(x.node.get("callee", "")) == "std::panic::catch_unwind"]
    stops = [x for x in sites if x.node.get("k") == "Call" and norm(x.node.get("callee", "")) == STOP]
    R.check(len(cu) == 1 and started(cu[0]) is True, rule, CATCH,
            "the catching branch is taken iff start_catching() returned true", where=h["span"])
    ok_pair = len(cu) == 1 and len(stops) == 1 and stops[0].pc == cu[0].pc and not stops[0].in_loop and not stops[0].in_closure and \
        sites.index(cu[0]) < sites.index(stops[0])
    R.check(ok_pair, rule, CATCH, "stop_catching() runs exactly once, unconditionally, right after catch_unwind returns",
            "%d catch_unwind, %d stop calls; they must be reached under the same conditions, stop after catch_unwind" % (len(cu), len(stops)), h["span"])
    if ok_pair:
        between = sites[sites.index(cu[0]) + 1:sites.index(stops[0])]
        exits = [x for x in between if x.node.get("k") in ("Ret", "Break") or sem.is_try(x.node)]
        R.check(not exits, rule, CATCH, "no exit between catch_unwind and stop_catching", where=h["span"])
        # the outcome is looked at only after the level was restored
        pRes = lambda v: sem.passes_through(S, v.node, v.frame, cu[0].node)
        leaves = S.result_leaves()
        oks = [x for x in leaves if norm(x.node.get("callee", "")) == "core::result::Result::Ok" and started(x) is True]
        errs = [x for x in leaves if norm(x.node.get("callee", "")) == "core::result::Result::Err" and started(x) is True]
        # the same outcome written as `result.map_err(|_| text)`: Ok(value) is kept as it is, Err(payload) is replaced
        mapped = [x for x in leaves if started(x) is True and x.node.get("k") == "MethodCall" and x.node["m"] == "map_err" and
                  norm(x.node.get("callee", "")) == "core::result::Result::map_err" and
                  sem.passes_through(S, x.node["recv"], x.frame, cu[0].node) and
                  sem.provenance(S, x.node["recv"], x.frame)[3] in ([], ["catch_unwind"])]
        if mapped and not oks and not errs:
            oks, errs = mapped, mapped
        after = all(sites.index(x) > sites.index(stops[0]) for x in oks + errs if x in sites)
        R.check(bool(oks) and bool(errs) and after, rule, CATCH, "the outcome of catch_unwind is inspected after the level was restored", where=h["span"])
        good_ok = bool(oks) and (oks is mapped or all(sem.passes_through(S, x.node["args"][0], x.frame, cu[0].node) and
                                                      sem.admits(x.pc, pRes, None) in ({"Result::Ok"},) for x in oks))
        R.check(good_ok, rule, CATCH, "f's value is returned unchanged", where=h["span"])
        good_err = bool(errs) and all(any(norm(c.get("callee", "")) == P + "panic_catcher_get_backtrace" for c in exprs(x.node, "Call")) for x in errs)
        R.check(good_err, rule, CATCH, "a caught panic yields the text recorded by the hook", where=h["span"])
    # f is what catch_unwind runs
    R.check(len(cu) == 1 and is_param(cu[0].node["args"][0], h, 0), rule, CATCH, "catch_unwind runs f itself", where=h["span"])
    # disabled: transparent
    off = [x for x in S.result_leaves() if started(x) is False]
    calls_f = len(off) == 1 and norm(off[0].node.get("callee", "")) == "core::result::Result::Ok" and \
        strip(off[0].node["args"][0]).get("k") == "Call" and is_param(strip(off[0].node["args"][0])["f"], h, 0)
    touches = [x for x in sites if started(x) is False and x.node.get("k") == "Call" and
               norm(x.node.get("callee", "")) in (START, STOP, "std::panic::catch_unwind")]
    R.check(calls_f and not touches, rule, CATCH, "when catching is disabled f runs transparently (no catch_unwind, no level change)", where=h["span"])
    # start increments iff it returns true
    hs = E.hir(START)
    if not hs:
        return R.cannot(rule, START, "anchor not found")
    Ss = sem.Sem(E, hs)
    is_en = lambda n: bool(_tls_with(n, "PANIC_CATCHER_ENABLED"))
    enabled = lambda x: _call_lit(x.pc, is_en)
    incs = [x for x in Ss.sites() if x.node.get("k") == "MethodCall" and x.node in _tls_with(x.node, "PANIC_CATCHER_LEVEL")]
    leaves = Ss.result_leaves()
    trues = [x for x in leaves if is_lit(x.node, True)]
    falses = [x for x in leaves if is_lit(x.node, False)]
    ok = len(incs) == 1 and enabled(incs[0]) is True and not incs[0].in_loop and len(trues) == 1 and len(falses) == 1 and \
        len(leaves) == 2 and enabled(trues[0]) is True and enabled(falses[0]) is False
    R.check(ok, rule, START, "the level is incremented exactly when start_catching() returns true", where=hs["span"])
    # stop decrements whenever it is called (catch_panic calls it exactly when start returned true)
    hp = E.hir(STOP)
    if not hp:
        return R.cannot(rule, STOP, "anchor not found")
    Sp = sem.Sem(E, hp)
    decs = [x for x in Sp.sites() if x.node.get("k") == "MethodCall" and x.node in _tls_with(x.node, "PANIC_CATCHER_LEVEL")]
    ok = len(decs) == 1 and not decs[0].pc_has_conditions() and not decs[0].in_loop and not decs[0].in_closure
    R.check(ok, rule, STOP, "stop_catching() decrements the level unconditionally (every increment is undone)",
            "the level update in stop_catching() must not depend on any condition: catch_panic has already established that "
            "start_catching() incremented it", hp["span"])


def _level_writes(E, fn, key="PANIC_CATCHER_LEVEL"):
    """descriptions of the writes to the thread-local cell that running `fn` performs itself or through private helpers
    of the same file (a closure handed to such a helper is read where it is called)"""
    h = E.hir(fn)
    if not h:
        return None
    S = sem.Sem(E, h)
    out = []
    for x in S.sites():
        c = x.node
        if c.get("k") != "MethodCall" or c not in _tls_with(c, key):
            continue
        if c["m"] in ("set", "replace", "take"):
            out.append(c["m"])
            continue
        clo = _closure_in(c)
        if not clo:
            continue
        for wx in S.sites():
            if wx.frame is x.frame and sem.within(wx, clo) and wx.node in _cell_writes(clo):
                out.append(_write_desc(clo, wx.node, S, wx.frame))
    return out


def rule_level(E, R):
    rule = "R19-level"
    writers = {"LEVEL": {}, "ENABLED": {}}
    for hb in E.hir_list:
        if "body" not in hb or not norm(hb["path"]).startswith(P):
            continue
        fn = norm(hb["path"])
        for key in writers:
            for c in _tls_with(hb["body"], "PANIC_CATCHER_" + key):
                clo = _closure_in(c)
                if c["m"] in ("set", "replace", "take"):
                    writers[key].setdefault(fn, []).append(c["m"])
                elif clo:
                    for w in _cell_writes(clo):
                        writers[key].setdefault(fn, []).append(_write_desc(clo, w))
    # who writes: start and stop, or a private helper that only they call
    callers = callers_by_name(E)
    owners = {}
    for fn in writers["LEVEL"]:
        base = re.sub(r"(::\{closure#\d+\})+$", "", fn)
        seen, todo = set(), [base]
        roots = set()
        while todo:
            f = todo.pop()
            if f in seen:
                continue
            seen.add(f)
            if f in (START, STOP):
                roots.add(f)
                continue
            it = E.item(f)
            cs = {c for c in callers.get(f, ()) if "::tests::" not in c}
            if not cs or it is None or it.get("vis") == "Public":
                roots.add(f)
            todo += list(cs)
        owners[fn] = roots
    who_ok = bool(owners) and all(r <= {START, STOP} for r in owners.values())
    what = {START: _level_writes(E, START), STOP: _level_writes(E, STOP)}
    want_level = {START: ["checked_add(1)|abort"], STOP: ["checked_sub(1)|abort"]}
    R.check(who_ok and what == want_level, rule, "panic::PANIC_CATCHER_LEVEL",
            "level written only by start (+1) and stop (-1), aborting on overflow/underflow",
            "writers %s reached from %s; start/stop perform %s" % (writers["LEVEL"], {k: sorted(v) for k, v in owners.items()}, what))
    want_en = {P + "panic_catcher_enable": ["set(True)"], P + "panic_catcher_disable": ["set(False)"]}
    R.check(writers["ENABLED"] == want_en, rule, "panic::PANIC_CATCHER_ENABLED", "enabled flag written only by enable/disable", str(writers["ENABLED"]))


def _closure_in(call):
    for a in call.get("args", []):
        c = closure_of(a)
        if c:
            return c
    return None


def _write_desc(clo, w, S=None, frame=None):
    """describe a Cell write inside a `with` closure: checked_add(1)|abort / set(lit)"""
    a0 = w["args"][0] if w.get("args") else {}
    v = lit_value(a0)
    if v is not None:
        return "%s(%r)" % (w["m"], v)
    # value bound by `let Some(level) = b.get().checked_add(1) else { abort() }`
    nm = local_name(a0)
    for st in exprs(clo["body"], "SLet"):
        if nm in pat_bindings(st["pat"]) and "init" in st:
            cs = [c for c in exprs(st["init"], "MethodCall") if c["m"] in ("checked_add", "checked_sub", "wrapping_add", "wrapping_sub", "saturating_add", "saturating_sub")]
            plain = [b for b in binops(st["init"]) if b in ("Add", "Sub")]
            els = st.get("els")
            ab = bool(els) and any(norm(c.get("callee", "")) == "std::process::abort" for c in exprs(els, "Call"))
            if not els:
                # the same refutable binding written as `let level = match .. { Some(l) => l, _ => abort() }`
                i0 = strip(st["init"])
                if i0.get("k") == "Match":
                    ab = any(any(norm(c.get("callee", "")) == "std::process::abort" for c in exprs(a_["body"], "Call")) and
                             not any(p_.get("k") == "PBinding" for p_ in walk(a_["pat"])) for a_ in i0["arms"])
            if not cs and S is not None:
                # `update(b.get())` with `update` a closure the caller handed in: the arithmetic is in that closure
                for c in exprs(st["init"], "Call"):
                    b_ = S.lookup(sem.peel(c["f"]), frame) if "f" in c else None
                    cl_ = closure_of(b_.expr) if b_ is not None and b_.kind == "arg" and b_.expr is not None else None
                    if cl_:
                        cs = [m for m in exprs(cl_["body"], "MethodCall") if m["m"] in ("checked_add", "checked_sub", "wrapping_add", "wrapping_sub", "saturating_add", "saturating_sub")]
                        plain = plain or [b2 for b2 in binops(cl_["body"]) if b2 in ("Add", "Sub")]
            if cs:
                return "%s(%s)|%s" % (cs[0]["m"], lit_value(cs[0]["args"][0]), "abort" if ab else "no-abort")
            if plain:
                return "plain %s" % plain
    return "%s(?)" % w["m"]


def rule_tls(E, R):
    rule = "R19-tls"
    keys = ["PANIC_CATCHER_BACKTRACE", "PANIC_CATCHER_LEVEL", "PANIC_CATCHER_FALLBACK_MODE", "PANIC_CATCHER_ENABLED"]
    for k in keys:
        s = [x for x in E.statics if x["path"] == P + k]
        ok = len(s) == 1 and "std::thread::local::LocalKey" in s[0]["ty"] and s[0]["kind"].startswith("Const")
        R.check(ok, rule, P + k, "is a thread_local! (one instance per thread)", s[0]["ty"] if s else "not found")
    glob = [x for x in E.statics if x["kind"].startswith("Static") and x["path"].startswith(P) and not x.get("thread_local")]
    names = sorted(x["path"] for x in glob)
    R.check(names == [P + "PANIC_CATCHER_HOOK_SET"], rule, "panic::<statics>", "the only process-wide static is the hook-installed flag", str(names))


def rule_hook(E, R):
    rule = "R19-hook"
    fn = P + "panic_catcher_set_hook"
    h = E.hir(fn)
    if not h:
        return R.cannot(rule, fn, "anchor not found")
    body = h["body"]
    stmts = body.get("stmts", [])
    take = seth = store = None
    next_name = None
    for i, st in enumerate(stmts):
        for c in exprs(st, "Call", into_closures=False):
            cal = norm(c.get("callee", ""))
            if cal.endswith("::take_hook"):
                take = i
                if st.get("k") == "SLet":
                    next_name = st["pat"].get("name")
            if cal.endswith("::set_hook"):
                seth = i
        for c in exprs(st, "MethodCall", into_closures=False):
            if c["m"] == "store" and (def_path(c["recv"]) or "").endswith("PANIC_CATCHER_HOOK_SET"):
                store = i
    R.check(take is not None and seth is not None and take < seth and next_name, rule, fn,
            "the previously installed hook is taken before the new one is installed", where=h["span"])
    R.check(store is not None and seth is not None and store > seth, rule, fn, "the installed flag is set after installation", where=h["span"])
    # the hook closure
    clo = None
    for c in exprs(body, "Call"):
        if norm(c.get("callee", "")).endswith("::set_hook"):
            for x in exprs_deep(c["args"][0], "Closure"):
                clo = x
                break
    if not clo:
        return R.cannot(rule, fn, "hook closure not found")
    cb = clo["body"]
    S = sem.Sem(E, h, inline=False)
    sites = [x for x in S.sites() if sem.within(x, clo)]
    own = [x for x in S.sites() if x.node is clo]
    base = len(own[0].pc) if own else 0
    # decision table of the hook: (this thread's level test, fallback mode) -> what runs. Read from the path conditions,
    # whether the hook is written as if/return + match, as one match over the pair, or through bound locals.
    is_level = lambda n: bool(_tls_with(n, "PANIC_CATCHER_LEVEL"))
    p_level = lambda v: is_level(S.resolve(v.node, v.frame).node)
    is_mode = lambda v: bool(_tls_with(S.resolve(v.node, v.frame).node, "PANIC_CATCHER_FALLBACK_MODE"))
    UM = sem.enum_universe(E, "panic::PanicCatcherFallbackMode")
    table = lambda x: sem.admitted_tuples(x.pc[base:], [p_level, is_mode], [sem.BOOLS, UM])
    ALL_ON = {("lit:True", m) for m in UM}

    def catching(x):
        t = table(x)
        if t and all(a_ == "lit:True" for a_, _ in t):
            return True
        if t and all(a_ == "lit:False" for a_, _ in t):
            return False
        return None
    # the level test itself: `level > 0` inside the thread-local accessor
    lvs = [x for x in sites if x.node.get("k") == "MethodCall" and x.node in _tls_with(x.node, "PANIC_CATCHER_LEVEL")]
    good = False
    cmpz = []
    if len(lvs) == 1:
        c2 = _closure_in(lvs[0].node)
        cmpz = [b_ for b_ in exprs(c2["body"], "Binary")] if c2 else []
        good = len(cmpz) == 1 and ((cmpz[0]["op"] == "Gt" and lit_value(cmpz[0]["r"]) == 0) or
                                   (cmpz[0]["op"] == "Ne" and lit_value(cmpz[0]["r"]) == 0) or
                                   (cmpz[0]["op"] == "Ge" and lit_value(cmpz[0]["r"]) == 1) or
                                   (cmpz[0]["op"] == "Lt" and lit_value(cmpz[0]["l"]) == 0))
    recs = [x for x in sites if x.node.get("k") == "Call" and _recorder_of(E, x.node) is not None]
    rec_on = [x for x in recs if catching(x) is True]
    rec_if = None
    if not lvs or not rec_on:
        R.violation(rule, fn, "the hook records iff this thread's catch level is > 0", "no recording under a test of the level found", clo["sp"])
    else:
        x = rec_on[0]
        # the level alone decides: no other condition on the way to the recording
        others = []
        for f_, pol in x.pc[base:]:
            lits_, ors_ = sem.literals(((f_, pol),))
            for a_, p_ in lits_ + [l_ for o_ in ors_ for l_ in o_ if isinstance(l_[0], sem.Atom)]:
                if a_.kind in ("call", "local") and a_.node is not None and p_level(sem.Val(a_.node, a_.frame)):
                    continue
                if a_.kind == "is" and all(p_level(v_) or is_mode(v_) for v_ in a_.scruts):
                    continue
                others.append(a_)
            others += [o_ for o_ in ors_ if not all(isinstance(l_[0], sem.Atom) for l_ in o_)]
        others = others or ([] if table(x) == ALL_ON else ["the fallback mode"])
        R.check(not others, rule, fn, "recording depends on the catch level only",
                "the recording is reached under further conditions: a panic raised while the level is > 0 (e.g. after disable() inside the "
                "closure) would not be recorded and catch_panic would return a stale or placeholder message", x.node.get("sp", ""))
        R.check(good, rule, fn, "the hook records iff this thread's catch level is > 0",
                "condition is %s %s" % (cmpz[0]["op"] if cmpz else "?", lit_value(cmpz[0]["r"]) if cmpz else "?"), x.node.get("sp", ""))
        # recorded into this thread's buffer, and nothing else (previous hook, abort) runs while catching
        in_buf = any(any(c_ is cl_ for cl_ in x.in_closure) for t_ in sites if t_.node.get("k") == "MethodCall" and
                     t_.node in _tls_with(t_.node, "PANIC_CATCHER_BACKTRACE") for c_ in [_closure_in(t_.node)] if c_ is not None)
        leak = [y for y in sites if catching(y) is True and y.node.get("k") == "Call" and
                (norm(y.node.get("callee", "")) == "std::process::abort" or
                 (path_res(y.node.get("f", {})) or {}).get("r") == "local")]
        R.check(len(rec_on) == 1 and in_buf and not leak, rule, fn,
                "while catching, the message is recorded into the thread's buffer and the hook returns", where=x.node.get("sp", ""))
        rec_if = {"then": clo["body"]}
    # outside catch_panic the fallback mode decides
    prev = [y for y in sites if y.node.get("k") == "Call" and local_name(y.node.get("f", {})) == next_name and next_name]
    aborts = [y for y in sites if y.node.get("k") == "Call" and norm(y.node.get("callee", "")) == "std::process::abort"]
    if not prev and not aborts:
        R.violation(rule, fn, "outside catch_panic the fallback mode decides", "neither the previous hook nor abort is reached", clo["sp"])
    else:
        ok = len(prev) == 1 and {(a_, last_seg(m_)) for a_, m_ in table(prev[0])} == {("lit:False", "Continue")} and \
            [local_name(a_) for a_ in prev[0].node["args"]] == closure_param_names(clo, 0)[:1]
        R.check(ok, rule, fn, "Continue: the previously installed hook is called with the panic info", where=clo["sp"])
        ok = len(aborts) >= 1 and all({(a_, last_seg(m_)) for a_, m_ in table(y)} == {("lit:False", "Abort")} for y in aborts)
        R.check(ok, rule, fn, "Abort: the process aborts", where=clo["sp"])
    # the message is part of the recorded text
    hrs = {id(_recorder_of(E, c)): _recorder_of(E, c) for c in exprs(cb, "Call") if _recorder_of(E, c) is not None}
    hr = list(hrs.values())[0] if len(hrs) == 1 else None
    if hr:
        rname = norm(hr["path"])
        pay = [s for s in exprs(hr["body"], "SLet") if s["pat"].get("k") == "PBinding" and "init" in s and
               len([c for c in exprs(s["init"], "MethodCall", into_closures=False) if c["m"] == "downcast_ref"]) >= 2]
        dc = [c for c in exprs(pay[0]["init"], "MethodCall") if c["m"] == "downcast_ref"] if pay else []
        pname = pay[0]["pat"]["name"] if pay else None
        writes = [w for w in exprs(hr["body"], "Call") if norm(w.get("callee", "")) in ("core::fmt::write", "alloc::fmt::format")]
        used = any(local_name(p) == pname for w in writes for p in exprs_deep(w, "Path"))
        R.check(len(dc) == 2 and used, rule, rname, "the panic payload (&str or String) is written into the recorded text", where=hr["span"])
        # no stale message: the buffer written into is cleared first (out-parameter), or it is a fresh String that replaces the
        # thread's buffer as a whole
        clr = [c for c in exprs(hr["body"], "MethodCall") if c["m"] == "clear" and any(is_param(c["recv"], hr, i_) for i_ in range(len(hr.get("params", []))))]
        fresh = any(s_["pat"].get("k") == "PBinding" and norm(strip(s_.get("init", {})).get("callee", "")) == "alloc::string::String::new" and
                    local_name(fn_result(hr)) == s_["pat"]["name"] for s_ in exprs(hr["body"], "SLet"))
        replaced = rec_if is not None and any(a_ for a_ in exprs(rec_if["then"], "Assign") if strip(a_["l"]).get("k") == "Unary" and
                                              _recorder_of(E, strip(a_["r"])) is hr)
        R.check(len(clr) == 1 or (fresh and replaced), rule, rname, "the buffer is cleared first (no stale message is kept)", where=hr["span"])
    else:
        R.cannot(rule, P + "record_backtrace", "the function that renders the panic message (payload downcast) was not found")


def _recorder_of(E, c):
    """the local function called by c, if it is the one that renders a panic message (it downcasts the payload)"""
    if c.get("k") != "Call":
        return None
    hh = E.hir_by_dp.get(c.get("resolved_dp") or c.get("callee_dp") or "")
    if hh and "body" in hh and norm(hh["path"]).startswith(P) and \
            len([m for m in exprs(hh["body"], "MethodCall") if m["m"] == "downcast_ref"]) >= 2:
        return hh
    return None


def run(F, R, tier):
    E = F.engine
    rule_pair(E, R)
    rule_level(E, R)
    rule_tls(E, R)
    rule_hook(E, R)
    # the C wrappers delegate
    X = F.ffi
    for name, callee in (("panic::wirefilter_set_panic_catcher_hook", "wirefilter::panic::panic_catcher_set_hook"),
                         ("panic::wirefilter_enable_panic_catcher", "wirefilter::panic::panic_catcher_enable"),
                         ("panic::wirefilter_disable_panic_catcher", "wirefilter::panic::panic_catcher_disable")):
        h = X.hir(name)
        if not h:
            R.cannot("R19-hook", name, "anchor not found")
            continue
        t = fn_result(h)
        R.check(norm(t.get("callee", "")) == callee, "R19-hook", name, "C wrapper delegates to " + last_seg(callee), where=h["span"])
    R.not_decided += ["the check-then-set race on the hook-installed flag (two installs chain hooks; still conforming)",
                      "contents/format of the backtrace text beyond containing the payload",
                      "unwinding behaviour of std::panic::catch_unwind (trusted)"]
