"""C20 — the C API mirrors the Rust API and reports failures via status and last-error."""
from lib import *

LEVEL = "other"
EXPLANATION = ("Static rules over every `extern \"C\"` function of wirefilter-ffi: the status written in each outcome "
               "arm of `match catch_panic(..)` (and in every *::ERROR / *::PANIC constant) equals the documented one; "
               "every return-position expression that yields a failure value is preceded, on its own path, by a "
               "write to the thread-local LAST_ERROR; engine entry points that can run user code are called only "
               "inside the closure given to catch_panic; the NUL-substitution/terminator invariant of the error "
               "string; checked UTF-8 for every &str made from caller memory; each wrapper delegates to the engine "
               "function of the same role. Text equality with the Rust API is not decided.")

STATUS = "Status::"
ENGINE_GUARDED = {
    "wirefilter::scheme::Scheme::parse": "parse", "wirefilter::scheme::Scheme::parse_value": "parse_value",
    "wirefilter::ast::FilterAst::compile": "compile", "wirefilter::filter::Filter::execute": "execute",
    "wirefilter::ast::FilterAst::uses": "uses", "wirefilter::ast::FilterAst::uses_list": "uses_list",
    "wirefilter::ast::FilterValueAst::compile": "compile_value", "wirefilter::filter::FilterValue::execute": "execute_value",
    "wirefilter::ast::parse::FilterParser::parse": "parse", "wirefilter::ast::parse::FilterParser::parse_value": "parse_value",
}


def extern_fns(X):
    return [i for i in X.fns() if i.get("abi", "").startswith("C")]


def status_of(X, e):
    """'Success' | 'Error' | 'Panic' | None for a struct literal / constant path expression"""
    e = strip(e)
    if e.get("k") == "Struct":
        for f in e["fields"]:
            if f["name"] == "status":
                d = def_path(f["e"])
                if d and "Status::" in d:
                    return last_seg(d)
        return None
    d = def_path(e)
    if d:
        h = X.hir(d)
        if h and "body" in h:
            return status_of(X, h["body"])
    return None


def is_last_error_write(n):
    for c in exprs(n, "MethodCall"):
        if c["m"] == "with_borrow_mut" and (def_path(c["recv"]) or "").endswith("LAST_ERROR"):
            # the closure must write something (write_fmt / write_str / push) - not merely clear
            clo = closure_of(c["args"][0])
            if clo and any(m["m"] in ("write_fmt", "write_str", "write_all", "write") for m in exprs(clo["body"], "MethodCall")):
                return True
    return False


def return_leaves(n, pre=()):
    """(leaf expression, statements executed on its own path since the last branch point ...) for every
    return-position expression: tail expressions through blocks/if/match, and explicit `return`s"""
    n0 = n
    k = n.get("k")
    if k == "Block":
        stmts = n.get("stmts", [])
        acc = list(pre)
        for st in stmts:
            # explicit returns nested in statements (incl. let-else, macros)
            yield from _rets_in(st, acc)
            acc = acc + [st]
        if n.get("expr") is not None:
            # `let r = <expr>; ..; r`: the leaves of <expr> (what runs between the let and the end of the block runs on all of them)
            t = strip(n["expr"])
            r = path_res(t) if t.get("k") == "Path" else None
            if r and r.get("r") == "local":
                for i, st in enumerate(stmts):
                    p_ = st.get("pat", {}) if st.get("k") == "SLet" else {}
                    if p_.get("k") == "PBinding" and p_.get("id") == r.get("id") and "init" in st and "els" not in st and \
                            not str(p_.get("mode", "")).rstrip(")").endswith("Mut"):
                        for leaf, pre_ in return_leaves(st["init"], tuple(list(pre) + stmts[:i])):
                            yield leaf, list(pre_) + stmts[i + 1:]
                        return
            yield from return_leaves(n["expr"], tuple(acc))
        return
    if k == "If":
        yield from _rets_in(n["cond"], list(pre))
        yield from return_leaves(n["then"], ())
        if "else" in n:
            yield from return_leaves(n["else"], ())
        return
    if k == "Match":
        yield from _rets_in(n["scrut"], list(pre))
        for a in n["arms"]:
            yield from return_leaves(a["body"], ())
        return
    if k in ("Use", "Type"):
        yield from return_leaves(n["e"], pre)
        return
    yield n0, list(pre)


def _rets_in(st, acc):
    """explicit `return e` inside a statement/expression; path statements = those of the innermost blocks"""
    def go(n, pre):
        k = n.get("k")
        if k == "Closure":
            return
        if k == "Ret":
            if "e" in n:
                for leaf, p in return_leaves(n["e"], tuple(pre)):
                    yield leaf, p
            return
        if k == "SLet" and "els" in n and "init" in n:
            # a return in the `else` of `let P = e else { .. }` happens after e was evaluated (and did not match)
            yield from go(n["init"], pre)
            for leaf, p in go(n["els"], []):
                yield leaf, [{"k": "LetElseOf", "init": n["init"]}] + list(p)
            return
        if k == "Block":
            acc2 = []
            for s in n.get("stmts", []):
                yield from go(s, acc2)
                acc2 = acc2 + [s]
            if n.get("expr") is not None:
                yield from go(n["expr"], acc2)
            return
        for c in children(n):
            yield from go(c, pre)
    yield from go(st, list(acc))


def classify_leaf(X, leaf):
    l = strip(leaf)
    k = l.get("k")
    if k == "Lit" and l["lit"].get("t") == "bool":
        return "failure" if l["lit"]["v"] is False else "success"
    st = status_of(X, l)
    if st:
        return "success" if st == "Success" else "failure"
    if k == "MethodCall" and l["m"] in ("is_ok", "is_some", "is_err", "is_none") and l.get("ty") == "bool":
        return "unreported"
    if k == "MethodCall" and l["m"] == "into":
        return "delegated"
    if k == "Call" and norm(l.get("callee", "")).endswith("::from"):
        return "delegated"
    if l.get("ty") == "!" or (k == "Call" and norm(l.get("callee", "")).startswith("core::panicking")):
        return "diverges"
    if k == "Call" and X.hir(norm(l.get("callee", ""))) is not None:
        return "helper"
    return "other"


def helper_reports(X, npath, depth=0):
    """a local helper whose every failure-valued return path writes the last error (wrapper recognised when all its
    paths perform the action)"""
    h = X.hir(npath)
    if not h or depth > 2:
        return False
    seen_failure = False
    for leaf, pre in return_leaves(h["body"]):
        cls = classify_leaf(X, leaf)
        if cls in ("success", "diverges"):
            continue
        if cls == "failure":
            seen_failure = True
            if not any(is_last_error_write(s) for s in pre):
                return False
        elif cls == "helper":
            if not helper_reports(X, norm(strip(leaf)["callee"]), depth + 1):
                return False
        else:
            return False
    return seen_failure


def _reported_by_helper(X, st, depth=0):
    """the statement is the marker of a `let P = helper(..) else` whose helper (a function of this crate) writes the last error
    on every path on which it answers None / Err: the failure handled in the `else` has already been reported"""
    if st.get("k") != "LetElseOf" or depth > 2:
        return False
    import sem
    c = sem.peel(st["init"])
    if c.get("k") not in ("Call", "MethodCall"):
        return False
    hx = X.hir_by_dp.get(c.get("resolved_dp") or c.get("callee_dp") or "") or X.hir(norm(c.get("callee", "")))
    if not hx or "body" not in hx:
        return False
    seen_failure = False
    for leaf, pre in return_leaves(hx["body"]):
        l = strip(leaf)
        head = sem.ctor_head(l)
        if head in ("Option::Some", "Result::Ok"):
            continue
        if head in ("Option::None", "Result::Err"):
            seen_failure = True
            if not any(is_last_error_write(s_) or _reported_by_helper(X, s_, depth + 1) for s_ in pre):
                return False
            continue
        if l.get("ty") == "!":
            continue
        return False
    return seen_failure


def rule_lasterr(X, R, rule="R20-lasterr"):
    fns = extern_fns(X)
    R.floor(rule, "extern \"C\" functions", len(fns), 30)
    checked = 0
    targets = list(fns)
    # helper conversions producing a status struct (SerializingResult::from)
    for it in X.fns():
        if it.get("trait") == "core::convert::From" and "Result" in it.get("self_ty", "") and it not in targets:
            targets.append(it)
    for it in targets:
        out = it.get("output", "")
        a = X.adt(norm(out))
        has_status = bool(a and any(f["name"] == "status" for f in a["variants"][0]["fields"]))
        if out != "bool" and not has_status:
            continue
        h = X.hir_by_dp.get(it["dp"])
        if not h or "body" not in h:
            continue
        fn = norm(it["path"])
        for leaf, pre in return_leaves(h["body"]):
            cls = classify_leaf(X, leaf)
            if cls in ("success", "diverges"):
                continue
            checked += 1
            where = leaf.get("sp", it["span"])
            if cls == "failure":
                ok = any(is_last_error_write(s) or _reported_by_helper(X, s) for s in pre)
                R.check(ok, rule, fn, "failure value is accompanied by a last-error write",
                        "a path returns a failure value without writing the thread's last-error message", where)
            elif cls == "unreported":
                R.violation(rule, fn, "failure returned without last-error",
                            "the function ends in `.%s()`: when the engine call fails, `false` is returned but no "
                            "last-error message is written" % strip(leaf)["m"], where)
            elif cls == "delegated":
                R.ok(rule, fn, "result converted by a From impl that is checked separately", where=where)
            elif cls == "helper":
                callee = norm(strip(leaf)["callee"])
                R.check(helper_reports(X, callee), rule, fn, "failure value is accompanied by a last-error write",
                        "returns the result of %s, which does not write the last error on every failure path" % callee, where)
            else:
                R.undecided(rule, fn, "return expression of unknown outcome", strip(leaf).get("k", "?"), where)
    R.floor(rule, "failure-capable return expressions", checked, 25)


def rule_status(X, R, rule="R20-status"):
    import sem
    n = 0
    for it in extern_fns(X):
        h = X.hir_by_dp.get(it["dp"])
        if not h or "body" not in h:
            continue
        fn = norm(it["path"])
        S = sem.Sem(X, h)
        cps = [x for x in S.sites() if x.node.get("k") == "Call" and norm(x.node.get("callee", "")) == "wirefilter::panic::catch_panic"]
        for cp in cps:
            nested = "Result<core::result::Result" in norm(cp.node.get("ty", ""))
            on_cp = lambda v, cp=cp: S.resolve(v.node, v.frame).node is cp.node
            seen_cases = set()
            for x in S.sites():
                # a value that carries a Status (struct literal with a status field, or a *::ERROR / *::PANIC constant) ...
                if x.node.get("k") not in ("Struct", "Path"):
                    continue
                got = status_of(X, x.node)
                if got is None:
                    continue
                # ... reached under a known outcome of this catch_panic call
                case = None
                for a_, pol in sem.is_literals(x.pc):
                    if not pol or len(a_.scruts) != 1 or not on_cp(a_.scruts[0]):
                        continue
                    alts = {y[0] for y in a_.alts}
                    if all(y.startswith("Result::Err") for y in alts):
                        case = "Panic"
                    elif nested and all(y.startswith("Result::Ok(Result::Err") for y in alts):
                        case = "Error"
                    elif all(y.startswith("Result::Ok") for y in alts) and not (nested and any(y == "Result::Ok" for y in alts)):
                        case = "Success"
                if case is None:
                    continue
                seen_cases.add(case)
                R.check(got == case, rule, fn, "catch_panic arm %s -> Status::%s" % (
                    "Err" if case == "Panic" else ("Ok(Err)" if case == "Error" else "Ok"), case),
                    "arm yields Status::%s" % got, x.node.get("sp", ""))
            if seen_cases:
                n += 1
    R.floor(rule, "match catch_panic(..) sites in extern functions", n, 5)
    # named constants
    k = 0
    for hh in X.hir_list:
        if "body" not in hh or not hh["kind"].startswith("AssocConst"):
            continue
        name = last_seg(norm(hh["path"]))
        want = {"PANIC": "Panic", "ERROR": "Error"}.get(name)
        if not want:
            continue
        got = status_of(X, hh["body"])
        if got is None:
            continue
        k += 1
        R.check(got == want, rule, norm(hh["path"]), "constant carries Status::%s" % want,
                "the constant named %s carries Status::%s" % (name, got), hh["span"])
    R.floor(rule, "*::ERROR / *::PANIC constants", k, 4)


def rule_catch(X, R, rule="R20-catch"):
    n = 0
    for it in extern_fns(X):
        h = X.hir_by_dp.get(it["dp"])
        if not h or "body" not in h:
            continue
        fn = norm(it["path"])
        # closures that are (inside) an argument of catch_panic
        guarded = set()
        import sem
        Sx = sem.Sem(X, h, inline=False)
        for xs in Sx.sites():
            c = xs.node
            if c.get("k") == "Call" and norm(c.get("callee", "")) == "wirefilter::panic::catch_panic":
                # the closure may be written in place or bound to a local first
                arg = Sx.resolve(c["args"][0], xs.frame).node
                for x in exprs(arg, ("Call", "MethodCall")):
                    guarded.add(id(x))
        for c in exprs(h["body"], ("Call", "MethodCall")):
            cal = norm(c.get("resolved") or c.get("callee") or "")
            cal2 = norm(c.get("callee") or "")
            role = ENGINE_GUARDED.get(cal) or ENGINE_GUARDED.get(cal2)
            if not role:
                continue
            n += 1
            R.check(id(c) in guarded, rule, fn, "engine %s() runs inside catch_panic" % role,
                    "a panic raised here (e.g. by a user function) would unwind into the C caller", c["sp"])
    R.floor(rule, "guarded engine entry calls", n, 5)


def rule_nul(X, R, rule="R20-nul"):
    fn = "cstring::CString::append"
    h = X.hir(fn)
    if not h:
        return R.cannot(rule, fn, "anchor not found")
    sub = [s for s in X.statics if s["path"].endswith("SUBSTITUTE_BYTE")]
    R.check(bool(sub) and sub[0].get("value") == 0x1a, rule, "cstring::SUBSTITUTE_BYTE", "substitute byte is 0x1a",
            str(sub[0].get("value") if sub else None))
    body = h["body"]
    stm = body.get("stmts", [])
    # shape: pop terminator; len; extend; new_len; replace zeros in [len..new_len]; push 0
    calls_ = [(c["m"], c) for c in exprs(body, "MethodCall", into_closures=False)]
    names = [m for m, _ in calls_]
    R.check("extend" in names or "extend_from_slice" in names, rule, fn, "appended bytes are copied", where=h["span"])
    # the replacement: an assignment of SUBSTITUTE_BYTE to an element of self.0[len..new_len] under `elem == 0`,
    # whether the elements are visited by for_each or by a for loop
    import sem
    S = sem.Sem(X, h, inline=False)
    rep = False
    rng_ok = False
    for x in S.sites():
        a_ = x.node
        if a_.get("k") != "Assign" or not (def_path(a_["r"]) or "").endswith("SUBSTITUTE_BYTE"):
            continue
        tgt = sem.root_local(S, a_["l"], x.frame)
        zero = False
        for op, l, r, fr, certain in sem.weak_cmps(x.pc):
            if certain and op == "Eq" and ((lit_value(r) == 0 and sem.root_local(S, l, fr) is tgt) or
                                           (lit_value(l) == 0 and sem.root_local(S, r, fr) is tgt)):
                zero = True
        lits, ors = sem.literals(x.pc)
        extra = list(ors)
        for atom, pol in lits:
            if atom.kind == "cmp" and atom.op in ("Eq", "Ne") and (lit_value(atom.r.node) == 0 or lit_value(atom.l.node) == 0):
                continue
            if atom.kind == "is" and len(atom.scruts) == 1 and sem.is_method(atom.scruts[0].node, "next") is not None:
                continue        # for-loop bookkeeping
            extra.append(atom)
        rep = zero and tgt is not None and not extra
        # where the element comes from: an order-preserving walk over an index range of self.0
        if tgt is not None:
            b_, root_, fr_, ms = sem.provenance(S, a_["l"], x.frame)
            src = tgt.expr
            idx = [i_ for i_ in exprs_deep(src, "Index")] if src is not None else []
            # loop variable: the iterated expression holds the slice
            if not idx:
                for ls, pat, it in sem.for_loops(S):
                    if any(q.get("k") == "PBinding" and ls.frame.binds.get(q["id"]) is tgt for q in walk(pat or {})):
                        idx = [i_ for i_ in exprs_deep(it, "Index")]
            if idx:
                rng = strip(idx[0]["idx"])
                fl = {f["name"]: local_name(f["e"]) for f in rng.get("fields", [])} if rng.get("k") == "Struct" else {}
                # start = the length before extend(buf), end = the length after it
                ext = [i_ for i_, s_ in enumerate(stm) if any(y["m"] in ("extend", "extend_from_slice") for y in exprs(s_, "MethodCall"))]

                def len_let(nm_):
                    return [i_ for i_, s_ in enumerate(stm) if s_.get("k") == "SLet" and s_["pat"].get("name") == nm_ and
                            strip(s_.get("init", {})).get("m") == "len"]
                a0, b0 = len_let(fl.get("start")), len_let(fl.get("end"))
                rng_ok = bool(ext and a0 and b0) and a0[0] < ext[0] < b0[0] and \
                    chain_verdict([{"m": m_} for m_ in ms if not m_.startswith(".")], terminal_ok=("for_each",)) == "ok"
    # the same guarantee obtained while copying: `self.0.extend(buf.iter().map(|&b| if b == 0 { SUBSTITUTE } else { b }))` -
    # every appended byte goes through a closure that answers the substitute for NUL and the byte itself otherwise
    if not rep:
        for x in S.sites():
            c_ = x.node
            if not (c_.get("k") == "MethodCall" and c_["m"] in ("extend", "extend_from_slice") and c_.get("args") and
                    sem.param_index(S, c_["recv"], x.frame, through_mut=True) == 0):
                continue
            root_, ch_ = chain(c_["args"][0])
            maps = [m_ for m_ in ch_ if m_["m"] == "map" and m_.get("args") and closure_of(m_["args"][0])]
            if len(maps) != 1 or sem.param_index(S, root_, x.frame) != 1 or \
                    chain_verdict([m_ for m_ in ch_], terminal_ok=()) != "ok":
                continue
            clo_ = closure_of(maps[0]["args"][0])
            leaves_ = S.closure_leaves(clo_)
            subs = [l_ for l_ in leaves_ if (def_path(l_.node) or "").endswith("SUBSTITUTE_BYTE")]
            keeps = [l_ for l_ in leaves_ if l_ not in subs]

            def zero_pol(l_):
                for op, l, r, fr, certain in sem.weak_cmps(l_.pc):
                    if certain and op in ("Eq", "Ne") and 0 in (lit_value(l), lit_value(r)):
                        return op == "Eq"
                return None
            pb_ = [q for q in walk({"k": "x", "params": clo_["params"]}) if q.get("k") == "PBinding"]
            same_byte = all(sem.peel(l_.node).get("k") == "Path" and pb_ and S.lookup(sem.peel(l_.node), l_.frame) is l_.frame.binds.get(pb_[0]["id"])
                            for l_ in keeps)
            if len(subs) == 1 and len(keeps) == 1 and zero_pol(subs[0]) is True and zero_pol(keeps[0]) is False and same_byte:
                rep = True
                rng_ok = True      # nothing else is appended: the substituted bytes are exactly the appended ones
    R.check(rep, rule, fn, "every NUL byte of the appended range is replaced by the substitute byte", where=h["span"])
    R.check(rng_ok, rule, fn, "the replaced range is exactly the appended bytes [len..new_len]", where=h["span"])
    # terminator pushed last
    last = stm[-1] if stm else {}
    t = strip(last.get("e", body.get("expr", {})) if last else body.get("expr", {}))
    if body.get("expr") is not None:
        t = strip(body["expr"])
    ok = t.get("k") == "MethodCall" and t["m"] == "push" and lit_value(t["args"][0]) == 0
    R.check(ok, rule, fn, "the string is NUL-terminated as the last step", where=h["span"])
    # len measured after removing the old terminator and before extending
    order = [m for m in names if m in ("pop", "len", "extend", "extend_from_slice", "push")]
    ext_at = order.index("extend") if "extend" in order else (order.index("extend_from_slice") if "extend_from_slice" in order else None)
    # (when the bytes are substituted while they are copied there is no start offset to take)
    R.check(order[:1] == ["pop"] and ext_at is not None and ("len" not in order or order.index("len") < ext_at),
            rule, fn, "old terminator removed first; start offset taken before extending", str(order), h["span"])
    # the two Write impls append
    for w in ("<cstring::CString as std::io::Write>::write", "<cstring::CString as core::fmt::Write>::write_str"):
        hw = X.hir(w)
        if not hw:
            R.cannot(rule, w, "anchor not found")
            continue
        ap = list(calls(hw["body"], r"^cstring::CString::append$"))
        R.check(len(ap) == 1, rule, w, "writes go through append()", where=hw["span"])
    # as_c_str: null for the empty string
    ha = X.hir("cstring::CString::as_c_str")
    if ha:
        Sa = sem.Sem(X, ha)

        def empty_pol(x):
            for a_, pol in sem.literals(x.pc)[0]:
                n_ = sem.peel(a_.node) if a_.kind == "call" and a_.node is not None else {}
                if n_.get("k") == "MethodCall" and n_["m"] == "is_empty" and sem.param_index(Sa, n_["recv"], a_.frame) == 0:
                    return pol
            return None
        leaves = Sa.result_leaves()
        nulls = [x for x in leaves if any(norm(c.get("callee", "")).endswith("ptr::null") for c in exprs(x.node, "Call"))]
        ptrs = [x for x in leaves if any(c["m"] == "as_ptr" for c in exprs(x.node, "MethodCall"))]
        ok = len(leaves) == 2 and len(nulls) == 1 and len(ptrs) == 1 and empty_pol(nulls[0]) is True and empty_pol(ptrs[0]) is False
        R.check(ok, rule, "cstring::CString::as_c_str", "empty string -> NULL pointer", where=ha["span"])
    # writers of the byte vector inside the module
    MUT = {"pop", "push", "extend", "extend_from_slice", "clear", "iter_mut", "insert", "remove", "truncate", "resize",
           "append", "drain", "retain", "as_mut_slice", "as_mut_ptr", "swap", "set_len"}
    writers = set()
    for hh in X.hir_list:
        if "body" not in hh:
            continue
        for c in exprs(hh["body"], "MethodCall"):
            if c["m"] in MUT:
                for f in exprs(c["recv"], "Field"):
                    if f["name"] == "0" and "cstring::CString" in norm(f["e"].get("ty", "")):
                        writers.add(norm(hh["path"]))
        for a in exprs(hh["body"], ("Assign", "AssignOp")):
            for f in exprs(a["l"], "Field"):
                if f["name"] == "0" and "cstring::CString" in norm(f["e"].get("ty", "")):
                    writers.add(norm(hh["path"]))
    allowed = {"cstring::CString::append", "cstring::CString::clear"}
    R.check(writers <= allowed and "cstring::CString::append" in writers, rule, "cstring::CString.0",
            "byte vector mutated only by append()/clear()", "writers: %s" % sorted(writers))


def rule_utf8(X, R, rule="R20-utf8", floor=10):
    bad = 0
    good = 0
    for hh in X.hir_list:
        if "body" not in hh:
            continue
        fn = norm(hh["path"])
        for c in exprs(hh["body"], ("Call", "MethodCall")):
            cal = norm(c.get("callee", ""))
            if cal.endswith("from_utf8_unchecked") or cal.endswith("from_utf8_unchecked_mut") or \
                    (cal.endswith("intrinsics::transmute") and "str" in norm(c.get("ty", ""))):
                bad += 1
                R.violation(rule, fn, "unchecked conversion to str", cal, c["sp"])
            elif cal == "core::str::converts::from_utf8":
                good += 1
                R.ok(rule, fn, "checked from_utf8 on caller memory", where=c["sp"])
    R.floor(rule, "checked from_utf8 conversions", good, floor)
    return bad


def rule_tls(X, R, rule="R20-tls"):
    le = [s for s in X.statics if s["path"].endswith("LAST_ERROR")]
    ok = bool(le) and "std::thread::local::LocalKey" in le[0]["ty"] and "cstring::CString" in le[0]["ty"]
    R.check(ok, rule, "LAST_ERROR", "last-error storage is a thread_local! (LocalKey<RefCell<CString>>)",
            le[0]["ty"] if le else "not found")
    # no process-wide mutable static
    for s in X.statics:
        if s["kind"].startswith("Static") and not s.get("thread_local"):
            R.violation(rule, s["path"], "process-wide static in the C API crate", s["ty"], s["span"])


DELEGATES = {
    "wirefilter_parse_filter": r"wirefilter::scheme::Scheme::parse$",
    "wirefilter_compile_filter": r"wirefilter::ast::FilterAst::compile$",
    "wirefilter_match": r"wirefilter::filter::Filter::execute$",
    "wirefilter_filter_uses": r"wirefilter::ast::FilterAst::uses$",
    "wirefilter_filter_uses_list": r"wirefilter::ast::FilterAst::uses_list$",
    "wirefilter_serialize_filter_to_json": r"serde_json::ser::to_string$",
    "wirefilter_serialize_scheme_to_json": r"serde_json::ser::to_string$",
    "wirefilter_serialize_type_to_json": r"serde_json::ser::to_string$",
    "wirefilter_serialize_execution_context_to_json": r"serde_json::ser::to_string$",
    "wirefilter_get_filter_hash": r"serde_json::ser::to_writer$",
    "wirefilter_deserialize_json_to_execution_context": r"DeserializeSeed::deserialize$",
    "wirefilter_add_json_value_to_execution_context": r"ExecutionContext::set_field_value_from_name$",
    "wirefilter_add_int_value_to_execution_context": r"ExecutionContext::set_field_value_from_name$",
    "wirefilter_add_bytes_value_to_execution_context": r"ExecutionContext::set_field_value_from_name$",
    "wirefilter_add_ipv6_value_to_execution_context": r"ExecutionContext::set_field_value_from_name$",
    "wirefilter_add_ipv4_value_to_execution_context": r"ExecutionContext::set_field_value_from_name$",
    "wirefilter_add_bool_value_to_execution_context": r"ExecutionContext::set_field_value_from_name$",
    "wirefilter_add_type_field_to_scheme": r"SchemeBuilder::add_field$",
    "wirefilter_add_always_list_to_scheme": r"SchemeBuilder::add_list$",
    "wirefilter_add_never_list_to_scheme": r"SchemeBuilder::add_list$",
    "wirefilter_build_scheme": r"SchemeBuilder::build$",
    "wirefilter_create_execution_context": r"ExecutionContext::new$",
}


def rule_delegate(X, R, rule="R20-delegate"):
    for name, rx in DELEGATES.items():
        h = X.hir(name)
        if not h:
            R.cannot(rule, name, "extern function not found")
            continue
        cs = list(calls(h["body"], rx))
        if not cs:
            # the engine call may sit in a private helper of the same file
            import sem
            Sd = sem.Sem(X, h)
            rx_ = re.compile(rx)
            cs = [x.node for x in Sd.sites() if x.node.get("k") in ("Call", "MethodCall") and x.frame is not Sd.root and
                  any(c_ and rx_.search(norm(c_)) for c_ in (x.node.get("callee"), x.node.get("resolved")))]
        R.check(len(cs) == 1, rule, name, "delegates to the engine call of the same role exactly once",
                "found %d calls matching %s" % (len(cs), rx), h["span"])
        if len(cs) != 1:
            continue
        c = cs[0]
        # value setters pass their own `name` and `value`
        if name.endswith("_value_to_execution_context"):
            args = call_args(c)
            nm = local_name(args[1])
            val = [local_name(chain(x)[0]) for x in exprs(args[2], "Path")]
            # the name is the text built from this function's name pointer/length pair, the value derives from its last parameter
            nparams = len(h.get("params", []))
            nm_init = let_init(h["body"], nm) if nm else None
            nm_ok = nm_init is not None and any(is_param(p_, h, 1) for p_ in exprs(nm_init, "Path")) and any(is_param(p_, h, 2) for p_ in exprs(nm_init, "Path"))
            tail_params = {param_name(h, i_) for i_ in range(3, nparams)}

            def from_value(n_, depth=0):
                n_ = local_name(n_) if isinstance(n_, dict) else n_
                if n_ in tail_params:
                    return True
                ini_ = let_init(h["body"], n_) if n_ and depth < 4 else None
                if ini_ is None and n_ and depth < 4:
                    # bound by a refutable pattern: `let Some(value) = helper(.., json) else { return false };`
                    cands_ = [st_["init"] for st_ in exprs(h["body"], "SLet") if "init" in st_ and n_ in pat_bindings(st_["pat"])]
                    ini_ = cands_[0] if len(cands_) == 1 else None
                return ini_ is not None and any(from_value(p_, depth + 1) for p_ in exprs(ini_, "Path") if local_name(p_))
            R.check(nm_ok and any(from_value(v_) for v_ in val if v_), rule, name, "passes its own name and value on", "(%s, %s)" % (nm, val), c["sp"])
    # the list constructors use the matching built-in definition
    for name, ty in (("wirefilter_add_always_list_to_scheme", "AlwaysList"), ("wirefilter_add_never_list_to_scheme", "NeverList")):
        h = X.hir(name)
        if h:
            st = [s for s in exprs(h["body"], "Struct") if norm(s["res"].get("path", "")).endswith("::" + ty)]
            R.check(len(st) == 1, rule, name, "registers %s" % ty, where=h["span"])


def run(F, R, tier):
    X = F.ffi
    rule_status(X, R)
    rule_lasterr(X, R)
    rule_catch(X, R)
    rule_nul(X, R)
    rule_utf8(X, R)
    rule_tls(X, R)
    rule_delegate(X, R)
    R.analysed["extern_c_functions"] = len(extern_fns(X))
    R.not_decided += ["equality of error text / JSON with the Rust API (delegation only)",
                      "behaviour on invalid pointers or lengths supplied by the C caller",
                      "CPrimitiveType::try_from(..).unwrap() on an invalid primitive code (caller contract)",
                      "ffi/include/wirefilter.h is generated by cbindgen from these signatures (build script)"]
