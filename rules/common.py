"""Rules shared by several properties."""
from lib import *

CMP_COMPILE = "<ast::field_expr::ComparisonExpr as ast::Expr>::compile_with_compiler"

# which ComparisonOpExpr arms a property cares about for R01-default
ALL_ARMS = None


def compile_with_sites(E):
    """(call node, arm stack) for every IndexExpr::compile_with / compile_vec_with call in ComparisonExpr's compile"""
    h = E.hir(CMP_COMPILE)
    if not h:
        return None, []
    out = []
    import sem
    for n, st in sem.sem_walk(E, h):
        if n.get("k") in ("Call", "MethodCall"):
            c = norm(n.get("callee", ""))
            if c in ("ast::index_expr::IndexExpr::compile_with", "ast::index_expr::IndexExpr::compile_vec_with",
                     "ast::index_expr::IndexExpr::compile_one_with", "ast::index_expr::IndexExpr::compile_iter_with"):
                out.append((n, st))
    return h, out


def _default_follows_op(body, d, nil_local):
    """d is `if op == NotEqual { nil } else { false }` / the equivalent match, or a local bound to such an expression"""
    e = strip(d)
    nm = local_name(e)
    if nm:
        for st in exprs(body, "SLet"):
            if st["pat"].get("name") == nm and "init" in st:
                return _default_follows_op(body, st["init"], nil_local)
        return False
    if e.get("k") == "If" and "else" in e:
        c = strip(e["cond"])
        if c.get("k") == "Binary" and c["op"] in ("Eq", "Ne"):
            is_ne = last_seg(def_path(c["r"]) or def_path(c["l"]) or "") == "NotEqual"
            t, f = tail(e["then"]), tail(e["else"])
            if c["op"] == "Ne":
                t, f = f, t
            return is_ne and local_name(t) == nil_local and is_lit(f, False)
    if e.get("k") == "Match":
        okn = okf = True
        seen_ne = False
        for a in e["arms"]:
            vs = [last_seg(v) for v in pat_variants(a["pat"])]
            t = tail(a["body"])
            if vs == ["NotEqual"]:
                seen_ne = local_name(t) == nil_local
            else:
                okf = okf and is_lit(t, False)
        return seen_ne and okf
    if e.get("k") == "Binary" and e["op"] == "And":
        # (op == NotEqual) && nil
        sides = [strip(e["l"]), strip(e["r"])]
        has_nil = any(local_name(x) == nil_local for x in sides)
        has_cmp = any(x.get("k") == "Binary" and x["op"] == "Eq" and last_seg(def_path(x["r"]) or def_path(x["l"]) or "") == "NotEqual" for x in sides)
        return has_nil and has_cmp
    return False


def rule_default(E, R, rule="R01-default", only=None, floor=12):
    """absent left-hand side: `default` is literal false everywhere except the `!=` arm, where it is the
    scheme's nil-not-equal behaviour. `only`: set of ComparisonOpExpr variant names to report on."""
    h, sites = compile_with_sites(E)
    if not h:
        return R.cannot(rule, CMP_COMPILE, "anchor not found")
    # the local that holds the scheme setting
    nil_local = None
    for st in exprs(h["body"], "SLet", into_closures=False):
        init = st.get("init")
        if init is not None and list(calls(init, r"scheme::Scheme::nil_not_equal_behavior$")) and st["pat"].get("k") == "PBinding":
            nil_local = st["pat"]["name"]
    n = 0
    for c, st in sites:
        if not norm(c.get("callee", "")).endswith("::compile_with"):
            continue
        outer = arm_variants(st, "ComparisonOpExpr") or ["?"]
        inner = arm_variants(st, "OrderingOp")
        if only is not None and not (set(outer) & only):
            continue
        args = call_args(c)
        if len(args) < 4:
            R.undecided(rule, CMP_COMPILE, "compile_with with %d args" % len(args), where=c["sp"])
            continue
        d = args[2]
        n += 1
        label = "default of %s%s" % ("/".join(outer), ("[" + "/".join(inner) + "]") if inner else "")
        if outer == ["Ordering"] and not inner:
            # one site for all six operators: the default must follow the operator
            good = _default_follows_op(h["body"], d, nil_local)
            R.check(good, rule, CMP_COMPILE, "default of Ordering[all operators] follows the operator",
                    "a site shared by all ordering operators must pass the nil-not-equal setting for `!=` and false otherwise; "
                    "a constant default makes `absent != x` disagree with the scheme's setting", c["sp"])
        elif inner and "NotEqual" in inner:
            good = nil_local is not None and local_name(d) == nil_local and inner == ["NotEqual"]
            R.check(good, rule, CMP_COMPILE, label, "`!=` on an absent value must yield the scheme's nil-not-equal setting "
                    "(local bound from Scheme::nil_not_equal_behavior())", c["sp"])
        else:
            R.check(is_lit(d, False), rule, CMP_COMPILE, label,
                    "a comparison whose left side has no value must be false", c["sp"])
    R.floor(rule, "IndexExpr::compile_with call sites" + (" for " + ",".join(sorted(only)) if only else ""), n,
            floor if only is None else 1)
    # compile_one_with must use `default` on the absent branch of all four closures
    fn = "ast::index_expr::IndexExpr::compile_one_with"
    ho = E.hir(fn)
    if not ho:
        return R.cannot(rule, fn, "anchor not found")
    cl = [c for c in exprs(ho["body"], "Closure") if c.get("ty", "").startswith("{closure") and
          any(True for _ in calls(c["body"], r"Compare.*::compare$|::compare$"))]
    outer = [c for c in exprs(ho["body"], "Call") if norm(c.get("callee", "")) == "filter::CompiledOneExpr::new"]
    import sem

    def bool_param(hx):
        idx = [i for i, p_ in enumerate(hx.get("params", [])) if p_.get("k") == "PBinding" and p_.get("ty") == "bool"]
        return idx[0] if len(idx) == 1 else None
    bidx = bool_param(ho)
    So = sem.Sem(E, ho)
    k = 0
    for c in outer:
        clo = closure_of(c["args"][0])
        if not clo:
            continue
        k += 1
        uses = []
        for m in exprs(clo["body"], "MethodCall"):
            if m["m"] in ("map_or", "unwrap_or") and bidx is not None and is_param(m["args"][0], ho, bidx):
                uses.append(m["m"])
            elif m["m"] in ("map_or", "unwrap_or", "unwrap_or_default", "unwrap_or_else", "map_or_else", "is_some_and", "is_ok_and"):
                uses.append("!" + m["m"])
        # the same fallback written as a match / if-let: the closure's answer on the absent branch is the parameter itself
        for lf in So.closure_leaves(clo):
            if bidx is not None and sem.param_index(So, lf.node, lf.frame) == bidx and sem.peel(lf.node).get("k") == "Path":
                absent = any(a_.kind == "is" and ((pol and all(sem.variant_head(z[0]) in ("Option::None", "Result::Err") for z in a_.alts)) or
                                                  (not pol and all(sem.variant_head(z[0]) in ("Option::Some", "Result::Ok") for z in a_.alts)))
                             for a_, pol in sem.is_literals(lf.pc))
                uses.append("match" if absent else "!unconditional")
            elif is_lit(lf.node, True) or is_lit(lf.node, False):
                uses.append("!constant")
        good = len(uses) == 1 and not uses[0].startswith("!")
        R.check(good, rule, fn, "closure #%d falls back to `default` when the value is absent" % k,
                "found %s" % uses, clo["sp"])
    R.floor(rule, "CompiledOneExpr closures in compile_one_with", k, 4)
    # compile_with routes by map_each_count and passes `default` on
    fw = "ast::index_expr::IndexExpr::compile_with"
    hw = E.hir(fw)
    if hw:
        ones = [c for c in exprs(hw["body"], ("MethodCall", "Call")) if c.get("m") == "compile_one_with" or norm(c.get("callee", "")).endswith("::compile_one_with")]
        wb = bool_param(hw)
        fwd = len(ones) == 1 and wb is not None and bidx is not None and \
            [i_ for i_, a_ in enumerate(call_args(ones[0])) if is_param(a_, hw, wb)] == [bidx]
        R.check(fwd, rule, fw, "compile_with forwards `default` to compile_one_with", where=hw["span"])
    else:
        R.cannot(rule, fw, "anchor not found")


def rule_clear(E, R, rule="R08-clear"):
    import sem
    fn = "execution_context::ExecutionContext::clear"
    h = E.hir(fn)
    if not h:
        return R.cannot(rule, fn, "anchor not found")
    S = sem.Sem(E, h)
    vals = lists = False

    def whole_field(node, frame, field):
        b, root, fr, ms = sem.provenance(S, node, frame, fields=True)
        if b is None or b.name != "self":
            return False
        if ms[:1] != ["." + field]:
            return False
        return chain_verdict([{"m": x} for x in ms[1:] if not x.startswith(".")], terminal_ok=("for_each",)) == "ok"
    for s in S.sites():
        n = s.node
        if n.get("k") == "Assign" and def_path(n["r"]) == "core::option::Option::None":
            if whole_field(n["l"], s.frame, "values") and not s.pc_has_conditions():
                vals = True
        if n.get("k") in ("MethodCall", "Call") and norm(n.get("callee", "")) == "list_matcher::ListMatcher::clear":
            if whole_field(call_args(n)[0], s.frame, "list_matchers") and not s.pc_has_conditions():
                lists = True
    R.check(vals, rule, fn, "every value slot is set to None", "expected every element of self.values to be assigned None, unconditionally", h["span"])
    R.check(lists, rule, fn, "every list matcher is cleared", "expected ListMatcher::clear on every element of self.list_matchers, unconditionally", h["span"])


def str_lits(n, E=None, _depth=0):
    """string literals in n; with E also those of the local constants / statics that n refers to"""
    out = [x["lit"]["v"] for x in exprs(n, "Lit") if x["lit"].get("t") == "str"]
    if E is not None and _depth < 4:
        for p in exprs(n, "Path"):
            r = p["res"]
            if r.get("r") == "def" and str(r.get("dk", "")).startswith(("Const", "AssocConst", "Static")):
                for c in E.hir_list:
                    if "body" in c and c["path"] == r.get("path") and c.get("kind", "").startswith(("Const", "AssocConst", "Static")):
                        out += str_lits(c["body"], E, _depth + 1)
    return out


def rule_keys(E, R, rule="R14-keys"):
    """the literal JSON keys agree between the writer and the reader of a context"""
    ser = E.hirs(r"^<execution_context::ExecutionContext<U> as serde_core::ser::Serialize>::serialize$")
    de_ctx = E.hirs(r"ExecutionContextVisitor<U> as serde_core::de::Visitor>::visit_map$")
    de_entry = E.hirs(r"ListMatcherEntryVisitor as serde_core::de::Visitor>::visit_map$")
    if not de_entry:
        # the visitor type may have another name (or be the seed type itself): the hand-written visit_map in this module
        # that names both keys of a list entry
        de_entry = [h_ for h_ in E.hirs(r"^<.*execution_context::.* as serde_core::de::Visitor>::visit_map$")
                    if {"type", "data"} <= set(str_lits(h_["body"], E))]
    if not ser or not de_ctx or not de_entry:
        return R.cannot(rule, "execution_context serde impls", "anchors not found (%d,%d,%d)" % (len(ser), len(de_ctx), len(de_entry)))
    w = set(str_lits(ser[0]["body"], E))
    r = set(str_lits(de_ctx[0]["body"], E))
    R.check("$lists" in w and "$lists" in r, rule, norm(ser[0]["path"]), "`$lists` key written and read",
            "writer literals %s, reader literals %s" % (sorted(w), sorted(x for x in r if x.startswith("$"))), ser[0]["span"])
    # TypedListMatcher keys: the literals its derived Serialize impl passes to serialize_field
    ders = E.hirs(r"TypedListMatcher}::serialize$")
    adts = ders
    names = None
    for d in ders:
        ks = set()
        for c in exprs(d["body"], ("Call", "MethodCall")):
            if norm(c.get("callee", "")).endswith("SerializeStruct::serialize_field"):
                for a_ in call_args(c):
                    v = lit_value(a_)
                    if isinstance(v, str):
                        ks.add(v)
        names = ks if names is None else (names if names == ks else names | ks | {"<writers disagree>"})
    names = names or set()
    rl = set(str_lits(de_entry[0]["body"], E))
    R.check(bool(adts) and names == {"type", "data"} and {"type", "data"} <= rl, rule, norm(de_entry[0]["path"]),
            "list entry keys `type`/`data` agree", "writer fields %s, reader literals %s" % (sorted(names), sorted(rl)),
            de_entry[0]["span"])


# ----------------------------------------------------------------------------------------------
# operator alias tables (C01, C07)

ALIAS_SPEC = {
    "ast::logical_expr::LogicalOp": [("or", "Or"), ("||", "Or"), ("xor", "Xor"), ("^^", "Xor"), ("and", "And"), ("&&", "And")],
    "ast::logical_expr::UnaryOp": [("not", "Not"), ("!", "Not")],
    "ast::logical_expr::QuantifierOp": [("any", "Any"), ("all", "All")],
    "ast::field_expr::OrderingOp": [("eq", "Equal"), ("==", "Equal"), ("ne", "NotEqual"), ("!=", "NotEqual"),
                                    ("ge", "GreaterThanEqual"), (">=", "GreaterThanEqual"), ("le", "LessThanEqual"),
                                    ("<=", "LessThanEqual"), ("gt", "GreaterThan"), (">", "GreaterThan"),
                                    ("lt", "LessThan"), ("<", "LessThan")],
    "ast::field_expr::IntOp": [("&", "BitwiseAnd"), ("bitwise_and", "BitwiseAnd")],
    "ast::field_expr::BytesOp": [("contains", "Contains"), ("~", "Matches"), ("matches", "Matches"),
                                 ("wildcard", "Wildcard"), ("strict wildcard", "StrictWildcard")],
    "ast::field_expr::ComparisonOp": [("in", "In"), ("<ast::field_expr::OrderingOp>", "Ordering"),
                                      ("<ast::field_expr::IntOp>", "Int"), ("<ast::field_expr::BytesOp>", "Bytes")],
}


def alias_table(E, enum):
    """ordered [(literal or <delegate type>, variant)] extracted from the lex_enum!-generated lexer"""
    h = E.hir("<%s as lex::Lex>::lex" % enum)
    if not h:
        return None, None
    out = []
    for st in h["body"].get("stmts", []):
        i = strip(st.get("e", {})) if st.get("k") in ("SExpr", "SSemi") else {}
        if i.get("k") != "If":
            continue
        cond = strip(i["cond"])
        if cond.get("k") != "LetExpr":
            continue
        src = strip(cond["init"])
        key = None
        if src.get("k") == "Call" and norm(src.get("callee", "")) == "lex::expect":
            key = lit_value(src["args"][1])
        elif src.get("k") == "Call" and norm(src.get("callee", "")) == "lex::Lex::lex":
            m = re.search(r"Result<\((.*?), &str\)", norm(src.get("ty", "")))
            key = "<%s>" % (m.group(1) if m else "?")
        if key is None:
            continue
        if pat_variant(cond["pat"]) != "core::result::Result::Ok":
            continue
        var = None
        for r in exprs(i["then"], "Ret"):
            e = strip(r.get("e", {}))
            if e.get("k") == "Call" and norm(e.get("callee", "")) == "core::result::Result::Ok":
                t = strip(e["args"][0])
                if t.get("k") == "Tup":
                    first = strip(t["es"][0])
                    d = def_path(first) or norm(first.get("callee", ""))
                    if d and d.startswith(enum + "::"):
                        var = last_seg(d)
        out.append((key, var))
    return h, out


def rule_alias(E, R, rule="R01-alias"):
    n = 0
    tables = {}
    for enum, want in ALIAS_SPEC.items():
        h, got = alias_table(E, enum)
        fn = "<%s as lex::Lex>::lex" % enum
        if got is None:
            R.cannot(rule, fn, "anchor not found")
            continue
        tables[enum] = got
        n += len(got)
        R.check(sorted(got) == sorted(want), rule, fn, "operator spellings of %s" % last_seg(enum),
                "extracted %s, documented %s" % (got, want), h["span"])
        # no spelling is shadowed by an earlier one that is its proper prefix
        lits = [k for k, _ in got if not k.startswith("<")]
        for i, a in enumerate(lits):
            for b in lits[i + 1:]:
                if b.startswith(a) and b != a:
                    R.violation(rule, fn, "spelling %r shadowed by %r" % (b, a),
                                "`%s` is tested before `%s`, which can therefore never be recognised" % (a, b), h["span"])
    # delegation order in ComparisonOp: a literal of an earlier lexer must not be a proper prefix of a later one
    got = tables.get("ast::field_expr::ComparisonOp") or []
    flat = []
    for k, v in got:
        if k.startswith("<"):
            for kk, vv in tables.get(k[1:-1], []):
                flat.append((kk, v + "::" + str(vv)))
        else:
            flat.append((k, v))
    for i, (a, va) in enumerate(flat):
        for b, vb in flat[i + 1:]:
            if b.startswith(a) and b != a and va.split("::")[0] != vb.split("::")[0]:
                R.violation(rule, "<ast::field_expr::ComparisonOp as lex::Lex>::lex", "spelling %r shadowed by %r" % (b, a),
                            "`%s` (%s) is tried before `%s` (%s)" % (a, va, b, vb))
    if flat:
        R.ok(rule, "<ast::field_expr::ComparisonOp as lex::Lex>::lex", "no spelling shadowed across delegated lexers (%d spellings)" % len(flat))
    R.floor(rule, "operator spellings", n, 33)
    return tables


def sole_result(E, h, pred):
    """Does the function return, on every path and under no condition, one expression satisfying pred(node, Sem, frame)?
    Early returns and alternative branches (a "fast path" answering some inputs differently) make it False.
    Private same-file helpers are followed. Returns (ok, detail)."""
    import sem
    S = sem.Sem(E, h)
    leaves = S.result_leaves()
    if not leaves:
        return False, "no result expression found"
    bad = []
    it = E.item_by_dp.get(h["dp"]) or {}
    # a function returning bool has no `?`: with a single result expression the only other way out is a panic, which
    # is not an answer (`cast_value!`-style matches with an unreachable arm narrow the path but do not answer differently)
    total = it.get("output") == "bool"
    for x in leaves:
        n, fr = sem.tail_value(S, x.node, x.frame)
        if (x.pc_has_conditions() and not (total and len(leaves) == 1)) or x.in_loop or not pred(sem.peel(n), S, fr):
            bad.append(x.node.get("sp", "?"))
    return (not bad and len(leaves) == 1), ("results: %d; not the delegate or conditional: %s" % (len(leaves), bad))
