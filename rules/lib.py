"""Fact access helpers and the rule-result model shared by all property modules."""
import re
from collections import defaultdict


# ----------------------------------------------------------------------------------------------
# results

class Result:
    """One evaluated rule instance."""
    __slots__ = ("rule", "func", "label", "status", "detail", "where", "nontrivial")

    def __init__(self, rule, func, label, status, detail="", where="", nontrivial=True):
        self.rule = rule          # e.g. R03-anyacc
        self.func = func          # def path of the function / item the instance lives in
        self.label = label        # instance label (no line numbers)
        self.status = status      # ok | violation | undecided | cannot-decide
        self.detail = detail
        self.where = where        # file:line (reports only, never part of the key)
        self.nontrivial = nontrivial

    @property
    def key(self):
        return "%s|%s|%s" % (self.rule, self.func, self.label)

    def to_json(self):
        return {"rule": self.rule, "function": self.func, "instance": self.label, "status": self.status,
                "detail": self.detail, "where": self.where}


class Report:
    def __init__(self):
        self.results = []
        self.notes = []
        self.analysed = {}
        self.not_decided = []
        self.assumptions = []

    def ok(self, rule, func, label, detail="", where="", nontrivial=True):
        self.results.append(Result(rule, func, label, "ok", detail, where, nontrivial))

    def violation(self, rule, func, label, detail="", where=""):
        self.results.append(Result(rule, func, label, "violation", detail, where))

    def undecided(self, rule, func, label, detail="", where=""):
        self.results.append(Result(rule, func, label, "undecided", detail, where))

    def cannot(self, rule, what, detail=""):
        """fail closed: anchor missing / count below floor / vacuous rule"""
        self.results.append(Result(rule, what, "cannot-decide", "cannot-decide", detail))

    def check(self, cond, rule, func, label, detail="", where=""):
        if cond:
            self.ok(rule, func, label, detail, where)
        else:
            self.violation(rule, func, label, detail, where)
        return cond

    def floor(self, rule, what, count, floor):
        if count < floor:
            self.cannot(rule, what, "instance count %d below the floor %d counted on the reviewed tree" % (count, floor))
            return False
        return True

    def note(self, s):
        self.notes.append(s)


# ----------------------------------------------------------------------------------------------
# path normalisation

_GEN = re.compile(r"::<[^<>]*(?:<[^<>]*(?:<[^<>]*>[^<>]*)*>[^<>]*)*>")
_LT = re.compile(r"'[a-zA-Z_][a-zA-Z0-9_]*\s*,?\s*")


def _protect_impl(s):
    """`::<impl Tr for Ty>` is a path segment, not a generic argument list: rewrite to `::{impl Tr for Ty}`"""
    out = []
    i = 0
    while True:
        j = s.find("<impl ", i)
        if j < 0:
            out.append(s[i:])
            break
        out.append(s[i:j])
        depth = 0
        k = j
        while k < len(s):
            if s[k] == "<":
                depth += 1
            elif s[k] == ">" and s[k - 1] != "-":
                depth -= 1
                if depth == 0:
                    break
            k += 1
        out.append("{" + s[j + 1:k] + "}")
        i = k + 1
    return "".join(out)


def norm(path):
    """strip `::<...>` generic argument lists and lifetimes: names are matched modulo generics"""
    prev = None
    s = _protect_impl(path)
    while prev != s:
        prev = s
        s = _GEN.sub("", s)
    s = _LT.sub("", s)
    s = s.replace("<>", "").replace("& ", "&").replace("&mut  ", "&mut ")
    return s


# ----------------------------------------------------------------------------------------------
# HIR helpers

CHILD_KEYS = ("f", "args", "recv", "e", "es", "l", "r", "cond", "then", "else", "body", "scrut", "arms", "stmts",
              "expr", "init", "els", "fields", "base", "idx", "guard", "pat", "pats", "sub", "params", "before",
              "mid", "after", "lo", "hi")


def children(n):
    for k in CHILD_KEYS:
        v = n.get(k)
        if v is None:
            continue
        if isinstance(v, dict):
            yield v
        elif isinstance(v, list):
            for x in v:
                if isinstance(x, dict):
                    yield x


def walk(n, into_closures=True):
    """pre-order over every dict node (expressions, statements, arms, patterns, fields)"""
    stack = [n]
    while stack:
        x = stack.pop()
        yield x
        if not into_closures and x.get("k") == "Closure" and x is not n:
            continue
        ch = list(children(x))
        stack.extend(reversed(ch))


def exprs(n, kind=None, into_closures=True):
    for x in walk(n, into_closures):
        k = x.get("k")
        if k is None:
            continue
        if kind is None or k == kind or (isinstance(kind, (tuple, set)) and k in kind):
            yield x


def callee_of(n):
    """resolved callee path of a Call / MethodCall / Binary / Unary / Index node (normalised)"""
    c = n.get("resolved") or n.get("callee")
    return norm(c) if c else None


def calls(n, name_re=None, into_closures=True):
    """Call and MethodCall nodes whose (normalised) declared or resolved callee matches name_re"""
    rx = re.compile(name_re) if isinstance(name_re, str) else name_re
    for x in exprs(n, ("Call", "MethodCall"), into_closures):
        if rx is None:
            yield x
            continue
        for key in ("callee", "resolved"):
            c = x.get(key)
            if c and rx.search(norm(c)):
                yield x
                break


def call_args(n):
    """arguments including the receiver for method calls"""
    if n.get("k") == "MethodCall":
        return [n["recv"]] + n["args"]
    return n.get("args", [])


def strip(n):
    """look through transparent wrappers: blocks with only a tail expr, Use, Type, DropTemps, AddrOf, unary deref"""
    while True:
        k = n.get("k")
        if k == "Block" and not n.get("stmts") and n.get("expr") is not None:
            n = n["expr"]
        elif k in ("Use", "Type"):
            n = n["e"]
        elif k == "AddrOf":
            n = n["e"]
        elif k == "Unary" and n.get("op") == "Deref" and "callee" not in n:
            n = n["e"]
        else:
            return n


def annotate_single_defs(h):
    """SSA-lite: every use of a local that is bound once by an immutable `let x = init;` (no `else`, by-value binding) gets a
    pointer `_init` to that initialiser, so that frame-less helpers (chain, lit_value, closure_of, deref) read `x` as what it
    names. Mutable, pattern-destructured and deferred-initialised locals are left alone."""
    defs = {}
    stack = [h["body"]]
    nodes = []
    while stack:
        x = stack.pop()
        if isinstance(x, dict):
            nodes.append(x)
            stack.extend(v for k_, v in x.items() if k_ != "_init")
        elif isinstance(x, list):
            stack.extend(x)
    for x in nodes:
        if x.get("k") == "SLet" and "init" in x and "els" not in x:
            p = x.get("pat", {})
            if p.get("k") == "PBinding" and not p.get("sub") and p.get("mode", "BindingMode(No, Not)") == "BindingMode(No, Not)":
                defs[p.get("id")] = x["init"]
    if not defs:
        return
    for x in nodes:
        if x.get("k") == "Path":
            r = x.get("res", {})
            if r.get("r") == "local" and r.get("id") in defs and defs[r["id"]] is not x:
                x["_init"] = defs[r["id"]]


def exprs_deep(n, kind=None, into_closures=True, _seen=None, _depth=0):
    """exprs() over an expression *and* over the initialisers of the single-definition locals it mentions (each once): what
    the expression computes, however many names its parts were given. For sub-expressions, not for whole bodies."""
    seen = _seen if _seen is not None else set()
    for x in exprs(n, None, into_closures):
        if id(x) in seen:
            continue
        seen.add(id(x))
        k = x.get("k")
        if kind is None or k == kind or (isinstance(kind, tuple) and k in kind):
            yield x
        if k == "Path" and "_init" in x and _depth < 8:
            yield from exprs_deep(x["_init"], kind, into_closures, seen, _depth + 1)


def deref(n, limit=8):
    """strip(), and read a single-definition local as its initialiser (see annotate_single_defs)"""
    n = strip(n)
    while limit > 0 and n.get("k") == "Path" and "_init" in n:
        n = strip(n["_init"])
        limit -= 1
    return n


# values of local constants whose initialiser is a literal (or simple arithmetic on literals / other such constants):
# filled by Facts(); `lit_value` looks through a path to one of them, so a rule that expects a literal is not upset by
# `const LIMIT: usize = 128;`
CONST_VALUES = {}


def lit_value(n, _depth=0):
    n = deref(n)
    if n.get("k") == "Lit":
        return n["lit"].get("v")
    if n.get("k") == "Unary" and n.get("op") == "Neg":
        v = lit_value(n["e"], _depth + 1)
        if isinstance(v, int):
            return -v
    if n.get("k") == "Path":
        r = n.get("res", {})
        if r.get("r") == "def" and str(r.get("dk", "")).startswith(("Const", "AssocConst")):
            return CONST_VALUES.get(r.get("path"))
    if n.get("k") == "Binary" and _depth < 4 and n.get("op") in ("Mul", "Add", "Sub", "Shl"):
        a, b = lit_value(n["l"], _depth + 1), lit_value(n["r"], _depth + 1)
        if isinstance(a, int) and isinstance(b, int) and not isinstance(a, bool) and not isinstance(b, bool):
            return {"Mul": a * b, "Add": a + b, "Sub": a - b, "Shl": a << b if 0 <= b < 64 else None}[n["op"]]
    if n.get("k") == "Cast" and _depth < 4:
        return lit_value(n["e"], _depth + 1)
    return None


def is_lit(n, v):
    n = strip(n)
    return n.get("k") == "Lit" and n["lit"].get("v") == v and type(n["lit"].get("v")) is type(v)


def path_res(n):
    n = strip(n)
    if n.get("k") == "Path":
        return n["res"]
    return None


def local_name(n):
    r = path_res(n)
    if r and r.get("r") == "local":
        return r["name"]
    return None


def def_path(n):
    r = path_res(n)
    if r and r.get("r") in ("def", "selfctor"):
        return norm(r["path"])
    return None


def pat_variant(p):
    """(enum-or-struct path, variant ctor path) of a pattern that matches one variant; None for wild/binding"""
    k = p.get("k")
    if k in ("PStruct", "PTupleStruct"):
        r = p["res"]
        return norm(r.get("path", "")) if r.get("r") in ("def", "selfctor", "selfty") else None
    if k == "PExpr":
        e = p["e"]
        if e.get("k") == "PEPath":
            r = e["res"]
            return norm(r.get("path", "")) if r.get("r") == "def" else None
    if k in ("PRef", "PBox", "PDeref"):
        return pat_variant(p["pat"])
    if k == "PBinding" and p.get("sub"):
        return pat_variant(p["sub"])
    return None


def pat_variants(p):
    """all variant paths matched by a (possibly or-) pattern; [] when it contains a catch-all"""
    if p.get("k") == "POr":
        out = []
        for q in p["pats"]:
            v = pat_variants(q)
            if not v:
                return []
            out += v
        return out
    v = pat_variant(p)
    return [v] if v else []


def pat_bindings(p):
    return [x["name"] for x in walk(p) if x.get("k") == "PBinding"]


def last_seg(path):
    return path.rsplit("::", 1)[-1] if path else path


def match_arms(n):
    for a in n.get("arms", []):
        yield a


def find_matches(n, scrut_ty_re=None, into_closures=True):
    rx = re.compile(scrut_ty_re) if scrut_ty_re else None
    for m in exprs(n, "Match", into_closures):
        t = m["scrut"].get("ty", "")
        if rx is None or rx.search(t) or rx.search(norm(t)):
            yield m


def binops(n, into_closures=True):
    return [x["op"] for x in exprs(n, "Binary", into_closures)]


# ----------------------------------------------------------------------------------------------
# MIR helpers

class Mir:
    def __init__(self, body):
        self.b = body
        self.path = body["path"]
        self.blocks = body["blocks"]
        self.locals = body["locals"]
        self._succ = None
        self._pred = None
        self._dom_depth = None

    def term(self, bb):
        return self.blocks[bb].get("term", {"k": "None"})

    def succ(self, bb, unwind=False):
        t = self.term(bb)
        k = t["k"]
        out = []
        if k == "Goto":
            out = [t["target"]]
        elif k == "SwitchInt":
            out = [x[1] for x in t["targets"]] + [t["otherwise"]]
        elif k in ("Call", "Drop", "Assert"):
            if "target" in t:
                out = [t["target"]]
            if unwind and isinstance(t.get("unwind"), int):
                out.append(t["unwind"])
        return out

    def preds(self):
        if self._pred is None:
            p = defaultdict(list)
            for i in range(len(self.blocks)):
                for s in self.succ(i, unwind=True):
                    p[s].append(i)
            self._pred = p
        return self._pred

    def dominates(self, a, b):
        """block a dominates block b (reflexive)"""
        x = b
        seen = 0
        while x != -1 and seen < 100000:
            if x == a:
                return True
            x = self.blocks[x]["idom"]
            seen += 1
        return False

    def calls(self, name_re=None):
        rx = re.compile(name_re) if isinstance(name_re, str) else name_re
        for i, bl in enumerate(self.blocks):
            t = bl.get("term")
            if not t or t["k"] not in ("Call", "TailCall"):
                continue
            if rx is None:
                yield i, t
                continue
            for key in ("callee", "resolved", "callee_full"):
                c = t.get(key)
                if c and rx.search(norm(c)):
                    yield i, t
                    break

    def stmts(self):
        for i, bl in enumerate(self.blocks):
            for j, s in enumerate(bl["stmts"]):
                yield i, j, s

    def defs(self, local):
        """(bb, idx|'term', rvalue-or-term) definitions that write the whole local"""
        out = []
        for i, j, s in self.stmts():
            if s["k"] == "Assign" and s["lhs"]["l"] == local and not s["lhs"]["p"]:
                out.append((i, j, s["rv"]))
        for i, bl in enumerate(self.blocks):
            t = bl.get("term")
            if t and t["k"] == "Call" and t["dest"]["l"] == local and not t["dest"]["p"]:
                out.append((i, "term", t))
        return out

    def reachable(self, start, avoid=(), unwind=False):
        seen = set()
        st = [start]
        while st:
            x = st.pop()
            if x in seen or x in avoid:
                continue
            seen.add(x)
            st.extend(self.succ(x, unwind))
        return seen

    def return_blocks(self):
        return [i for i, b in enumerate(self.blocks) if b.get("term", {}).get("k") == "Return"]

    def switch_edge_blocks(self, bb):
        """for a SwitchInt at bb: {value or 'otherwise': target}"""
        t = self.term(bb)
        d = {v: tgt for v, tgt in t["targets"]}
        d["otherwise"] = t["otherwise"]
        return d

    def local_ty(self, l):
        return self.locals[l]["ty"]

    def var_local(self, name):
        for v in self.b.get("vars", []):
            if v["name"] == name and not v["place"]["p"]:
                return v["place"]["l"]
        return None

    def var_names(self, local):
        return [v["name"] for v in self.b.get("vars", []) if v["place"]["l"] == local and not v["place"]["p"]]


def op_local(op):
    """local of a place operand (None for constants)"""
    if op is None or "c" in op:
        return None
    return op.get("l")


def op_const(op):
    if op and "c" in op:
        return op["c"]
    return None


class Flow:
    """flow-insensitive backward slice over whole-local copies/moves/refs/casts/field projections.

    sources(local) -> set of terminal producers: ('call', callee, bb), ('const', disp), ('arg', n),
    ('agg', adt/closure), ('other', kind).  Follows: Use, Ref, CopyForDeref, Cast, Discriminant excluded,
    and `Try::branch`/`from_residual`/`into_iter`/`deref`-style plumbing is left to the caller via `through`.
    """

    def __init__(self, mir, through=None, max_steps=4000):
        self.m = mir
        self.through = re.compile(through) if through else None
        self.max_steps = max_steps
        self._defs = defaultdict(list)
        for i, j, s in mir.stmts():
            if s["k"] == "Assign":
                self._defs[s["lhs"]["l"]].append(("stmt", i, j, s))
        for i, bl in enumerate(mir.blocks):
            t = bl.get("term")
            if t and t["k"] == "Call":
                self._defs[t["dest"]["l"]].append(("call", i, None, t))

    def sources(self, local):
        out = set()
        seen = set()
        st = [local]
        steps = 0
        while st and steps < self.max_steps:
            steps += 1
            l = st.pop()
            if l in seen:
                continue
            seen.add(l)
            if 1 <= l <= self.m.b["arg_count"] and not self._defs.get(l):
                out.add(("arg", l, None))
                continue
            if 1 <= l <= self.m.b["arg_count"]:
                out.add(("arg", l, None))
            for kind, i, j, s in self._defs.get(l, []):
                if kind == "call":
                    cal = norm(s.get("resolved") or s.get("callee") or s.get("indirect", "?"))
                    if self.through and self.through.search(cal):
                        for a in s["args"]:
                            al = op_local(a)
                            if al is not None:
                                st.append(al)
                        continue
                    out.add(("call", cal, i))
                else:
                    rv = s["rv"]
                    k = rv["k"]
                    if k in ("Use", "Cast", "Repeat"):
                        op = rv["op"]
                        if "c" in op:
                            c = op["c"]
                            out.add(("const", c.get("fn") or c.get("def") or c.get("static") or c.get("disp") or str(c.get("v")), i))
                        else:
                            st.append(op["l"])
                    elif k in ("Ref", "CopyForDeref", "RawPtr"):
                        st.append(rv["place"]["l"])
                    elif k == "Aggregate":
                        out.add(("agg", rv.get("adt") or rv.get("closure") or ("tuple" if rv.get("tuple") else "array"), i))
                    elif k == "Discriminant":
                        st.append(rv["place"]["l"])
                    else:
                        out.add(("other", k + ":" + str(rv.get("op", "")), i))
        return out


# ----------------------------------------------------------------------------------------------
# crate facts

class Crate:
    def __init__(self, raw):
        self.raw = raw
        self.name = raw["crate"]
        self.items = raw["items"]
        self.adts = {a["path"]: a for a in raw["adts"]}
        self.impls = raw["impls"]
        self.statics = raw["statics"]
        self.hir_list = raw["hir"]
        self.mir_list = raw["mir"]
        self.hir_by_dp = {h["dp"]: h for h in raw["hir"]}
        self.mir_by_dp = {m["dp"]: m for m in raw["mir"]}
        self.item_by_dp = {i["dp"]: i for i in raw["items"]}
        self._hir_by_norm = defaultdict(list)
        for h in raw["hir"]:
            self._hir_by_norm[norm(h["path"])].append(h)
        self._mir_by_norm = defaultdict(list)
        for m in raw["mir"]:
            self._mir_by_norm[norm(m["path"])].append(m)
        self.mono = raw.get("mono", {"roots": [], "instances": []})

    # -- lookup by normalised path (exact) or regex
    def hir(self, npath):
        """the unique HIR body with this normalised path (None if absent or ambiguous)"""
        l = self._hir_by_norm.get(npath, [])
        l = [h for h in l if "body" in h]
        return l[0] if len(l) == 1 else None

    def hirs(self, rx):
        r = re.compile(rx)
        return [h for h in self.hir_list if "body" in h and r.search(norm(h["path"]))]

    def mir(self, npath):
        l = self._mir_by_norm.get(npath, [])
        return Mir(l[0]) if len(l) == 1 else None

    def mirs(self, rx):
        r = re.compile(rx)
        return [Mir(m) for m in self.mir_list if r.search(norm(m["path"]))]

    def item(self, npath):
        l = [i for i in self.items if norm(i["path"]) == npath]
        return l[0] if len(l) == 1 else None

    def fns(self):
        return [i for i in self.items if i["kind"] in ("Fn", "AssocFn")]

    def impls_of(self, trait_suffix):
        return [i for i in self.impls if i.get("trait", "").endswith(trait_suffix)]

    def adt(self, path):
        return self.adts.get(path)

    def where(self, entry):
        return entry.get("span", "") if entry else ""

    def closures_of(self, dp):
        """MIR bodies of closures (transitively) defined inside the body with unique path dp"""
        pre = dp + "::{closure#"
        return [Mir(m) for m in self.mir_list if m["dp"].startswith(pre)]


class Facts:
    def __init__(self, raw):
        self.engine = Crate(raw["wirefilter"])
        self.ffi = Crate(raw["wirefilter_ffi"])
        self.wasm = Crate(raw["wirefilter_wasm"])
        self.crates = [self.engine, self.ffi, self.wasm]
        for c in self.crates:
            for h in c.hir_list:
                if "body" in h:
                    annotate_single_defs(h)
        CONST_VALUES.clear()
        for _ in range(3):      # constants defined from other constants
            for c in self.crates:
                for h in c.hir_list:
                    if "body" in h and str(h.get("kind", "")).startswith(("Const", "AssocConst")) and h["path"] not in CONST_VALUES:
                        v = lit_value(h["body"])
                        if v is not None:
                            CONST_VALUES[h["path"]] = v


# ----------------------------------------------------------------------------------------------
# iterator-chain helpers

def _deref_call(n, stop=()):
    """strip(); a single-definition local whose initialiser is a method call continues the chain it is part of"""
    n = strip(n)
    if stop and n.get("k") == "Path" and n.get("res", {}).get("name") in stop:
        return n
    d = deref(n)
    return d if d is not n and d.get("k") == "MethodCall" else n


def chain(n, follow=True, stop=()):
    """unroll a method-call chain: returns (root expression, [call nodes innermost-first]). With follow, a receiver that is a
    single-definition local initialised by a method call continues the chain (`let it = v.iter(); it.map(f)` is v.iter().map(f));
    locals named in `stop` are roots even so (for rules that address a local by the role its name was given)"""
    calls_ = []
    step = (lambda x: _deref_call(x, stop)) if follow else strip
    n = step(n)
    while n.get("k") == "MethodCall":
        calls_.append(n)
        n = step(n["recv"])
    # `IntoIterator::into_iter(x)` / `Iterator::map(x, f)` written as paths are rare here; ignore
    calls_.reverse()
    return n, calls_


ORDER_PRESERVING = {
    "iter", "iter_mut", "into_iter", "map", "cloned", "copied", "collect", "by_ref", "enumerate", "into_values",
    "values", "values_mut", "for_each", "as_slice", "as_ref", "as_mut", "to_vec", "into_vec", "into_boxed_slice",
    "inspect", "peekable", "fuse", "deref", "deref_mut", "borrow", "as_deref", "as_mut_slice", "zip", "chain",
    "into", "clone", "to_owned", "keys", "drain", "execute", "<for>", "<closure-arg>",
}
LOSSY = {
    "rev", "skip", "take", "filter", "filter_map", "step_by", "skip_while", "take_while", "nth", "last", "first",
    "find", "position", "next", "next_back", "min", "max", "flat_map", "flatten", "dedup", "sort", "sort_by",
    "truncate", "pop", "split_first", "split_last", "get", "map_while", "scan", "cycle", "rposition", "nth_back",
}


def chain_verdict(calls_, terminal_ok=("collect", "for_each", "any", "all", "fold", "count", "sum", "extend", "len", "is_empty")):
    """'ok' if every adaptor preserves order and elements, 'lossy:<m>' for the first lossy one,
    'unknown:<m>' for the first unknown one"""
    for c in calls_:
        m = c["m"]
        if m in LOSSY:
            return "lossy:" + m
        if m not in ORDER_PRESERVING and m not in terminal_ok:
            return "unknown:" + m
    return "ok"


def root_is_local(n, name):
    r, _ = chain(n)
    return local_name(r) == name


def root_is_field(n, base, field):
    """root is `<base>.<field>` (base a local name, e.g. self.args)"""
    r, _ = chain(n)
    r = strip(r)
    return r.get("k") == "Field" and r.get("name") == field and local_name(r["e"]) == base


def closure_of(n):
    n = deref(n)
    return n if n.get("k") == "Closure" else None


def tail(n):
    """the value expression of a block-like node (last expr), looking through blocks"""
    n = strip(n)
    while n.get("k") == "Block" and n.get("expr") is not None:
        blk = n
        n = strip(n["expr"])
        # `{ ..; let r = E; r }` evaluates to E
        r = path_res(n) if n.get("k") == "Path" else None
        if r and r.get("r") == "local":
            for st in blk.get("stmts", []):
                p = st.get("pat", {}) if st.get("k") == "SLet" else {}
                if p.get("k") == "PBinding" and p.get("id") == r.get("id") and "init" in st and "els" not in st and \
                        not str(p.get("mode", "")).rstrip(")").endswith("Mut"):
                    n = strip(st["init"])
                    break
    return n


def fn_result(h):
    """What a whole function evaluates to, for rules of the form "this function is exactly <expr>": the tail expression
    when the body has no user-written `return`; with early returns, the single unconditional result if there is one,
    else a placeholder node {"k": "Multi"} that no rule accepts - a function that answers some inputs on another path
    (a guard clause, a fast path) is not "exactly <expr>"."""
    body = h["body"]
    rets = [r for r in exprs(body, "Ret", into_closures=False) if not r.get("x")]
    if not rets:
        return tail(body)
    import sem
    S = sem.Sem(None, h, inline=False)
    leaves = S.result_leaves()
    if len(leaves) == 1 and not leaves[0].pc_has_conditions() and not leaves[0].in_loop:
        return tail(leaves[0].node)
    return {"k": "Multi", "n": len(leaves), "sp": h.get("span", "")}


def walk_arms(n, stack=()):
    """pre-order walk yielding (node, arm_stack); arm_stack = tuple of (match scrutinee type, [variant paths]
    or ['_']) for every enclosing match arm, outermost first. Also records if/else as ('if', cond-node, bool)."""
    yield n, stack
    k = n.get("k")
    if k == "Match":
        for c in children(n["scrut"]) if False else [n["scrut"]]:
            yield from walk_arms(c, stack)
        for a in n["arms"]:
            vs = pat_variants(a["pat"]) or ["_"]
            # variants matched by nested sub-patterns (e.g. `Ordering { op, rhs: RhsValue::Ip(ip) }`)
            for q in walk(a["pat"]):
                if q is not a["pat"] and q.get("k") in ("PStruct", "PTupleStruct", "PExpr"):
                    v = pat_variant(q)
                    if v and v not in vs:
                        vs = list(vs) + [v]
            st = stack + ((n["scrut"].get("ty", ""), tuple(vs)),)
            if "guard" in a:
                yield from walk_arms(a["guard"], st)
            yield from walk_arms(a["body"], st)
        return
    if k == "If":
        yield from walk_arms(n["cond"], stack)
        yield from walk_arms(n["then"], stack + (("if", id(n), True),))
        if "else" in n:
            yield from walk_arms(n["else"], stack + (("if", id(n), False),))
        return
    for c in children(n):
        yield from walk_arms(c, stack)


def arm_variants(stack, enum_suffix):
    """last-segment names of the variants of the innermost enclosing arm whose patterns belong to `enum_suffix`.
    `stack` is an arm stack of walk_arms, or a sem.Site (then the answer comes from its path condition: early returns,
    let-else, matches!, helpers inlined from the same file are all seen)"""
    if hasattr(stack, "pc"):
        import sem
        vs = sem.nested_variants(stack.pc, lambda v: True, enum_suffix)
        return sorted(vs) if vs else None
    for ent in reversed(stack):
        if ent[0] == "if":
            continue
        ty, vs = ent
        mine = [v for v in vs if v != "_" and ("::" + enum_suffix + "::") in ("::" + v)]
        if mine:
            return [last_seg(v) for v in mine]
    return None


def explicit_err_returns(n, into_closures=False):
    """`return Err(..)` written in the source (not the residual return of `?`)"""
    out = []
    for r in exprs(n, "Ret", into_closures):
        e = strip(r.get("e", {}))
        if e.get("k") == "Call" and norm(e.get("callee", "")) == "core::result::Result::Err":
            out.append(r)
    return out


# ----------------------------------------------------------------------------------------------
# polymorphic (pre-monomorphisation) call graph over local bodies, keyed by unique def path `dp`

def _operands(rv):
    for k in ("op", "a", "b"):
        if k in rv and isinstance(rv[k], dict):
            yield rv[k]
    for o in rv.get("ops", []):
        yield o


class CallGraph:
    """edges: direct calls resolved by rustc (`resolved_dp`), closures created, fn items used as values,
    and - over-approximating - every local impl of a local trait method when the receiver type is generic."""

    def __init__(self, crate):
        self.c = crate
        self.bodies = crate.mir_by_dp
        # trait method name -> impl method dps, for local traits
        self.trait_impls = defaultdict(list)
        for imp in crate.impls:
            tr = imp.get("trait")
            if not tr:
                continue
            for it in imp["items"]:
                self.trait_impls[(tr, it["name"])].append(it["dp"])
        self._edges = {}

    def edges(self, dp):
        if dp in self._edges:
            return self._edges[dp]
        out = []
        m = self.bodies.get(dp)
        if m:
            for bi, bl in enumerate(m["blocks"]):
                for s in bl["stmts"]:
                    if s["k"] != "Assign":
                        continue
                    rv = s["rv"]
                    if rv["k"] == "Aggregate" and rv.get("closure_dp"):
                        out.append((rv["closure_dp"], "closure", s.get("sp", "")))
                    for o in _operands(rv):
                        c = o.get("c") if isinstance(o, dict) else None
                        if c and c.get("fn_dp"):
                            out.append((c.get("resolved_dp") or c["fn_dp"], "fnref", s.get("sp", "")))
                t = bl.get("term")
                if not t or t["k"] not in ("Call", "TailCall"):
                    continue
                for a in t.get("args", []):
                    c = a.get("c")
                    if c and c.get("fn_dp"):
                        out.append((c.get("resolved_dp") or c["fn_dp"], "fnref", t.get("sp", "")))
                # blanket impls in core that call back into local code
                cal0 = norm(t.get("callee") or "")
                if cal0 in ("core::convert::Into::into", "core::convert::TryInto::try_into") and len(t.get("targs", [])) >= 2:
                    src_ty, dst_ty = norm(t["targs"][0]), norm(t["targs"][1])
                    want_tr = "core::convert::From" if cal0.endswith("Into::into") else "core::convert::TryFrom"
                    for imp in self.c.impls:
                        if imp.get("trait") == want_tr and norm(imp["self_ty"]) == dst_ty and ("<" + src_ty + ">") in norm(imp.get("trait_ref", "")):
                            for it in imp["items"]:
                                if it["kind"] == "AssocFn":
                                    out.append((it["dp"], "call-via-into", t.get("sp", "")))
                if t.get("resolved_dp") and not t.get("unresolved"):
                    tgt = t["resolved_dp"]
                    if tgt in self.bodies:
                        out.append((tgt, "call", t.get("sp", "")))
                    elif t.get("trait") and t.get("ikind") in ("Item",) and (t["trait"], t.get("callee_name")) in self.trait_impls \
                            and t["resolved_dp"] == t.get("callee_dp"):
                        # resolved to the trait's own (default) method: nothing more to add
                        pass
                    if t.get("ikind") == "Virtual" and t.get("trait"):
                        for d in self.trait_impls.get((t["trait"], t.get("callee_name")), []):
                            out.append((d, "dyn", t.get("sp", "")))
                elif t.get("callee_dp"):
                    # unresolved generic trait call: all local impls of that method
                    for d in self.trait_impls.get((t.get("trait"), t.get("callee_name")), []):
                        out.append((d, "generic", t.get("sp", "")))
        self._edges[dp] = out
        return out

    def reach(self, roots, stop=None):
        """dict dp -> (parent dp, edge kind, where) for everything reachable from roots"""
        seen = {}
        st = []
        for r in roots:
            if r not in seen:
                seen[r] = None
                st.append(r)
        while st:
            x = st.pop()
            if stop and stop(x):
                continue
            for tgt, kind, where in self.edges(x):
                if tgt not in seen and tgt in self.bodies:
                    seen[tgt] = (x, kind, where)
                    st.append(tgt)
        return seen

    def path_to(self, seen, dp):
        out = []
        cur = dp
        while cur is not None:
            out.append(norm(self.bodies[cur]["path"]) if cur in self.bodies else cur)
            par = seen.get(cur)
            cur = par[0] if par else None
        return list(reversed(out))


PANIC_CALLEES = re.compile(
    r"^(core::panicking::(panic|panic_fmt|panic_display|panic_explicit|unreachable_display|panic_nounwind|assert_failed|panic_str_2015|panic_const::.*)"
    r"|core::option::Option::(unwrap|expect)"
    r"|core::result::Result::(unwrap|expect|unwrap_err|expect_err)"
    r"|std::rt::begin_panic|core::panicking::assert_failed_inner|core::option::unwrap_failed|core::option::expect_failed"
    r"|core::result::unwrap_failed|std::process::abort|std::process::exit)$")


def panic_sites(mir):
    """explicit panic sites of one MIR body: (kind, where, detail)"""
    out = []
    for bi, bl in enumerate(mir["blocks"]):
        t = bl.get("term")
        if not t or t["k"] != "Call":
            continue
        c = norm(t.get("resolved") or t.get("callee") or "")
        if PANIC_CALLEES.match(c):
            kind = last_seg(c)
            mac = t.get("mac", "")
            if c.startswith("core::panicking::"):
                kind = "panic"
                # distinguish by message when constant
                for a in t.get("args", []):
                    cc = a.get("c")
                    if cc and "disp" in cc and "unreachable" in cc["disp"]:
                        kind = "unreachable"
            out.append((kind, t.get("sp", ""), c))
    return out


def preceding_stmts(body, target):
    """statements that precede `target` (a node, by identity) in every enclosing block, innermost last;
    they are executed before it on every path that stays inside those blocks"""
    res = []

    def go(n, acc):
        if n is target:
            res.append(list(acc))
            return True
        k = n.get("k")
        if k == "Block":
            cur = list(acc)
            for s in n.get("stmts", []):
                if go(s, cur):
                    return True
                cur = cur + [s]
            if n.get("expr") is not None and go(n["expr"], cur):
                return True
            return False
        for c in children(n):
            if go(c, acc):
                return True
        return False
    go(body, [])
    return res[0] if res else None


# ----------------------------------------------------------------------------------------------
# reviewed panic sites that moved into a private helper

_CALLERS_CACHE = {}


def callers_by_name(crate):
    """normalised callee path -> set of normalised caller paths (closures attributed to their enclosing function)"""
    key = id(crate)
    if key in _CALLERS_CACHE:
        return _CALLERS_CACHE[key]
    G = CallGraph(crate)
    rev = defaultdict(set)
    for dp, m in crate.mir_by_dp.items():
        caller = re.sub(r"(::\{closure#\d+\})+$", "", norm(m["path"]))
        for tgt, kind, _ in G.edges(dp):
            if kind == "closure":
                continue
            t = crate.mir_by_dp.get(tgt)
            if t is not None:
                callee = re.sub(r"(::\{closure#\d+\})+$", "", norm(t["path"]))
                if callee != caller:
                    rev[callee].add(caller)
    _CALLERS_CACHE[key] = rev
    return rev


def moved_panic_reason(crate, fn, kind, allowed, present):
    """A panic site of `kind` in function `fn` that is not in the reviewed list is still accepted when it is a reviewed
    site that was moved into a helper: fn is not `pub`, not a trait method, has callers, and every caller has a reviewed
    entry of the same kind whose own site no longer exists. allowed/present: sets of (function, kind)."""
    base = re.sub(r"(::\{closure#\d+\})+$", "", fn)
    # the same function, the site merely moved into / out of one of its closures
    for a in allowed:
        if a[1] == kind and a != (fn, kind) and re.sub(r"(::\{closure#\d+\})+$", "", a[0]) == base and a not in present:
            return "reviewed %s site of %s moved between the function and its closures" % (kind, base)
    it = crate.item(base)
    if it is None or it.get("vis") == "Public" or it.get("parent_kind", "").startswith("Impl { of_trait: true"):
        return None
    callers = callers_by_name(crate).get(base, set())
    if not callers:
        return None
    for c in callers:
        if (c, kind) not in allowed:
            # the caller itself may be a closure-carrying function whose entry is keyed with the closure suffix
            if not any(a[1] == kind and re.sub(r"(::\{closure#\d+\})+$", "", a[0]) == c for a in allowed):
                return None
        if any(p[1] == kind and re.sub(r"(::\{closure#\d+\})+$", "", p[0]) == c for p in present):
            return None
    return "reviewed %s site(s) of %s moved into this private helper" % (kind, ", ".join(sorted(callers)))


# ----------------------------------------------------------------------------------------------
# parameters and let-bound locals by role (never by spelling)

def param_pat(h, i):
    ps = h.get("params", [])
    return ps[i] if 0 <= i < len(ps) else None


def is_param(n, h, i):
    """n is a path to the i-th parameter of the function whose HIR entry is h (0 = self for methods)"""
    p = param_pat(h, i)
    r = path_res(n)
    if not p or not r or r.get("r") != "local":
        return False
    while p.get("k") in ("PRef",):
        p = p["pat"]
    return p.get("k") == "PBinding" and p.get("id") == r.get("id") and p.get("name") == r.get("name")


def param_name(h, i):
    p = param_pat(h, i)
    while p and p.get("k") in ("PRef",):
        p = p["pat"]
    return p.get("name") if p and p.get("k") == "PBinding" else None


def closure_param_names(clo, i=None):
    """names bound by the i-th parameter pattern of a closure (all parameters when i is None)"""
    ps = clo.get("params", []) if clo else []
    if i is not None:
        ps = ps[i:i + 1]
    return [x["name"] for p in ps for x in walk(p) if x.get("k") == "PBinding"]


def let_name(body, pred, into_closures=True):
    """name bound by the (unique) `let <name> = <init>` whose init satisfies pred; None if none or several"""
    found = []
    for st in exprs(body, "SLet", into_closures):
        if "init" in st and st["pat"].get("k") == "PBinding" and pred(strip(st["init"])):
            found.append(st["pat"]["name"])
    return found[0] if len(found) == 1 else None


def let_init(body, name):
    """the initialiser of `let name = ..` (None if absent or ambiguous)"""
    found = [st["init"] for st in exprs(body, "SLet") if "init" in st and st["pat"].get("k") == "PBinding" and st["pat"]["name"] == name]
    return found[0] if len(found) == 1 else None


_FN_PATHS_CACHE = {}


def canon_fn(crate, path):
    """function path in which the function that *encloses* a nested item (a struct/impl declared inside a function body) is
    replaced by `{fn}`: `<<A as T>::compile::Searcher as Compare>::compare` and `<a::compile_contains::Searcher as
    Compare>::compare` are the same comparator after the enclosing function was split. Reviewed lists are matched
    modulo this."""
    key = id(crate)
    if key not in _FN_PATHS_CACHE:
        _FN_PATHS_CACHE[key] = sorted({norm(i["path"]) for i in crate.items if i["kind"] in ("Fn", "AssocFn")}, key=len, reverse=True)
    if not path.startswith("<"):
        return path
    for fp in _FN_PATHS_CACHE[key]:
        needle = fp + "::"
        i = path.find(needle)
        if i >= 0 and i + len(needle) < len(path) and path[i + len(needle)].isupper():
            mod = re.match(r"(?:[<&\s]|mut\s)*((?:[a-z_0-9]+::)*)", fp).group(1).rstrip(":")
            # an item declared inside a function body is named like an item of the enclosing module: moving it out of (or into)
            # the function does not orphan its reviewed entry
            pre_ = path[:i]
            if pre_.endswith("<"):
                pre_ = pre_[:-1].rstrip("<") + "<" if pre_.count("<") > 1 else pre_
            return _drop_inner_qualifier(path[:i], (mod + "::") if mod else "", path[i + len(needle):])
    return path


def _drop_inner_qualifier(prefix, mod, rest):
    """`<<A as T>::f::Item as Tr>::m` -> `<mod::Item as Tr>::m`: prefix ends with the `<` that opened the enclosing function's
    own qualified path (if it had one); that bracket pair is removed with the function name"""
    if prefix.endswith("<<"):
        prefix = prefix[:-1]
    return prefix + mod + rest


_STRIP_CLO = re.compile(r"(::\{closure#\d+\})+$")


def judge_panic_sites(crate, allowed, sites):
    """Compare the explicit panic sites found (sites: {(canonical function, kind): set of locations}) with a reviewed
    list (allowed: {(canonical function, kind): entry}, entry may carry `count` = number of sites reviewed there).
    Returns {key: (status, reason)} with status
      ok        reviewed entry, not more sites than were reviewed
      grown     reviewed entry, but more sites of that kind than were reviewed (a new, unreviewed one among them)
      moved     not listed, accepted: reviewed sites moved into / out of a closure of the same function, into a private
                helper called only from functions whose reviewed sites disappeared (as many as appeared), or the reviewed
                private function was renamed (it no longer exists, same parent, same number of sites)
      new       not listed and not explained: an unreviewed explicit panic
    """
    out = {}
    n_sites = {k: len(v) for k, v in sites.items()}

    def base(fn):
        return _STRIP_CLO.sub("", fn)
    # how many reviewed sites each reviewed function (closures folded in) has lost
    reviewed_by_base, present_by_base = defaultdict(int), defaultdict(int)
    for (fn, kind), ent in allowed.items():
        cnt = ent.get("count") if isinstance(ent, dict) else None
        reviewed_by_base[(base(fn), kind)] += cnt if isinstance(cnt, int) else n_sites.get((fn, kind), 1)
    for (fn, kind), n in n_sites.items():
        if (fn, kind) in allowed or any(a_[1] == kind and base(a_[0]) == base(fn) for a_ in allowed):
            present_by_base[(base(fn), kind)] += n
    deficit = {k: max(0, reviewed_by_base[k] - present_by_base.get(k, 0)) for k in reviewed_by_base}
    existing = {norm(i["path"]) for i in crate.items if i["kind"] in ("Fn", "AssocFn")}
    rev = callers_by_name(crate)
    for key in sorted(sites):
        fn, kind = key
        n = n_sites[key]
        ent = allowed.get(key)
        if ent is not None:
            cnt = ent.get("count") if isinstance(ent, dict) else None
            if isinstance(cnt, int) and n > cnt:
                # sites may have moved in from the function's own closures
                b = (base(fn), kind)
                if present_by_base.get(b, 0) <= reviewed_by_base.get(b, 0):
                    out[key] = ("ok", "reviewed (sites moved between the function and its closures)")
                else:
                    out[key] = ("grown", "%d sites of this kind, %d were reviewed" % (n, cnt))
            else:
                out[key] = ("ok", "reviewed")
            continue
        b = (base(fn), kind)
        if b in reviewed_by_base and present_by_base.get(b, 0) <= reviewed_by_base[b]:
            out[key] = ("moved", "reviewed %s site of %s moved between the function and its closures" % (kind, base(fn)))
            continue
        it = crate.item(base(fn))
        private_fn = it is not None and it.get("vis") != "Public" and not it.get("parent_kind", "").startswith("Impl { of_trait: true")
        if private_fn:
            callers = {canon_fn(crate, c_) for c_ in rev.get(base(fn), set())}
            budget = [(c_, kind) for c_ in callers if deficit.get((c_, kind), 0) > 0]
            avail = sum(deficit[b_] for b_ in budget)
            if callers and all((c_, kind) in reviewed_by_base for c_ in callers) and avail >= n:
                need = n
                for b_ in budget:
                    take = min(need, deficit[b_])
                    deficit[b_] -= take
                    need -= take
                out[key] = ("moved", "reviewed %s site(s) of %s moved into this private helper" % (kind, ", ".join(sorted(callers))))
                continue
            # renamed private function: a reviewed function of the same parent is gone, with the same number of sites
            parent = base(fn).rsplit("::", 1)[0]
            callers_ = {canon_fn(crate, c_) for c_ in rev.get(base(fn), set())}
            gone = [b_ for b_ in deficit if b_[1] == kind and b_[0] not in existing and deficit[b_] >= n and "{fn@" not in b_[0] and
                    (b_[0].rsplit("::", 1)[0] == parent or any(b_[0].startswith(c_ + "::") for c_ in callers_))]
            if len(gone) == 1:
                deficit[gone[0]] -= n
                out[key] = ("moved", "the reviewed private function %s no longer exists; %s has the same %s site(s) (renamed)" % (gone[0][0], base(fn), kind))
                continue
        out[key] = ("new", "")
    return out
