"""Thorough tier: rule self-test by mutation. Each mutant of /verif/mutants/mutants.json is applied to a scratch
copy of /repo's current tree (under /verif/.cache, removed afterwards), facts are re-extracted and the property's
rules must report it. A mutant whose text no longer occurs (or that no longer builds) is stale, not a failure."""
import json
import os
import shutil
import subprocess
import tempfile
import extract

MUT = os.path.join(extract.VERIF, "mutants", "mutants.json")


def load(pid=None):
    with open(MUT) as f:
        ms = json.load(f)["mutants"]
    return [m for m in ms if pid is None or m["property"] == pid]


def run_one(m, src=None):
    """returns (status, detail): caught / missed / stale / nobuild"""
    src = src or extract.REPO
    os.makedirs(extract.CACHE, exist_ok=True)
    d = tempfile.mkdtemp(prefix="mut-", dir=extract.CACHE)
    try:
        subprocess.check_call(["rsync", "-a", "--exclude", "target", "--exclude", ".git", src.rstrip("/") + "/", d + "/"])
        p = os.path.join(d, m["file"])
        with open(p) as f:
            s = f.read()
        if m["old"] not in s:
            return "stale", "text to mutate not found"
        s2 = s.replace(m["old"], m["new"]) if m.get("all") else s.replace(m["old"], m["new"], 1)
        with open(p, "w") as f:
            f.write(s2)
        r = subprocess.run([os.path.join(extract.VERIF, "check"), m["property"], "--src", d, "--no-evidence", "--json"],
                           stdout=subprocess.PIPE, stderr=subprocess.STDOUT, text=True)
        if "the tree does not build" in r.stdout:
            return "nobuild", "mutant does not compile any more"
        keys = []
        for line in r.stdout.splitlines():
            if line.startswith("[{") or line.startswith("[]"):
                try:
                    keys = [x["key"] for x in json.loads(line) if x["status"] in ("violation", "cannot-decide")]
                except Exception:
                    pass
        hit = [k for k in keys if m["expect"] in k]
        if hit:
            return "caught", hit[0]
        return "missed", "violations reported: %s" % (keys[:3],)
    finally:
        shutil.rmtree(d, ignore_errors=True)


def run(pid, R, src=None):
    ms = load(pid)
    n = 0
    for m in ms:
        st, detail = run_one(m, src)
        if st == "caught":
            n += 1
            R.ok("mutation", m["id"], "seeded edit is reported (%s)" % m["what"], detail)
        elif st in ("stale", "nobuild"):
            R.note("mutant %s is %s: %s" % (m["id"], st, detail))
        else:
            R.cannot("mutation:" + m["id"], m["file"], "the rules no longer report this seeded edit (%s): %s" % (m["what"], detail))
    R.analysed["mutants_run"] = len(ms)
    R.analysed["mutants_caught"] = n


if __name__ == "__main__":
    import sys
    pid = sys.argv[1] if len(sys.argv) > 1 else None
    only = sys.argv[2] if len(sys.argv) > 2 else None
    for m in load(pid):
        if only and m["id"] != only:
            continue
        st, detail = run_one(m)
        print("%-28s %-8s %s" % (m["id"], st, detail[:160]), flush=True)
