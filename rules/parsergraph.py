"""Monomorphic call graph of the parser with nesting-depth deltas (shared by C05 and C13).

For every instance reachable from the parser entry points, an abstract value d(local) is computed for each local
whose type mentions `FilterParser`: parameters are 0, the result of `with_increased_nesting(p)` is d(p)+1, everything
else (copies, borrows, `?` plumbing, clones, tuple/closure captures) inherits the maximum of its inputs
(flow-insensitive).  Each call edge that passes a parser then carries the delta of the parser it passes.
"""
import re
from collections import defaultdict
from lib import *

FP = "ast::parse::FilterParser"
INC = "ast::parse::FilterParser::with_increased_nesting"
ROOT_RX = re.compile(r"^(ast::parse::FilterParser::(parse|parse_value)$|.* as lex::LexWith<&ast::parse::FilterParser>>::lex_with$|"
                     r".*\{impl lex::LexWith<&ast::parse::FilterParser> for .*\}::lex_with$)")


def mentions_fp(ty):
    return FP in ty


class ParserGraph:
    def __init__(self, E):
        self.E = E
        self.insts = {i["id"]: i for i in E.mono["instances"]}
        self.name = {i: norm(v["path"]) for i, v in self.insts.items()}
        self.roots = [i for i, v in self.insts.items() if "mir" in v and ROOT_RX.match(self.name[i])]
        self.edges = defaultdict(list)   # id -> [(to, kind, bb)]
        for i, v in self.insts.items():
            for e in v.get("edges", []):
                if "to" in e:
                    self.edges[i].append((e["to"], e["kind"], e["bb"]))
        self.reach = self._reach(self.roots)
        self.indirect = []
        for i in self.reach:
            for e in self.insts[i].get("edges", []):
                if e["kind"] in ("virtual", "indirect", "unresolved"):
                    self.indirect.append((self.name[i], e.get("method") or e.get("fty") or e.get("callee"), e["kind"]))
        self.up = {}       # closure instance id -> {field index: delta}
        self.delta = {}    # instance id -> {local: delta}
        self._analyse()

    def _reach(self, roots):
        seen = set()
        st = list(roots)
        while st:
            x = st.pop()
            if x in seen:
                continue
            seen.add(x)
            if "mir" not in self.insts[x]:
                continue
            for to, kind, bb in self.edges[x]:
                if kind in ("call", "closure", "fnref") and to not in seen:
                    st.append(to)
        return seen

    # -- delta analysis
    def _place_delta(self, iid, d, place):
        l = place["l"]
        if l == 1 and iid in self.up:
            # closure environment: (*_1).k or _1.k
            for p in place["p"]:
                if isinstance(p, int):
                    return self.up[iid].get(p)
            allv = set()
            for v in self.up[iid].values():
                allv |= v
            return allv or None
        return d.get(l)

    def _op_delta(self, iid, d, op):
        if op is None or "c" in op:
            return None
        return self._place_delta(iid, d, op)

    def _analyse_inst(self, iid):
        v = self.insts[iid]
        m = v["mir"]
        locs = m["locals"]
        d = dict(self.delta.get(iid, {}))
        is_closure = m["kind"] == "Closure"
        for a in range(1, m["arg_count"] + 1):
            if mentions_fp(locs[a]["ty"]) and not (is_closure and a == 1):
                d.setdefault(a, frozenset([0]))
        changed = True
        rounds = 0
        while changed and rounds < 20:
            changed = False
            rounds += 1

            def join(l, val):
                nonlocal changed
                if not val or not mentions_fp(locs[l]["ty"]):
                    return
                new = frozenset(d.get(l) or ()) | frozenset(val)
                if new != d.get(l):
                    d[l] = new
                    changed = True
            for bl in m["blocks"]:
                for s in bl["stmts"]:
                    if s["k"] != "Assign":
                        continue
                    L = s["lhs"]["l"]
                    rv = s["rv"]
                    k = rv["k"]
                    if k in ("Use", "Cast", "Repeat"):
                        join(L, self._op_delta(iid, d, rv["op"]))
                    elif k in ("Ref", "CopyForDeref", "RawPtr"):
                        join(L, self._place_delta(iid, d, rv["place"]))
                    elif k == "Aggregate":
                        vals = set()
                        for o in rv["ops"]:
                            vals |= set(self._op_delta(iid, d, o) or ())
                        if vals and not rv.get("closure"):
                            join(L, vals)
                t = bl.get("term")
                if t and t["k"] == "Call":
                    D = t["dest"]["l"]
                    cal = norm(t.get("resolved") or t.get("callee") or "")
                    vals = set()
                    for a in t["args"]:
                        vals |= set(self._op_delta(iid, d, a) or ())
                    if cal == INC:
                        if vals:
                            join(D, {min(x + 1, 6) for x in vals})
                    elif vals:
                        join(D, vals)
        self.delta[iid] = d
        # closures created here inherit the deltas of what they capture
        out_changed = False
        for bi, bl in enumerate(m["blocks"]):
            for s in bl["stmts"]:
                if s["k"] == "Assign" and s["rv"]["k"] == "Aggregate" and s["rv"].get("closure_dp"):
                    tgt = [to for to, kind, bb in self.edges[iid] if kind == "closure" and bb == bi and
                           self.insts[to]["dp"] == s["rv"]["closure_dp"]]
                    for to in tgt:
                        up = self.up.setdefault(to, {})
                        for k, o in enumerate(s["rv"]["ops"]):
                            if "c" in o:
                                continue
                            ty = locs[o["l"]]["ty"]
                            val = self._op_delta(iid, d, o)
                            if val is None and iid in self.up and o["l"] == 1:
                                val = self._place_delta(iid, d, o)
                            if val and (mentions_fp(ty) or o["l"] == 1):
                                new = frozenset(up.get(k) or ()) | frozenset(val)
                                if new != up.get(k):
                                    up[k] = new
                                    out_changed = True
        return out_changed

    def _analyse(self):
        order = [i for i in sorted(self.reach) if "mir" in self.insts[i]]
        for _ in range(8):
            ch = False
            for i in order:
                ch = self._analyse_inst(i) or ch
            if not ch:
                break

    def parser_edges(self):
        """[(from id, to id, delta, where)] for call edges that pass a FilterParser (directly or as closure capture)"""
        out = []
        for i in sorted(self.reach):
            v = self.insts[i]
            if "mir" not in v:
                continue
            m = v["mir"]
            d = self.delta.get(i, {})
            for to, kind, bb in self.edges[i]:
                if kind != "call" or "mir" not in self.insts.get(to, {}):
                    continue
                t = m["blocks"][bb].get("term", {})
                vals = set()
                for a, ty in zip(t.get("args", []), t.get("arg_tys", [])):
                    if mentions_fp(ty):
                        vals |= set(self._op_delta(i, d, a) or ())
                # calls of closures that captured a parser
                if to in self.up and self.up[to]:
                    for x in self.up[to].values():
                        vals |= set(x)
                if vals:
                    out.append((i, to, tuple(sorted(vals)), t.get("sp", "")))
        return out

    def _dominated(self, m, start):
        """blocks dominated by block `start` (reflexive) using the idom chain"""
        out = set()
        for i in range(len(m["blocks"])):
            x = i
            seen = 0
            while x != -1 and seen < 100000:
                if x == start:
                    out.add(i)
                    break
                x = m["blocks"][x]["idom"]
                seen += 1
        return out

    def inc_regions(self):
        """for every with_increased_nesting call: (instance id, where, pre delta set, [(callee name, delta set, where)])
        listing every call (and closure creation) dominated by the increment's return that passes a parser to a
        lexing function"""
        out = []
        for i in sorted(self.reach):
            v = self.insts[i]
            if "mir" not in v:
                continue
            m = v["mir"]
            d = self.delta.get(i, {})
            for bi, bl in enumerate(m["blocks"]):
                t = bl.get("term")
                if not (t and t["k"] == "Call" and norm(t.get("resolved") or t.get("callee") or "") == INC and "target" in t):
                    continue
                pre = set(self._op_delta(i, d, t["args"][0]) or ())
                region = self._dominated(m, t["target"])
                passed = []
                for rb in sorted(region):
                    blk = m["blocks"][rb]
                    for s in blk["stmts"]:
                        if s["k"] == "Assign" and s["rv"]["k"] == "Aggregate" and s["rv"].get("closure_dp"):
                            vals = set()
                            for o in s["rv"]["ops"]:
                                if "c" not in o and (mentions_fp(m["locals"][o["l"]]["ty"]) or (o["l"] == 1 and i in self.up)):
                                    vals |= set(self._op_delta(i, d, o) or ())
                            if vals:
                                passed.append(("closure " + norm(s["rv"].get("closure", "")), tuple(sorted(vals)), s.get("sp", "")))
                    tt = blk.get("term")
                    if not tt or tt["k"] != "Call" or rb == bi:
                        continue
                    tgts = [to for to, kind, bb in self.edges[i] if bb == rb and kind == "call"]
                    for to in tgts:
                        nm = self.name[to]
                        if "mir" not in self.insts[to] or nm.startswith("ast::parse::FilterParser::") or nm.startswith("<ast::parse::FilterParser as"):
                            continue
                        vals = set()
                        for a, ty in zip(tt.get("args", []), tt.get("arg_tys", [])):
                            if mentions_fp(ty):
                                vals |= set(self._op_delta(i, d, a) or ())
                        if vals:
                            passed.append((nm, tuple(sorted(vals)), tt.get("sp", "")))
                out.append((i, t.get("sp", ""), tuple(sorted(pre)), passed))
        return out

    def inc_sites(self):
        out = []
        for i in sorted(self.reach):
            v = self.insts[i]
            if "mir" not in v:
                continue
            for bi, bl in enumerate(v["mir"]["blocks"]):
                t = bl.get("term")
                if t and t["k"] == "Call" and norm(t.get("resolved") or t.get("callee") or "") == INC:
                    out.append((i, t.get("sp", "")))
        return out

    def sccs(self, drop_edge=None):
        """strongly connected components (with >1 node or a self loop) of the reachable local graph"""
        nodes = [i for i in self.reach if "mir" in self.insts[i]]
        adj = {i: [] for i in nodes}
        for i in nodes:
            for to, kind, bb in self.edges[i]:
                if kind in ("call", "closure", "fnref") and to in adj:
                    if drop_edge and drop_edge(i, to, bb):
                        continue
                    adj[i].append(to)
        index = {}
        low = {}
        onst = set()
        st = []
        res = []
        counter = [0]
        import sys
        sys.setrecursionlimit(10000)

        def sc(v):
            index[v] = low[v] = counter[0]
            counter[0] += 1
            st.append(v)
            onst.add(v)
            for w in adj[v]:
                if w not in index:
                    sc(w)
                    low[v] = min(low[v], low[w])
                elif w in onst:
                    low[v] = min(low[v], index[w])
            if low[v] == index[v]:
                comp = []
                while True:
                    w = st.pop()
                    onst.discard(w)
                    comp.append(w)
                    if w == v:
                        break
                if len(comp) > 1 or v in adj[v]:
                    res.append(sorted(comp))
        for v in nodes:
            if v not in index:
                sc(v)
        return res, adj
