"""dev/self-test: rename every local (let-bound, pattern-bound, parameters except `self`) in the extracted facts.
A rule whose verdict changes under this renaming depends on the spelling of a local, which no property is about."""
import re


def _walk(n):
    st = [n]
    while st:
        x = st.pop()
        if isinstance(x, dict):
            yield x
            st.extend(v for k_, v in x.items() if k_ != "_init")
        elif isinstance(x, list):
            st.extend(x)


def rename(raw, suffix="_rn"):
    for crate in raw.values():
        maps = {}
        for h in crate["hir"]:
            if "body" not in h:
                continue
            m = {}
            for n in _walk([h.get("params", []), h["body"]]):
                if n.get("k") == "PBinding" and n.get("name") not in (None, "self"):
                    m[n["name"]] = n["name"] + suffix
                    n["name"] = n["name"] + suffix
                elif n.get("r") == "local" and n.get("name") not in (None, "self"):
                    n["name"] = n["name"] + suffix
            maps[h["dp"]] = m
        for b in crate["mir"]:
            dp = re.sub(r"(::\{closure#\d+\})+$", "", b["dp"])
            m = maps.get(dp, {})
            for v in b.get("vars", []):
                if v.get("name") in m:
                    v["name"] = m[v["name"]]
        for inst in crate.get("mono", {}).get("instances", []):
            b = inst.get("mir")
            if b:
                dp = re.sub(r"(::\{closure#\d+\})+$", "", b.get("dp", ""))
                m = maps.get(dp, {})
                for v in b.get("vars", []):
                    if v.get("name") in m:
                        v["name"] = m[v["name"]]
    return raw
