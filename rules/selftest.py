"""Checker self-test on every run: each zero-expected rule must fire on its positive example in /verif/fixtures
(and stay silent on the neighbouring negative example). A rule that cannot fire decides nothing, so a failure
here makes the check fail closed."""
import json
import re
import extract
import lib


class _Stub:
    def __init__(self, c):
        self.engine = self.ffi = self.wasm = c
        self.crates = [c]


def _fx():
    with open(extract.extract_fixtures()) as f:
        return lib.Crate(json.load(f))


def _expect(R, rule, sub, must, must_not=()):
    vio = [r for r in sub.results if r.status == "violation"]
    funcs = " ".join(r.func + " " + r.label for r in vio)
    ok = all(m in funcs for m in must) and not any(m in funcs for m in must_not)
    if ok:
        R.ok("selftest", rule, "fires on its positive fixture (%d report%s) and not on the negative one" % (len(vio), "" if len(vio) == 1 else "s"), nontrivial=False)
    else:
        R.cannot("selftest:" + rule, "fixtures", "the rule did not behave on its fixture: reported [%s], expected %s and not %s" % (funcs[:300], list(must), list(must_not)))


def run(pid, R):
    tests = TESTS.get(pid, [])
    if not tests:
        return
    fx = _fx()
    for rule, fn, must, must_not in tests:
        sub = lib.Report()
        try:
            fn(fx, sub)
        except Exception as e:  # a crashing rule is a broken rule
            R.cannot("selftest:" + rule, "fixtures", "%s: %s" % (type(e).__name__, e))
            continue
        _expect(R, rule, sub, must, must_not)


def _t():
    import C03, C05, C06, C14, C17, C18, C20
    return {
        "C03": [("R03-anyacc", lambda fx, s: C03.rule_anyacc(fx, s), ["anyacc::Ctx::as_any_mut"], ["as_any_ref"])],
        "C05": [("R05-span", lambda fx, s: C05.scan_spans(fx, s), ["lex::bad_span"], [])],
        "C06": [("R06-narrow", lambda fx, s: C06.rule_narrow(fx, s, scope=re.compile(r"^lex::")), ["lex::index", "lex::hashes"], ["lex::widen"]),
                ("R06-digits", lambda fx, s: C06.rule_digits(fx, s, [fx], floor=1), ["lex::fixed"], [])],
        "C14": [("R14-borrow", lambda fx, s: C14.rule_borrow(_Stub(fx), s), ["borrow::V"], []),
                ("R14-panic", lambda fx, s: C14.rule_panic(_Stub(fx), s, floor_roots=0), ["deser_panic::convert"], [])],
        "C15": [("R14-borrow", lambda fx, s: C14.rule_borrow(_Stub(fx), s), ["borrow::V"], []),
                ("R15-deep", lambda fx, s: C14.rule_panic(_Stub(fx), s, rule="R15-deep", floor_roots=0), ["deser_panic::convert"], [])],
        "C17": [("R17-const", lambda fx, s: C17.const_return(fx, s, "constret::always", True), ["constret::always"], [])],
        "C18": [("R18-unsafeimpl", lambda fx, s: C18.rule_unsafeimpl(fx, s), ["unsafeimpl::Counter"], [])],
        "C20": [("R20-utf8", lambda fx, s: C20.rule_utf8(fx, s, floor=0), ["utf8::to_str"], [])],
    }


class _Lazy(dict):
    def get(self, k, d=None):
        if not self:
            self.update(_t())
        return dict.get(self, k, d)


TESTS = _Lazy()
