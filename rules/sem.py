"""Semantic view of a HIR body: the same facts whatever syntactic form the source uses.

Rules that ask "under which conditions is this construct reached?" or "which expression does this local stand
for?" go through this module instead of matching statement shapes, so that behaviour-preserving rewrites
(match <-> if-let <-> matches!, else-branch <-> early return, let-else, `?`, a condition kept in a local, a
helper function extracted in the same file, renamed locals) give the same answer.

  Sem(crate, hir_entry).sites()      every expression node with
        .pc     path condition: tuple of (Formula, polarity) that hold when the node is evaluated
        .frame  the binding environment (locals -> defining expression, parameters -> call arguments when the
                node lives in an inlined local helper)
  Sem.resolve(node, frame)           the expression a local stands for (through immutable single-definition lets,
                                     tuple destructuring, helper parameters)
  Sem.formula(cond, frame)           a condition as a formula over atoms
  literals(pc)                       the atoms that certainly hold / certainly do not hold

Atoms:  Is(scruts, alts)   the scrutinee components match one of the alternative variant tuples
        Cmp(op, l, r)      a comparison
        Call(node)         a bool-valued call (is_empty(), contains(..), ...)
        Ok(node)           the fallible expression `node` succeeded (`?`, or `let Ok(..) = .. else`)
"""
from lib import *


# ----------------------------------------------------------------------------------------------
# small syntactic helpers

def is_try(n):
    return n.get("k") == "Match" and str(n.get("src", "")).startswith("TryDesugar")


def try_inner(n):
    """`e?` -> e"""
    s = n["scrut"]
    if s.get("k") == "Call" and s.get("args"):
        return s["args"][0]
    return s


def peel(n):
    """strip() that also looks through `?`, casts-free wrappers and single-expression blocks"""
    while True:
        n = strip(n)
        if is_try(n):
            n = try_inner(n)
            continue
        return n


def peel_try(n):
    """peel() that also tells whether a `?` was looked through"""
    tried = False
    while True:
        n = strip(n)
        if is_try(n):
            n = try_inner(n)
            tried = True
            continue
        return n, tried


def diverges(n):
    return n is not None and n.get("ty") == "!"


def pat_repr(p):
    """pattern as a variant term: 'Type::Bool', 'Option::Some(Type::Bool)', '_' for bindings / wildcards"""
    k = p.get("k")
    if k in ("PRef", "PBox", "PDeref"):
        return pat_repr(p["pat"])
    if k == "PBinding":
        return pat_repr(p["sub"]) if p.get("sub") else "_"
    if k == "PWild":
        return "_"
    if k == "PGuard":
        return "?"
    if k == "PExpr":
        e = p["e"]
        if e.get("k") == "PEPath":
            r = e["res"]
            if r.get("r") == "def" and str(r.get("dk", "")).startswith(("Const", "AssocConst")) and r.get("path") in CONST_VALUES:
                return "lit:%r" % (CONST_VALUES[r["path"]],)      # a constant used as a pattern is the literal it holds
            return short_variant(norm(r.get("path", ""))) if r.get("r") == "def" else "?"
        if e.get("k") == "PELit":
            v = e["lit"].get("v")
            return "lit:%r" % (("-" if e.get("neg") else "") + str(v) if e.get("neg") else v,)
        return "?"
    if k == "PTupleStruct":
        r = p["res"]
        head = short_variant(norm(r.get("path", ""))) if r.get("r") in ("def", "selfctor") else "?"
        subs = [pat_repr(q) for q in p["pats"]]
        if all(s == "_" for s in subs):
            return head
        return head + "(" + ",".join(subs) + ")"
    if k == "PStruct":
        r = p["res"]
        head = short_variant(norm(r.get("path", ""))) if r.get("r") in ("def", "selfctor", "selfty") else "?"
        subs = [(f["name"], pat_repr(f["pat"])) for f in p["fields"]]
        subs = [(a, b) for a, b in subs if b != "_"]
        if not subs:
            return head
        return head + "{" + ",".join("%s:%s" % ab for ab in subs) + "}"
    if k == "PTuple":
        return "(" + ",".join(pat_repr(q) for q in p["pats"]) + ")"
    if k == "PRange":
        return "range"
    if k == "PSlice":
        return "slice"
    return "?"


def short_variant(path):
    """'types::Type::Bool' -> 'Type::Bool'"""
    segs = path.split("::")
    return "::".join(segs[-2:]) if len(segs) >= 2 else path


def expr_variant_repr(n):
    """an expression that denotes a variant value: unit variant path, or ctor call of such ('Option::Some(Type::Bool)')"""
    n = strip(n)
    if n.get("k") == "Path":
        r = n["res"]
        if r.get("r") == "def" and str(r.get("dk", "")).startswith("Ctor"):
            return short_variant(norm(r["path"]))
        return None
    if n.get("k") == "Call" and str(n.get("callee_kind", "")).startswith("Ctor"):
        head = short_variant(norm(n["callee"]))
        subs = []
        for a in n["args"]:
            s = expr_variant_repr(a)
            if s is None:
                return None
            subs.append(s)
        return head + "(" + ",".join(subs) + ")"
    if n.get("k") == "MethodCall" and n["m"] in ("into", "clone") and not n["args"]:
        return expr_variant_repr(n["recv"])
    return None


def ctor_head(n):
    """'Option::Some' for `Some(x)`, 'Option::None' for `None`, 'Type::Bool' ... (constructor expressions only)"""
    n = strip(n)
    if n.get("k") == "Path":
        r = n["res"]
        if r.get("r") in ("def", "selfctor") and str(r.get("dk", "Ctor")).startswith("Ctor"):
            return short_variant(norm(r["path"]))
        return None
    if n.get("k") == "Call" and str(n.get("callee_kind", "")).startswith("Ctor"):
        return short_variant(norm(n["callee"]))
    if n.get("k") == "Struct":
        r = n["res"]
        return short_variant(norm(r.get("path", ""))) if r.get("r") in ("def", "selfctor") else None
    return None


def merge_or(fs):
    """disjunction; `is` atoms over the same scrutinee components are merged into one atom"""
    out = []
    for f in fs:
        if f[0] == "or":
            parts = f[1]
        else:
            parts = [f]
        for g in parts:
            merged = False
            if g[0] == "atom" and g[1].kind == "is":
                for i, o in enumerate(out):
                    if o[0] == "atom" and o[1].kind == "is" and len(o[1].scruts) == len(g[1].scruts) and \
                            all(x.node is y.node for x, y in zip(o[1].scruts, g[1].scruts)):
                        out[i] = F_atom(Atom("is", scruts=o[1].scruts, alts=list(o[1].alts) + list(g[1].alts), frame=o[1].frame))
                        merged = True
                        break
            if not merged:
                out.append(g)
    if len(out) == 1:
        return out[0]
    return ("or", out)


def pat_alts(p):
    """alternatives of a pattern, each a tuple of component reprs (1-tuple unless the pattern is a tuple)"""
    while p.get("k") in ("PRef", "PBox", "PDeref") or (p.get("k") == "PBinding" and p.get("sub")):
        p = p["pat"] if p.get("k") != "PBinding" else p["sub"]
    if p.get("k") == "POr":
        out = []
        for q in p["pats"]:
            out += pat_alts(q)
        return out
    q = p
    if q.get("k") == "PTuple":
        # cartesian product of component alternatives (or-patterns nested in tuples)
        comps = [[a[0] if len(a) == 1 else "(" + ",".join(a) + ")" for a in pat_alts(c)] for c in q["pats"]]
        out = [()]
        for c in comps:
            out = [o + (x,) for o in out for x in c]
        return out
    return [(pat_repr(q),)]


def is_catch_all(alt):
    return all(a == "_" for a in alt)


# ----------------------------------------------------------------------------------------------
# formulas

class Atom:
    __slots__ = ("kind", "scruts", "alts", "op", "l", "r", "node", "frame", "pats")

    def __init__(self, kind, **kw):
        self.kind = kind
        self.pats = kw.get("pats")      # `is` atoms: the pattern nodes the alternatives were read from
        self.scruts = kw.get("scruts")
        self.alts = kw.get("alts")
        self.op = kw.get("op")
        self.l = kw.get("l")
        self.r = kw.get("r")
        self.node = kw.get("node")
        self.frame = kw.get("frame")

    def __repr__(self):
        if self.kind == "is":
            return "Is(%d comps, %s)" % (len(self.scruts), self.alts)
        if self.kind == "cmp":
            return "Cmp(%s)" % self.op
        return "%s(%s)" % (self.kind, (self.node or {}).get("m") or (self.node or {}).get("callee") or (self.node or {}).get("k"))


def F_atom(a):
    return ("atom", a)


def F_not(f):
    if f[0] == "not":
        return f[1]
    if f[0] == "true":
        return ("false",)
    if f[0] == "false":
        return ("true",)
    return ("not", f)


def f_and(fs):
    out = []
    for f in fs:
        if f == ("true",):
            continue
        if f == ("false",):
            return ("false",)
        if f[0] == "and":
            out += f[1]
        else:
            out.append(f)
    if not out:
        return ("true",)
    return out[0] if len(out) == 1 else ("and", out)


def f_or(fs):
    out = []
    for f in fs:
        if f == ("false",):
            continue
        if f == ("true",):
            return ("true",)
        out.append(f)
    if not out:
        return ("false",)
    return merge_or(out)


NEG_OP = {"Eq": "Ne", "Ne": "Eq", "Lt": "Ge", "Ge": "Lt", "Gt": "Le", "Le": "Gt"}
SWAP_OP = {"Eq": "Eq", "Ne": "Ne", "Lt": "Gt", "Gt": "Lt", "Le": "Ge", "Ge": "Le"}


def literals(pc):
    """[(Atom, polarity)] certainly implied by a path condition, plus [disjunctions] (list of literal lists)"""
    lits = []
    ors = []

    def go(f, pol):
        t = f[0]
        if t == "not":
            go(f[1], not pol)
        elif t == "atom":
            lits.append((f[1], pol))
        elif t == "and":
            if pol:
                for g in f[1]:
                    go(g, True)
            else:
                ors.append([(g, False) for g in f[1]])
        elif t == "or":
            if not pol:
                for g in f[1]:
                    go(g, False)
            else:
                ors.append([(g, True) for g in f[1]])
    for f, pol in pc:
        go(f, pol)
    return lits, ors


# ----------------------------------------------------------------------------------------------
# frames and bindings

class Bind:
    __slots__ = ("expr", "frame", "proj", "mutable", "kind", "index", "name", "assigns", "pat", "owner")

    def __init__(self, kind, name, expr=None, frame=None, proj=(), mutable=False, index=None, pat=None, owner=None):
        self.kind = kind          # let | param | arg | pat | closure-param
        self.name = name
        self.expr = expr          # defining expression (let init, call argument, match scrutinee)
        self.frame = frame        # frame in which expr is to be read
        self.proj = proj          # projection of expr this binding denotes
        self.mutable = mutable
        self.index = index
        self.assigns = 0
        self.pat = pat
        self.owner = owner        # closure node for closure params


class Frame:
    def __init__(self, sem, h, parent=None, call=None):
        self.sem = sem
        self.h = h
        self.parent = parent
        self.call = call
        self.binds = {}
        self.depth = 0 if parent is None else parent.depth + 1
        self.fn = norm(h["path"])

    def chain(self):
        out = []
        f = self
        while f is not None:
            out.append(f.fn)
            f = f.parent
        return list(reversed(out))


def _mut(p):
    return str(p.get("mode", "")).rstrip(")").endswith("Mut")


def bind_pattern(frame, pat, expr, proj, kind="let", eframe=None):
    eframe = eframe or frame
    k = pat.get("k")
    if k == "PBinding":
        frame.binds[pat["id"]] = Bind(kind, pat["name"], expr, eframe, proj, _mut(pat), pat=pat)
        if pat.get("sub"):
            bind_pattern(frame, pat["sub"], expr, proj, kind, eframe)
    elif k == "PTuple":
        e = strip(expr) if expr is not None else None
        for i, q in enumerate(pat["pats"]):
            if e is not None and not proj and e.get("k") == "Tup" and len(e["es"]) == len(pat["pats"]) and "ddpos" not in pat:
                bind_pattern(frame, q, e["es"][i], (), kind, eframe)
            else:
                bind_pattern(frame, q, expr, proj + (("t", i),), kind, eframe)
    elif k == "PTupleStruct":
        v = norm(pat["res"].get("path", ""))
        for i, q in enumerate(pat["pats"]):
            bind_pattern(frame, q, expr, proj + (("v", short_variant(v), i),), kind, eframe)
    elif k == "PStruct":
        v = norm(pat["res"].get("path", ""))
        for f in pat["fields"]:
            bind_pattern(frame, f["pat"], expr, proj + (("f", short_variant(v), f["name"]),), kind, eframe)
    elif k in ("PRef", "PBox", "PDeref", "PGuard"):
        bind_pattern(frame, pat["pat"], expr, proj, kind, eframe)
    elif k == "POr":
        for q in pat["pats"]:
            bind_pattern(frame, q, expr, proj, kind, eframe)
    elif k == "PSlice":
        for q in pat.get("before", []) + ([pat["mid"]] if pat.get("mid") else []) + pat.get("after", []):
            bind_pattern(frame, q, expr, proj + (("s",),), kind, eframe)


class Val:
    """a resolved expression: node read in frame, with a projection"""
    __slots__ = ("node", "frame", "proj", "bind")

    def __init__(self, node, frame, proj=(), bind=None):
        self.node = node
        self.frame = frame
        self.proj = proj
        self.bind = bind      # set when resolution stopped at a binding (parameter, mutable local, pattern binding)

    def k(self):
        return self.node.get("k") if self.node is not None else None


class Site:
    """in_closure: tuple of the closure nodes enclosing the node (outermost first; empty = not in a closure)"""
    __slots__ = ("node", "pc", "frame", "in_closure", "in_loop")

    def pc_has_conditions(self):
        """is the node guarded by anything but successful `?`s and loop bookkeeping?"""
        for f, pol in self.pc:
            if f[0] == "atom" and f[1].kind in ("ok", "forall"):
                continue
            if f[0] == "atom" and f[1].kind == "is" and all(a in (("Option::Some",), ("Option::None",)) for a in f[1].alts) and \
                    is_method(f[1].scruts[0].node, "next") is not None:
                continue        # for-loop desugaring
            if f[0] == "not" and f[1][0] == "atom" and f[1][1].kind == "is" and is_method(f[1][1].scruts[0].node, "next") is not None:
                continue
            return True
        return False

    def __init__(self, node, pc, frame, in_closure, in_loop):
        self.node = node
        self.pc = pc
        self.frame = frame
        self.in_closure = in_closure
        self.in_loop = in_loop


# ----------------------------------------------------------------------------------------------

class Sem:
    def __init__(self, crate, h, inline=True, max_depth=2, stop=None, also=None):
        """h: HIR entry of the root function. inline: follow calls to local helpers (same source file, not a
        trait method, not `pub`); `also`: regex of further callee paths to follow; `stop`: regex never followed"""
        self.c = crate
        self.h = h
        self.inline = inline
        self.max_depth = max_depth
        self.stop = re.compile(stop) if stop else None
        self.also = re.compile(also) if also else None
        self.root = Frame(self, h)
        self._file = h.get("span", "").rsplit(":", 1)[0]
        self._sites = None
        self.inlined = []      # (callee path, call site sp)
        self._frames = {}
        self._prepare(self.root, None)

    # -- environment construction
    def _prepare(self, frame, args):
        h = frame.h
        for i, p in enumerate(h.get("params", [])):
            if args is not None and i < len(args):
                bind_pattern(frame, p, args[i], (), "arg", frame.parent)
            else:
                for q in walk(p):
                    if q.get("k") == "PBinding":
                        frame.binds[q["id"]] = Bind("param", q["name"], None, frame, (), _mut(q), index=i, pat=q)
        for n in walk(h["body"]):
            k = n.get("k")
            if k == "SLet":
                if "init" in n:
                    bind_pattern(frame, n["pat"], n["init"], ())
                else:
                    for q in walk(n["pat"]):
                        if q.get("k") == "PBinding":
                            frame.binds[q["id"]] = Bind("let", q["name"], None, frame, (), True, pat=q)
            elif k == "Match":
                sc = n["scrut"]
                if is_try(n):
                    continue
                loopvar = n.get("src") == "ForLoopDesugar" and sc.get("k") == "Call" and norm(sc.get("callee", "")).endswith("Iterator::next")
                for a in n["arms"]:
                    bind_pattern(frame, a["pat"], sc, (), "loopvar" if loopvar else "pat")
            elif k == "LetExpr":
                bind_pattern(frame, n["pat"], n["init"], (), "pat")
            elif k == "Closure":
                for i, p in enumerate(n.get("params", [])):
                    for q in walk(p):
                        if q.get("k") == "PBinding":
                            frame.binds[q["id"]] = Bind("closure-param", q["name"], None, frame, (("elem",),), _mut(q), index=i, pat=q, owner=n)
        # a closure passed to a method call: its parameters stand for (parts of) the receiver
        for n in walk(h["body"]):
            if n.get("k") == "MethodCall":
                for a in n["args"]:
                    c = closure_of(a)
                    if c is not None:
                        for p in c.get("params", []):
                            for q in walk(p):
                                if q.get("k") == "PBinding" and q["id"] in frame.binds:
                                    frame.binds[q["id"]].expr = n["recv"]
        for n in walk(h["body"]):
            if n.get("k") in ("Assign", "AssignOp"):
                l = n["l"]
                while l.get("k") in ("Field", "Index", "Unary", "Tup"):
                    if l.get("k") == "Tup":
                        break
                    l = l["e"]
                targets = l["es"] if l.get("k") == "Tup" else [l]
                for t in targets:
                    r = path_res(t)
                    if r and r.get("r") == "local" and r["id"] in frame.binds:
                        frame.binds[r["id"]].assigns += 1
            elif n.get("k") == "AddrOf" and n.get("mut"):
                r = path_res(n["e"])
                if r and r.get("r") == "local" and r["id"] in frame.binds:
                    frame.binds[r["id"]].assigns += 1
            elif n.get("k") == "MethodCall" and "aty" in n.get("recv", {}) and str(n["recv"].get("aty", "")).startswith("&mut"):
                r = path_res(n["recv"])
                if r and r.get("r") == "local" and r["id"] in frame.binds and not str(n["recv"].get("ty", "")).startswith("&mut"):
                    frame.binds[r["id"]].assigns += 1

    # -- resolution
    def lookup(self, node, frame):
        r = path_res(node)
        if r and r.get("r") == "local":
            return frame.binds.get(r["id"])
        return None

    def resolve(self, node, frame, limit=12):
        """follow immutable single-definition bindings to the defining expression"""
        proj = ()
        while limit > 0:
            limit -= 1
            n = peel(node)
            b = self.lookup(n, frame)
            if b is None:
                return Val(n, frame, proj)
            if b.expr is None or b.assigns or (b.mutable and b.assigns):
                return Val(n, frame, proj, b)
            if b.kind in ("pat", "loopvar"):
                # a pattern binding denotes a part of the scrutinee: stop, but tell what it is part of
                return Val(n, frame, proj, b)
            if b.proj:
                e, ef, p = self.project(b.expr, b.frame, b.proj)
                if p:
                    return Val(n, frame, proj, b)
                node, frame = e, ef
                continue
            node, frame = b.expr, b.frame
        return Val(peel(node), frame, proj)

    def project(self, expr, frame, proj, depth=0):
        """apply tuple projections to an expression: through tuple literals and through the tail of inlined local helpers.
        Returns (node, frame, remaining projection)"""
        e, tried = peel_try(expr)
        p = tuple(proj)
        while p and p[0][0] == "t" and depth < 4:
            if e.get("k") == "Tup" and p[0][1] < len(e["es"]):
                e = peel(e["es"][p[0][1]])
                p = p[1:]
                continue
            if e.get("k") in ("Call", "MethodCall"):
                h2 = self.should_inline(e, frame)
                if h2 is not None:
                    f2 = self._enter(h2, e, frame)
                    t, tf = tail_value(self, h2["body"], f2)
                    b = self.lookup(t, tf)
                    if b is not None and b.expr is not None and not b.assigns and not b.proj:
                        t, tf = peel(b.expr), b.frame
                    t = peel(t)
                    if tried and ctor_head(t) in ("Result::Ok", "Option::Some") and len(t.get("args", [])) == 1:
                        # `helper(..)?`: the value is the payload of the helper's success result
                        t, tried2 = peel_try(t["args"][0])
                        tried = tried2
                    elif tried:
                        break
                    e, frame = t, tf
                    depth += 1
                    continue
            if e.get("k") == "Path":
                b = self.lookup(e, frame)
                if b is not None and b.expr is not None and not b.assigns and not b.proj and b.kind in ("let", "arg"):
                    e, t2 = peel_try(b.expr)
                    tried = tried or t2
                    frame = b.frame
                    depth += 1
                    continue
            break
        return e, frame, p

    def same(self, a, fa, b, fb):
        """do two expressions denote the same value (same binding, or same resolved node)?"""
        va, vb = self.resolve(a, fa), self.resolve(b, fb)
        if va.node is vb.node:
            return True
        ba, bb = self.lookup(va.node, va.frame), self.lookup(vb.node, vb.frame)
        if ba is not None and ba is bb:
            return True
        return _struct_eq(va.node, vb.node)

    # -- inlining
    def callee_hir(self, call):
        for key in ("resolved_dp", "callee_dp"):
            d = call.get(key)
            if d and d in self.c.hir_by_dp and "body" in self.c.hir_by_dp[d]:
                return self.c.hir_by_dp[d]
        return None

    def should_inline(self, call, frame):
        if not self.inline or frame.depth >= self.max_depth:
            return None
        h2 = self.callee_hir(call)
        if h2 is None:
            return None
        p = norm(h2["path"])
        if p in frame.chain():
            return None
        if self.stop and self.stop.search(p):
            return None
        if self.also and self.also.search(p):
            return h2
        it = self.c.item_by_dp.get(h2["dp"])
        if it is None or "::tests::" in p:
            return None
        if it.get("parent_kind", "").startswith("Impl { of_trait: true"):
            return None
        if it.get("vis") == "Public":
            return None
        if h2.get("span", "").rsplit(":", 1)[0] != self._file:
            return None
        return h2

    # -- formulas
    def formula(self, cond, frame, depth=0):
        n = strip(cond)
        k = n.get("k")
        if depth > 8:
            return F_atom(Atom("opaque", node=n, frame=frame))
        if k == "Lit" and n["lit"].get("t") == "bool":
            return ("true",) if n["lit"]["v"] else ("false",)
        if k == "Unary" and n.get("op") == "Not":
            return F_not(self.formula(n["e"], frame, depth + 1))
        if k == "Binary" and n["op"] in ("And", "Or"):
            return ("and" if n["op"] == "And" else "or", [self.formula(n["l"], frame, depth + 1), self.formula(n["r"], frame, depth + 1)])
        if k == "LetExpr":
            return self._is(n["init"], [n["pat"]], frame)
        if k == "Match" and not is_try(n):
            vals = []
            for a in n["arms"]:
                t = tail(a["body"])
                if t.get("k") == "Lit" and t["lit"].get("t") == "bool" and "guard" not in a:
                    vals.append(t["lit"]["v"])
                else:
                    vals = None
                    break
            if vals is not None:
                true_arms = [a for a, v in zip(n["arms"], vals) if v]
                false_arms = [a for a, v in zip(n["arms"], vals) if not v]
                t_all = any(is_catch_all(x) for a in true_arms for x in pat_alts(a["pat"]))
                if not t_all:
                    return self._is(n["scrut"], [a["pat"] for a in true_arms], frame)
                return F_not(self._is(n["scrut"], [a["pat"] for a in false_arms], frame))
        if k == "If" and "else" in n:
            t, e = tail(n["then"]), tail(n["else"])
            c = self.formula(n["cond"], frame, depth + 1)
            ft, fe = self.formula(t, frame, depth + 1), self.formula(e, frame, depth + 1)
            if ft == ("true",) and fe == ("false",):
                return c
            if ft == ("false",) and fe == ("true",):
                return F_not(c)
            return ("or", [("and", [c, ft]), ("and", [F_not(c), fe])])
        if k == "Binary" and n["op"] in NEG_OP:
            l, r = n["l"], n["r"]
            vr, vl = self.variant_repr(r, frame), self.variant_repr(l, frame)
            if n["op"] in ("Eq", "Ne") and (vr or vl) and not (vr and vl):
                other = l if vr else r
                a = Atom("is", scruts=[Val(peel(other), frame)], alts=[(vr or vl,)], frame=frame)
                f = F_atom(a)
                return f if n["op"] == "Eq" else F_not(f)
            return F_atom(Atom("cmp", op=n["op"], l=Val(peel(l), frame), r=Val(peel(r), frame), node=n, frame=frame))
        if k == "Path":
            b = self.lookup(n, frame)
            if b is not None and b.expr is not None and not b.assigns and not b.proj and b.kind in ("let", "arg"):
                return self.formula(b.expr, b.frame, depth + 1)
            return F_atom(Atom("local", node=n, frame=frame))
        if k in ("Call", "MethodCall"):
            # matches!-like std helpers
            if k == "MethodCall" and n["m"] in ("is_some", "is_ok", "is_none", "is_err") and not n["args"]:
                which = {"is_some": "Option::Some", "is_none": "Option::None", "is_ok": "Result::Ok", "is_err": "Result::Err"}[n["m"]]
                return F_atom(Atom("is", scruts=[Val(peel(n["recv"]), frame)], alts=[(which,)], node=n, frame=frame))
            h2 = self.should_inline(n, frame)
            if h2 is not None and h2["body"].get("ty", "bool") in ("bool",):
                f2 = self._enter(h2, n, frame)
                f = self.returns_true(h2["body"], f2, depth + 1)
                if f is not None:
                    return f
            return F_atom(Atom("call", node=n, frame=frame))
        if k == "Block" and n.get("expr") is not None and all(s.get("k") == "SLet" for s in n.get("stmts", [])):
            return self.formula(n["expr"], frame, depth + 1)
        return F_atom(Atom("opaque", node=n, frame=frame))

    def returns_true(self, body, frame, depth=0):
        """formula under which a bool-valued block evaluates (or returns) true: handles `let`s, early
        `if c { return <bool>; }` exits and the tail expression; None when the shape is not understood"""
        b = strip(body)
        if b.get("k") != "Block":
            return self.formula(b, frame, depth)
        acc = []
        outs = []
        for st in b.get("stmts", []):
            if st.get("k") == "SLet":
                continue
            e = strip(st.get("e", {}))
            if e.get("k") == "If" and "else" not in e and diverges(e["then"]):
                rets = [r for r in exprs(e["then"], "Ret", into_closures=False)]
                if len(rets) != 1 or "e" not in rets[0]:
                    return None
                c = self.formula(e["cond"], frame, depth + 1)
                outs.append(f_and(acc + [c, self.formula(rets[0]["e"], frame, depth + 1)]))
                acc = acc + [F_not(c)]
                continue
            if list(exprs(e, "Ret", into_closures=False)):
                return None
        if b.get("expr") is None:
            return None
        outs.append(f_and(acc + [self.formula(b["expr"], frame, depth + 1)]))
        return f_or(outs)

    def variant_repr(self, n, frame):
        """the variant value an expression denotes, also through a local zero-argument function returning one"""
        v = self.resolve(n, frame)
        r = expr_variant_repr(v.node)
        if r is None and v.node.get("k") == "Call" and not v.node.get("args"):
            h2 = self.callee_hir(v.node)
            if h2 is not None:
                r = expr_variant_repr(tail(h2["body"]))
        return r

    def _is(self, scrut, pats, frame, depth=0):
        sc = strip(scrut)
        alts = []
        for p in pats:
            alts += pat_alts(p)
        v = self.resolve(sc, frame)
        # a scrutinee that is itself a match / if whose arms yield constructor values: `is` distributes over the arms
        vn = strip(v.node)
        vframe = v.frame
        if depth < 3 and not v.proj and v.bind is None and vn.get("k") in ("Call", "MethodCall") and not is_try(vn):
            # the verdict of a private helper whose body ends in a match / if over constructor values: read in the helper
            h2 = self.should_inline(vn, v.frame)
            if h2 is not None:
                f2 = self._enter(h2, vn, v.frame)
                t2, tf2 = tail_value(self, h2["body"], f2)
                if strip(t2).get("k") in ("Match", "If") and not [r_ for r_ in exprs(h2["body"], "Ret", into_closures=False) if not r_.get("x")]:
                    vn, vframe = strip(t2), tf2
        if depth < 3 and not v.proj and v.bind is None and vn.get("k") in ("Match", "If") and not is_try(vn) and \
                all(len(a) == 1 and "(" not in a[0] and "{" not in a[0] and a[0] not in ("?",) for a in alts):
            f = self._is_of_branches(vn, {a[0] for a in alts}, vframe, depth)
            if f is not None:
                return f
        if strip(v.node).get("k") == "Tup" and not v.proj and v.bind is None and alts and \
                all(len(a) == len(strip(v.node)["es"]) and all(c in ("lit:True", "lit:False", "_") for c in a) for a in alts) and \
                any(c != "_" for a in alts for c in a):
            # `match (a < b, c > d) { (true, false) => .. }`: a tuple of conditions matched against boolean literals is the
            # conjunction of those conditions
            es = strip(v.node)["es"]
            ors_ = []
            for a in alts:
                parts = []
                for c, e_ in zip(a, es):
                    if c == "_":
                        continue
                    f_ = self.formula(e_, v.frame, depth + 1)
                    parts.append(f_ if c == "lit:True" else F_not(f_))
                ors_.append(f_and(parts))
            return f_or(ors_)
        if strip(v.node).get("k") == "Tup" and not v.proj and v.bind is None:
            comps = [Val(strip(x), v.frame) for x in strip(v.node)["es"]]
            # make alternatives as wide as the tuple
            alts2 = []
            for a in alts:
                if len(a) == len(comps):
                    alts2.append(a)
                elif is_catch_all(a):
                    alts2.append(tuple("_" for _ in comps))
                else:
                    alts2.append(a + tuple("_" for _ in range(len(comps) - len(a))))
            return F_atom(Atom("is", scruts=comps, alts=alts2, frame=frame, pats=list(pats)))
        alts = [a if len(a) == 1 else ("(" + ",".join(a) + ")",) for a in alts]
        return F_atom(Atom("is", scruts=[Val(strip(sc), frame)], alts=alts, frame=frame, pats=list(pats)))

    def _is_of_branches(self, vn, heads, frame, depth):
        branches = []     # (condition formula, ctor head or None when it diverges)
        if vn.get("k") == "If":
            if "else" not in vn:
                return None
            c = self.formula(vn["cond"], frame)
            branches = [(c, vn["then"]), (F_not(c), vn["else"])]
        else:
            prev = []
            for a in vn["arms"]:
                if "guard" in a:
                    return None
                specific = not any(is_catch_all(x) for x in pat_alts(a["pat"]))
                if specific:
                    c = self._is(vn["scrut"], [a["pat"]], frame, depth + 1)
                    prev.append(a["pat"])
                else:
                    c = F_not(self._is(vn["scrut"], list(prev), frame, depth + 1)) if prev else ("true",)
                branches.append((c, a["body"]))
        take = []
        for c, body in branches:
            if diverges(body):
                continue
            t = tail(body)
            if t.get("k") in ("Match", "If") and not is_try(t) and depth < 5:
                # a nested decision: the value is chosen further down
                sub = self._is_of_branches(t, heads, frame, depth + 1)
                if sub is None:
                    return None
                take.append(f_and([c, sub]))
                continue
            h = ctor_head(t)
            if h is None:
                return None
            if h in heads or "_" in heads:
                take.append(c)
        if not take:
            return ("false",)
        return merge_or(take)

    def _enter(self, h2, call, frame):
        key = (id(call), id(frame))
        if key in self._frames:
            return self._frames[key]
        f2 = Frame(self, h2, frame, call)
        args = call_args(call)
        self._prepare(f2, args)
        self._frames[key] = f2
        self.inlined.append((norm(h2["path"]), call.get("sp", "")))
        return f2

    # -- the walk
    def sites(self):
        if self._sites is None:
            self._sites = list(self._visit(self.h["body"], (), self.root, (), False))
        return self._sites

    def _narrow_after(self, st, frame):
        """conditions that hold for the statements after `st` in the same block"""
        out = []
        k = st.get("k")
        e = None
        if k in ("SSemi", "SExpr"):
            e = strip(st["e"])
        elif k == "SLet":
            if "els" in st and "init" in st:
                out.append((self._is(st["init"], [st["pat"]], frame), True))
            if "init" in st:
                e = strip(st["init"])
        if e is None:
            return out
        # `?` on the unconditional spine
        for t in _spine(e):
            if is_try(t):
                inner = peel(try_inner(t))
                out.append((F_atom(Atom("ok", node=inner, frame=frame)), True))
                if inner.get("k") in ("Call", "MethodCall") and frame.depth < self.max_depth:
                    fo = self.ok_formula(inner, frame)
                    if fo is not None and fo != ("true",):
                        out.append((fo, True))
        f = self.survive(e, frame)
        if f != ("true",):
            out.append((f, True))
        return out

    def survive(self, e, frame, depth=0, with_try=False):
        """formula under which control flows past the expression (some branch does not diverge)"""
        e = strip(e)
        if diverges(e):
            return ("false",)
        if depth > 6:
            return ("true",)
        k = e.get("k")
        if k == "Match" and is_try(e):
            if not with_try:
                return ("true",)     # `?` on the spine is recorded by _narrow_after; elsewhere it is not a branch of interest
            inner = peel(try_inner(e))
            parts = [F_atom(Atom("ok", node=inner, frame=frame))]
            if inner.get("k") in ("Call", "MethodCall") and frame.depth < self.max_depth:
                fo = self.ok_formula(inner, frame)
                if fo is not None:
                    parts.append(fo)
            return f_and(parts)
        if k == "If":
            t = self.survive(e["then"], frame, depth + 1, with_try)
            f = self.survive(e["else"], frame, depth + 1, with_try) if "else" in e else ("true",)
            if t == ("true",) and f == ("true",):
                return ("true",)
            c = self.formula(e["cond"], frame)
            return f_or([f_and([c, t]), f_and([F_not(c), f])])
        if k == "Match" and e.get("src") == "ForLoopDesugar":
            sc = strip(e["scrut"])
            if sc.get("k") == "Call" and norm(sc.get("callee", "")).endswith("IntoIterator::into_iter") and sc.get("args"):
                # after `for x in it { .. }` without a user-written break, every iteration ran to its end
                user_breaks = [b for b in exprs(e, "Break", into_closures=False) if not b.get("x")]
                body = None
                for m in exprs(e, "Match"):
                    if m is not e and m.get("src") == "ForLoopDesugar":
                        for a in m["arms"]:
                            if pat_repr(a["pat"]).startswith("Option::Some"):
                                body = a
                        break
                if body is not None and not user_breaks:
                    fb = self.survive(body["body"], frame, depth + 1, True)
                    return F_atom(Atom("forall", node=e, l=Val(peel(sc["args"][0]), frame), r=fb, scruts=[body["pat"]], frame=frame))
            return ("true",)
        if k == "Match" and not is_try(e):
            if all(self.survive(a["body"], frame, depth + 1, with_try) == ("true",) for a in e["arms"]):
                return ("true",)
            parts = []
            prev = []
            for a in e["arms"]:
                specific = not any(is_catch_all(x) for x in pat_alts(a["pat"]))
                if specific:
                    c = self._is(e["scrut"], [a["pat"]], frame)
                else:
                    c = F_not(self._is(e["scrut"], list(prev), frame)) if prev else ("true",)
                if "guard" in a:
                    c = f_and([c, self.formula(a["guard"], frame)])
                elif specific:
                    prev.append(a["pat"])
                parts.append(f_and([c, self.survive(a["body"], frame, depth + 1, with_try)]))
            return f_or(parts)
        if k == "Block":
            parts = []
            for st in e.get("stmts", []):
                if st.get("k") in ("SSemi", "SExpr"):
                    parts.append(self.survive(st["e"], frame, depth + 1, with_try))
                elif st.get("k") == "SLet" and "init" in st:
                    parts.append(self.survive(st["init"], frame, depth + 1, with_try))
                    if "els" in st:
                        parts.append(self._is(st["init"], [st["pat"]], frame))
            if e.get("expr") is not None:
                parts.append(self.survive(e["expr"], frame, depth + 1, with_try))
            return f_and(parts)
        if k in ("Assign", "AssignOp", "Call", "MethodCall", "Unary", "Cast", "AddrOf", "Field", "Index", "Tup", "Struct", "Use", "Type") and depth < 6:
            # `x = match y { A(v) => v, _ => return .. }`, `f(match ..)`: control flows on only if every operand was evaluated
            parts = [self.survive(c, frame, depth + 1, with_try) for c in children(e) if c.get("k") not in (None, "Closure") and
                     not str(c.get("k", "")).startswith("P")]
            return f_and(parts)
        return ("true",)

    def _visit(self, n, pc, frame, in_closure, in_loop):
        k = n.get("k")
        if k is None:
            # arms / fields wrappers
            for c in children(n):
                yield from self._visit(c, pc, frame, in_closure, in_loop)
            return
        if k.startswith("P") and k[1:2].isupper():
            return
        if k == "Block":
            yield Site(n, pc, frame, in_closure, in_loop)
            cur = pc
            for st in n.get("stmts", []):
                yield from self._visit(st, cur, frame, in_closure, in_loop)
                extra = self._narrow_after(st, frame)
                if extra:
                    cur = cur + tuple(extra)
            if n.get("expr") is not None:
                yield from self._visit(n["expr"], cur, frame, in_closure, in_loop)
            return
        if k in ("SLet",):
            if "init" in n:
                yield from self._visit(n["init"], pc, frame, in_closure, in_loop)
            if "els" in n:
                yield from self._visit(n["els"], pc + ((self._is(n["init"], [n["pat"]], frame), False),), frame, in_closure, in_loop)
            return
        if k in ("SSemi", "SExpr"):
            yield from self._visit(n["e"], pc, frame, in_closure, in_loop)
            return
        if k == "SItem":
            # nested items (impls, fns) are not evaluated, but rules ask under which arm they are declared
            yield Site(n, pc, frame, in_closure, in_loop)
            return
        yield Site(n, pc, frame, in_closure, in_loop)
        if k == "If":
            f = self.formula(n["cond"], frame)
            yield from self._visit(n["cond"], pc, frame, in_closure, in_loop)
            yield from self._visit(n["then"], pc + ((f, True),), frame, in_closure, in_loop)
            if "else" in n:
                yield from self._visit(n["else"], pc + ((f, False),), frame, in_closure, in_loop)
            return
        if k == "Match":
            yield from self._visit(n["scrut"], pc, frame, in_closure, in_loop)
            if is_try(n):
                return
            prev = []
            prev_guarded = []      # (pattern formula, guard formula) of earlier guarded arms: not both held
            for a in n["arms"]:
                conds = []
                alts = pat_alts(a["pat"])
                if not any(is_catch_all(x) for x in alts):
                    conds.append((self._is(n["scrut"], [a["pat"]], frame), True))
                for p in prev:
                    conds.append((self._is(n["scrut"], [p], frame), False))
                for pf, gf in prev_guarded:
                    conds.append((f_and([pf, gf]), False))
                apc = pc + tuple(conds)
                if "guard" in a:
                    yield from self._visit(a["guard"], apc, frame, in_closure, in_loop)
                    gf = self.formula(a["guard"], frame)
                    apc = apc + ((gf, True),)
                    prev_guarded.append((self._is(n["scrut"], [a["pat"]], frame) if not any(is_catch_all(x) for x in alts) else ("true",), gf))
                else:
                    if not any(is_catch_all(x) for x in alts):
                        prev.append(a["pat"])
                yield from self._visit(a["body"], apc, frame, in_closure, in_loop)
            return
        if k == "Binary" and n.get("op") in ("And", "Or"):
            f = self.formula(n["l"], frame)
            yield from self._visit(n["l"], pc, frame, in_closure, in_loop)
            yield from self._visit(n["r"], pc + ((f, n["op"] == "And"),), frame, in_closure, in_loop)
            return
        if k == "Closure":
            yield from self._visit(n["body"], pc, frame, tuple(in_closure) + (n,), in_loop)
            return
        if k == "Loop":
            yield from self._visit(n["body"], pc, frame, in_closure, True)
            return
        for c in children(n):
            yield from self._visit(c, pc, frame, in_closure, in_loop)
        if k in ("Call", "MethodCall"):
            h2 = self.should_inline(n, frame)
            if h2 is not None:
                f2 = self._enter(h2, n, frame)
                yield from self._visit(h2["body"], pc, f2, in_closure, in_loop)

    def closure_leaves(self, clo):
        """value expressions a closure can return (tail leaves and explicit returns written in the closure itself)"""
        home = [s.frame for s in self.sites() if s.node is clo]
        return self._leaves(clo["body"], lambda s: bool(s.in_closure) and s.in_closure[-1] is clo and (not home or s.frame is home[0]))

    # -- result leaves of the root function: value expressions it can return, with their path conditions
    def result_leaves(self):
        return self._leaves(self.h["body"], lambda s: s.frame is self.root and not s.in_closure)

    def ok_formula(self, call, frame):
        """for `helper(..)?` on a private helper of the same file: the condition under which the helper returns Ok / Some,
        i.e. the disjunction of the path conditions of its success leaves (None if the helper is not followed)"""
        h2 = self.should_inline(call, frame)
        if h2 is None:
            return None
        f2 = self._enter(h2, call, frame)
        sites2 = list(self._visit(h2["body"], (), f2, (), False))
        leaves = self._leaves(h2["body"], lambda s_: s_.frame is f2 and not s_.in_closure, sites2)
        good = []
        for x in leaves:
            n = strip(x.node)
            head = ctor_head(n)
            if head in ("Result::Ok", "Option::Some"):
                good.append(f_and([f if pol else F_not(f) for f, pol in x.pc]))
            elif head in ("Result::Err", "Option::None"):
                continue
            else:
                return None       # a leaf whose outcome is not evident (e.g. another fallible call)
        if not good:
            return None
        return f_or(good)

    def _single_def(self, n, frames):
        """the initialiser of the immutable, never re-assigned `let x = init;` that the path `x` names (any frame)"""
        r = path_res(n)
        if not r or r.get("r") != "local":
            return None
        for fr in frames:
            b = fr.binds.get(r["id"])
            if b is not None:
                if b.kind == "let" and b.expr is not None and not b.assigns and not b.proj and not b.mutable and b.pat is not None and \
                        b.pat.get("k") == "PBinding" and not b.pat.get("sub"):
                    return b.expr
                return None
        return None

    def _leaves(self, body, own, sites=None):
        out = []
        all_sites = sites if sites is not None else self.sites()
        site_of = {id(s.node): s for s in all_sites if own(s)}
        frames = []
        for s_ in all_sites:
            if own(s_) and all(s_.frame is not f for f in frames):
                frames.append(s_.frame)

        def leaves(n, into):
            n0 = n
            n = strip(n)
            k = n.get("k")
            if k == "Block" and n.get("expr") is not None:
                leaves(n["expr"], into)
            elif k == "If" and "else" in n:
                leaves(n["then"], into)
                leaves(n["else"], into)
            elif k == "Match" and not is_try(n):
                for a in n["arms"]:
                    leaves(a["body"], into)
            elif k in ("Ret", "Break", "Continue") or n.get("ty") == "!":
                pass
            elif k == "Path" and self._single_def(n, frames) is not None and depth[0] < 6:
                # `let r = <expr>; r`: the leaves of <expr>
                depth[0] += 1
                leaves(self._single_def(n, frames), into)
                depth[0] -= 1
            else:
                into.append(n)
        depth = [0]
        top = []
        leaves(body, top)
        for s in all_sites:
            if own(s) and s.node.get("k") == "Ret" and "e" in s.node and not s.node.get("x"):
                leaves(s.node["e"], top)
        for n in top:
            s = site_of.get(id(n))
            if s is None:
                # stripped wrappers: find the innermost site containing it
                for cand in all_sites:
                    if own(cand) and strip(cand.node) is n:
                        s = cand
                        break
            if s is not None:
                out.append(s)
        return out


def _spine(e):
    """nodes evaluated unconditionally when e is evaluated (no descent into branches, closures, loops, && / || rhs)"""
    st = [e]
    while st:
        n = st.pop()
        k = n.get("k")
        if k is None:
            st.extend(children(n))
            continue
        yield n
        if k in ("Closure", "Loop", "If"):
            if k == "If":
                st.append(n["cond"])
            continue
        if k == "Match":
            st.append(n["scrut"])
            continue
        if k == "Binary" and n.get("op") in ("And", "Or"):
            st.append(n["l"])
            continue
        if k == "Block":
            # statements of a block run unconditionally up to the first diverging one; keep simple: all of them
            for s in n.get("stmts", []):
                if s.get("k") == "SLet" and "init" in s:
                    st.append(s["init"])
                elif s.get("k") in ("SSemi", "SExpr"):
                    st.append(s["e"])
            if n.get("expr") is not None:
                st.append(n["expr"])
            continue
        st.extend(children(n))


def _struct_eq(a, b, depth=0):
    """structural equality of two pure expressions (paths, fields, method calls without closures)"""
    if depth > 6:
        return False
    a, b = strip(a), strip(b)
    if a.get("k") != b.get("k"):
        return False
    k = a.get("k")
    if k == "Path":
        ra, rb = a["res"], b["res"]
        if ra.get("r") != rb.get("r"):
            return False
        if ra.get("r") == "local":
            return ra["id"] == rb["id"] and ra["name"] == rb["name"]
        return ra.get("path") == rb.get("path")
    if k == "Field":
        return a["name"] == b["name"] and _struct_eq(a["e"], b["e"], depth + 1)
    if k == "MethodCall":
        return a["m"] == b["m"] and len(a["args"]) == len(b["args"]) and _struct_eq(a["recv"], b["recv"], depth + 1) and \
            all(_struct_eq(x, y, depth + 1) for x, y in zip(a["args"], b["args"]))
    if k == "Call":
        return a.get("callee") == b.get("callee") and a.get("callee") is not None and len(a["args"]) == len(b["args"]) and \
            all(_struct_eq(x, y, depth + 1) for x, y in zip(a["args"], b["args"]))
    if k == "Lit":
        return a["lit"] == b["lit"]
    return False


# ----------------------------------------------------------------------------------------------
# queries used by rules

def is_literals(pc):
    """[(scruts, alts, polarity)] of the Is-atoms that certainly hold (True) or certainly fail (False)"""
    lits, _ = literals(pc)
    return [(a, pol) for a, pol in lits if a.kind == "is"]


def admits(pc, pred_val, allowed):
    """the path condition restricts some scrutinee component satisfying pred_val(Val) to variants within `allowed`
    (a set of variant reprs). Returns the set of variants admitted (None if unrestricted)."""
    best = None
    for a, pol in is_literals(pc):
        if not pol:
            continue
        for i, v in enumerate(a.scruts):
            if not pred_val(v):
                continue
            vs = {alt[i] for alt in a.alts}
            if "_" in vs:
                continue
            best = vs if best is None else (best & vs)
    return best


def variant_head(s):
    """'Type::Array(_)' / 'Type::Array' / 'Option::Some(Type::Bool)' -> head before any '(' or '{'"""
    for i, ch in enumerate(s):
        if ch in "({":
            return s[:i]
    return s


# ----------------------------------------------------------------------------------------------
# comparisons found in a path condition

CANON = {"Lt": ("Lt", False), "Le": ("Le", False), "Gt": ("Lt", True), "Ge": ("Le", True), "Eq": ("Eq", False), "Ne": ("Ne", False)}


def _canon(op, l, r, pol):
    if not pol:
        op = NEG_OP[op]
    op2, swap = CANON[op]
    return (op2, r, l) if swap else (op2, l, r)


def weak_cmps(pc):
    """every comparison that occurs in the conditions of a path condition (also inside disjunctions, closures passed
    to is_some_and & co), with the polarity it has on this path, canonicalised to Lt/Le/Eq/Ne:
    [(op, left node, right node, frame, certain)]; certain = it is a literal of the path condition"""
    out = []

    def from_expr(n, pol, frame):
        n = strip(n)
        k = n.get("k")
        if k == "Unary" and n.get("op") == "Not":
            return from_expr(n["e"], not pol, frame)
        if k == "Binary" and n["op"] in NEG_OP:
            out.append(_canon(n["op"], n["l"], n["r"], pol) + (frame, False))
            return
        for c in children(n):
            from_expr(c, pol, frame)

    def go(f, pol, certain):
        t = f[0]
        if t == "not":
            go(f[1], not pol, certain)
        elif t in ("and", "or"):
            sure = certain and ((t == "and") == pol)
            for g in f[1]:
                go(g, pol, sure)
        elif t == "atom":
            a = f[1]
            if a.kind == "cmp":
                out.append(_canon(a.op, a.l.node, a.r.node, pol) + (a.frame, certain))
            elif a.kind in ("call", "opaque") and a.node is not None:
                from_expr(a.node, pol, a.frame)
            elif a.kind == "forall" and pol:
                go(a.r, True, False)
    for f, pol in pc:
        go(f, pol, True)
    return out


def locals_in(S, n, frame, seen=None, depth=0):
    """bindings referenced by an expression, following immutable lets: [Bind]"""
    out = []
    seen = seen if seen is not None else set()
    for p in exprs(n, "Path"):
        b = S.lookup(p, frame)
        if b is None or id(b) in seen:
            continue
        seen.add(id(b))
        out.append(b)
        if b.expr is not None and not b.assigns and b.kind in ("let", "arg") and depth < 6:
            out += locals_in(S, b.expr, b.frame, seen, depth + 1)
    return out


def bind_from_call(b, callee_re, proj=None):
    """the binding is (a projection of) the result of a call whose callee matches callee_re"""
    if b is None or b.expr is None:
        return False
    e = peel(b.expr)
    if e.get("k") not in ("Call", "MethodCall"):
        return False
    c = norm(e.get("resolved") or e.get("callee") or "")
    c0 = norm(e.get("callee") or "")
    if not (re.search(callee_re, c) or re.search(callee_re, c0)):
        return False
    return proj is None or tuple(b.proj) == tuple(proj)


def root_local(S, n, frame):
    """the binding at the root of a place-like expression (x, x.f, x.0, x[i], *x, &x, x.method())"""
    n = peel(n)
    while True:
        k = n.get("k")
        if k in ("Field", "Index", "Cast"):
            n = peel(n["e"])
        elif k == "MethodCall":
            n = peel(n["recv"])
        elif k == "Unary" and n.get("op") == "Deref":
            n = peel(n["e"])
        else:
            break
    return S.lookup(n, frame)


def is_method(n, name, callee_re=None):
    """n is `x.name()` or the UFCS call `Trait::name(x)`; returns the receiver node or None"""
    n = peel(n)
    if n.get("k") == "MethodCall" and n["m"] == name:
        if callee_re is None or re.search(callee_re, norm(n.get("callee", ""))):
            return n["recv"]
    if n.get("k") == "Call" and last_seg(norm(n.get("callee", ""))) == name and n.get("args"):
        if callee_re is None or re.search(callee_re, norm(n.get("callee", ""))):
            return n["args"][0]
    return None


BOOLS = ["lit:True", "lit:False"]


def admitted_tuples(pc, preds, universes):
    """tuples over `universes` (lists of variant names like 'Type::Array') that the path condition does not refute,
    reading its `is` atoms on the scrutinee components selected by preds (one predicate per position) and, for positions
    whose universe is BOOLS, the booleans tested directly; every other atom is unknown (three-valued evaluation)"""
    import itertools

    def atom_val(a, t):
        if a.kind in ("call", "local", "opaque") and a.node is not None:
            # a boolean tested directly (`if flag`, `if f()`): the position's value is 'lit:True' / 'lit:False'
            v = Val(a.node, a.frame)
            for pos, pr in enumerate(preds):
                if pr(v) and set(universes[pos]) <= {"lit:True", "lit:False"}:
                    return t[pos] == "lit:True"
            return None
        if a.kind != "is":
            return None
        idx = []
        for pr in preds:
            j = None
            for i, v in enumerate(a.scruts):
                if pr(v):
                    j = i
                    break
            idx.append(j)
        if all(j is None for j in idx):
            return None
        used = {j for j in idx if j is not None}
        loose = exact = False
        for alt in a.alts:
            ok = True
            pure = True
            for pos, j in enumerate(idx):
                if j is None:
                    continue
                c = alt[j]
                if c == "_":
                    continue
                if variant_head(c) != t[pos]:
                    ok = False
                    break
                if c != variant_head(c):
                    pure = False
            if not ok:
                continue
            loose = True
            if pure and all(c == "_" for i, c in enumerate(alt) if i not in used):
                exact = True
        if exact:
            return True
        if not loose:
            return False
        return None

    def akey(a):
        if a.kind == "is":
            return ("is", tuple(id(v.node) for v in a.scruts), tuple(tuple(x) for x in a.alts))
        if a.kind == "cmp":
            return ("cmp", a.op, id(a.l.node), id(a.r.node))
        return (a.kind, id(a.node))
    # atoms the path condition asserts outright: inside a compound formula the same test has that value
    known = {}
    for f0, pol0 in pc:
        g = f0
        while g[0] == "not":
            g, pol0 = g[1], not pol0
        if g[0] == "atom":
            known[akey(g[1])] = pol0

    def ev(f, t):
        k = f[0]
        if k == "true":
            return True
        if k == "false":
            return False
        if k == "atom":
            v = atom_val(f[1], t)
            return known.get(akey(f[1])) if v is None else v
        if k == "not":
            v = ev(f[1], t)
            return None if v is None else (not v)
        vals = [ev(g, t) for g in f[1]]
        if k == "and":
            if any(v is False for v in vals):
                return False
            return True if all(v is True for v in vals) else None
        if any(v is True for v in vals):
            return True
        return False if all(v is False for v in vals) else None

    out = set()
    for t in itertools.product(*universes):
        refuted = False
        for f, pol in pc:
            v = ev(f, t)
            if v is not None and v != pol:
                refuted = True
                break
        if not refuted:
            out.add(t)
    return out


def implied(pc, pred, cap=20000):
    """Does the path condition force the truth value of the boolean atom selected by pred(atom)? Returns True / False when
    every assignment of its atoms that satisfies the path condition gives the atom that value, None when it is not forced
    (or the condition is too large). `is` atoms over the same scrutinee share one variable ranging over the alternatives
    they mention (plus "anything else"), so `Some(_) | None`, `Some(c)` and `None` are related as they are in the code."""
    import itertools
    atoms = []

    def collect(f):
        if f[0] == "atom":
            atoms.append(f[1])
        elif f[0] == "not":
            collect(f[1])
        elif f[0] in ("and", "or"):
            for g in f[1]:
                collect(g)
    for f, _ in pc:
        collect(f)

    def bkey(a):
        if a.kind == "cmp":
            return ("cmp", a.op, id(a.l.node), id(a.r.node))
        return (a.kind, id(a.node))
    # the same test written twice (two guards `if name.is_empty()`) is one variable
    canon = {}
    reps = []

    def bkey(a, _orig=bkey):
        k0 = _orig(a)
        if k0 in canon:
            return canon[k0]
        for k1, a1 in reps:
            if a1.kind == a.kind and a.kind != "cmp" and a.node is not None and a1.node is not None and _struct_eq(a.node, a1.node):
                canon[k0] = k1
                return k1
            if a1.kind == a.kind == "cmp" and a.op == a1.op and _struct_eq(a.l.node, a1.l.node) and _struct_eq(a.r.node, a1.r.node):
                canon[k0] = k1
                return k1
        reps.append((k0, a))
        canon[k0] = k0
        return k0
    groups = {}      # scrutinee key -> set of alternative tuples
    bools = {}
    target = None
    for a in atoms:
        if a.kind == "is":
            k = tuple(id(v.node) for v in a.scruts)
            groups.setdefault(k, set()).update(tuple(x) for x in a.alts if not is_catch_all(x))
        elif a.kind == "forall":
            bools[("forall", id(a.node))] = a
        else:
            bools[bkey(a)] = a
            if pred(a):
                target = bkey(a)
    if target is None:
        return None
    gkeys = sorted(groups, key=str)
    doms = [sorted(groups[k], key=str) + [("<other>",)] for k in gkeys]
    bkeys = sorted(bools, key=str)
    size = 2 ** len(bkeys)
    for d in doms:
        size *= len(d)
    if size > cap:
        return None

    def ev(f, env):
        k = f[0]
        if k == "true":
            return True
        if k == "false":
            return False
        if k == "atom":
            a = f[1]
            if a.kind == "is":
                val = env[tuple(id(v.node) for v in a.scruts)]
                for alt in a.alts:
                    if is_catch_all(alt) or tuple(alt) == val:
                        return True
                    # a more general alternative covers a more specific value: 'Option::Some' covers 'Option::Some(lit..)'
                    if len(alt) == len(val) and all(x == "_" or x == y or str(y).startswith(str(x) + "(") for x, y in zip(alt, val)):
                        return True
                return False
            if a.kind == "forall":
                return env[("forall", id(a.node))]
            return env[bkey(a)]
        if k == "not":
            return not ev(f[1], env)
        vals = [ev(g, env) for g in f[1]]
        return all(vals) if k == "and" else any(vals)
    seen = set()
    for combo in itertools.product(*doms):
        for bits in itertools.product((True, False), repeat=len(bkeys)):
            env = dict(zip(gkeys, combo))
            env.update(zip(bkeys, bits))
            if all(ev(f, env) == pol for f, pol in pc):
                seen.add(env[target])
                if len(seen) == 2:
                    return None
    if len(seen) == 1:
        return next(iter(seen))
    return None


def enum_universe(crate, path):
    a = crate.adt(path)
    if not a:
        return []
    return [short_variant(path + "::" + v["name"]) for v in a["variants"]]


def refuted(pc):
    """the conditions known to be false on this path (an early exit not taken, an else branch, ...)"""
    out = []
    for f, pol in pc:
        if f[0] == "not" and pol:
            out.append(f[1])
        elif f[0] != "not" and not pol:
            out.append(f)
    return out


def within(site, closure_node):
    """the site lies inside the closure (also when it is in a helper inlined from inside the closure)"""
    return any(c is closure_node for c in site.in_closure)


def provenance(S, node, frame, limit=40, fields=False, through_mut=False):
    """where a value comes from: (root Bind or None, root node, frame, [methods applied from the root to the value]).
    Follows method-call receivers, UFCS calls on their first argument, field/index/deref, immutable lets, helper
    arguments and pattern bindings (a binding taken out of a scrutinee counts as derived from the scrutinee)."""
    methods = []
    while limit > 0:
        limit -= 1
        n = peel(node)
        k = n.get("k")
        if k in ("Call", "MethodCall") and not str(n.get("callee_kind", "")).startswith("Ctor"):
            h2 = S.should_inline(n, frame)
            if h2 is not None:
                # a local helper: its value is what its body evaluates to
                f2 = S._enter(h2, n, frame)
                t, tf = tail_value(S, h2["body"], f2)
                methods.append("<" + last_seg(norm(h2["path"])) + ">")
                node, frame = t, tf
                continue
        if k == "MethodCall":
            methods.append(n["m"])
            node = n["recv"]
            continue
        if k == "Call" and n.get("args") and not str(n.get("callee_kind", "")).startswith("Ctor"):
            methods.append(last_seg(norm(n.get("callee", "?"))))
            node = n["args"][0]
            continue
        if k == "Call" and len(n.get("args", [])) == 1:
            # a one-field constructor wraps its argument
            node = n["args"][0]
            continue
        if k in ("Field", "Index", "Cast"):
            if fields and k == "Field":
                methods.append("." + n["name"])
            node = n["e"]
            continue
        if k == "Unary" and n.get("op") == "Deref":
            node = n["e"]
            continue
        b = S.lookup(n, frame)
        if b is None:
            return None, n, frame, list(reversed(methods))
        if b.kind == "closure-param" and b.expr is not None:
            methods.append("<closure-arg>")
            node, frame = b.expr, b.frame
            continue
        if b.kind == "loopvar" and b.expr is not None:
            e = peel(b.expr)
            if e.get("k") == "Call" and e.get("args"):
                methods.append("<for>")
                node, frame = e["args"][0], b.frame
                continue
        if b.expr is None or (b.assigns and b.kind in ("let", "arg") and not through_mut):
            return b, n, frame, list(reversed(methods))
        if b.proj and b.kind in ("let", "arg") and b.proj[0][0] == "t":
            e, ef, rest = S.project(b.expr, b.frame, b.proj)
            node, frame = e, ef
            continue
        node, frame = b.expr, b.frame
    return None, peel(node), frame, list(reversed(methods))


def for_loops(S, pred=None):
    """for-loops: [(site of the desugared match, loop-variable pattern, iterated expression node)]"""
    out = []
    for s in S.sites():
        n = s.node
        if n.get("k") == "Match" and n.get("src") == "ForLoopDesugar":
            sc = strip(n["scrut"])
            if not (sc.get("k") == "Call" and norm(sc.get("callee", "")).endswith("IntoIterator::into_iter")):
                continue
            it = sc["args"][0] if sc.get("args") else sc
            pat = None
            for m in exprs(n, "Match"):
                if m is n:
                    continue
                for a in m["arms"]:
                    if pat_repr(a["pat"]).startswith("Option::Some"):
                        pat = a["pat"]
                break
            out.append((s, pat, it))
    return out


def tail_value(S, node, frame, depth=0):
    """the expression a block / inlined helper call finally evaluates to: (node, frame)"""
    n = strip(node)
    while n.get("k") == "Block" and n.get("expr") is not None:
        n = strip(n["expr"])
    if n.get("k") in ("Call", "MethodCall") and depth < 3:
        h2 = S.should_inline(n, frame)
        if h2 is not None:
            f2 = S._enter(h2, n, frame)
            return tail_value(S, h2["body"], f2, depth + 1)
    return n, frame


TERMINAL_SEARCH = {"find": ("Option::None", "true-means-bad"), "position": ("Option::None", "true-means-bad"),
                   "find_map": ("Option::None", "some-means-bad"), "any": (False, "true-means-bad"), "all": (True, "false-means-bad")}


def whole_collection_checks(S, pc):
    """evidence in a path condition that *every* element of a collection passed a test:
    [(root Bind of the collection, methods on the way to the elements, test, frame)] where test is the loop-body survive
    formula (for-loops) or the closure node of find/any/all/position (iterator searches)."""
    out = []
    lits, _ = literals(pc)
    for a, pol in lits:
        if a.kind == "forall" and pol:
            b, _, _, ms = provenance(S, a.l.node, a.l.frame)
            out.append((b, ms, ("formula", a.r, a.scruts[0]), a.frame))
        elif a.kind == "is" and len(a.scruts) == 1:
            v = S.resolve(a.scruts[0].node, a.scruts[0].frame)
            n = peel(v.node)
            if n.get("k") == "MethodCall" and n["m"] in TERMINAL_SEARCH and n.get("args"):
                want, _ = TERMINAL_SEARCH[n["m"]]
                alts = {x[0] for x in a.alts}
                if isinstance(want, str) and ((pol and alts == {want}) or (not pol and alts == {"Option::Some"} and want == "Option::None")):
                    b, _, _, ms = provenance(S, n["recv"], v.frame)
                    out.append((b, ms, ("closure", n["args"][0], n["m"]), v.frame))
        elif a.kind == "call":
            n = peel(a.node)
            if n.get("k") == "MethodCall" and n["m"] in ("any", "all") and n.get("args"):
                want, _ = TERMINAL_SEARCH[n["m"]]
                if pol == want:
                    b, _, _, ms = provenance(S, n["recv"], a.frame)
                    out.append((b, ms, ("closure", n["args"][0], n["m"]), a.frame))
    return out


def passes_through(S, node, frame, target, limit=40):
    """does the value derive from the expression node `target` (a call, usually)? follows the same steps as provenance"""
    while limit > 0:
        limit -= 1
        n = peel(node)
        if n is target:
            return True
        k = n.get("k")
        if k in ("Call", "MethodCall") and not str(n.get("callee_kind", "")).startswith("Ctor"):
            h2 = S.should_inline(n, frame)
            if h2 is not None:
                f2 = S._enter(h2, n, frame)
                node, frame = tail_value(S, h2["body"], f2)
                continue
        if k == "MethodCall":
            node = n["recv"]
            continue
        if k == "Call" and n.get("args"):
            node = n["args"][0]
            continue
        if k in ("Field", "Index", "Cast") or (k == "Unary" and n.get("op") == "Deref"):
            node = n["e"]
            continue
        if k == "Match" and not is_try(n):
            # a value chosen by a match (e.g. the tail of a helper): it derives from the target if one of the arms' values does
            return any(passes_through(S, a["body"], frame, target, limit // 2) for a in n["arms"] if not diverges(a["body"]))
        if k == "If" and "else" in n:
            return any(passes_through(S, x, frame, target, limit // 2) for x in (n["then"], n["else"]) if not diverges(x))
        if k == "Block" and n.get("expr") is not None:
            node = n["expr"]
            continue
        b = S.lookup(n, frame)
        if b is None or b.expr is None:
            return False
        if b.kind == "loopvar":
            e = peel(b.expr)
            if e.get("k") == "Call" and e.get("args"):
                node, frame = e["args"][0], b.frame
                continue
        node, frame = b.expr, b.frame
    return False


def param_index(S, node, frame, through_mut=False):
    """index of the root function parameter the value is rooted in (None if it is not rooted in a parameter)"""
    b = provenance(S, node, frame, through_mut=through_mut)[0]
    if b is not None and b.kind == "param" and b.frame is S.root:
        return b.index
    return None


def nested_variants(pc, pred, enum_name):
    """variants `<enum_name>::X` that the positive `is` literals of a path condition restrict a scrutinee component to, also
    when the variant is nested in the alternative (`Option::Some(SchemeItem::Field)`, `Result::Ok(LhsValue::Map)`);
    None when unrestricted"""
    best = None
    rx = re.compile(r"(?<![\w])" + re.escape(enum_name) + r"::(\w+)")
    for a, pol in is_literals(pc):
        if not pol:
            continue
        for i, v in enumerate(a.scruts):
            if not pred(v):
                continue
            vs = set()
            for alt in a.alts:
                m = rx.search(alt[i])
                if not m:
                    vs = None
                    break
                vs.add(m.group(1))
            if vs is not None:
                best = vs if best is None else (best & vs)
    return best


def sem_walk(crate, h, **kw):
    """drop-in for lib.walk_arms over a whole function: yields (node, Site); lib.arm_variants accepts the Site"""
    S = Sem(crate, h, **kw)
    for x in S.sites():
        yield x.node, x
