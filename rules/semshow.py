#!/usr/bin/env python3
"""dev: semshow.py [--src DIR] <fn regex> [node-kind] — print sites with path conditions"""
import sys, os
sys.path.insert(0, os.path.dirname(os.path.abspath(__file__)))
import extract, lib, sem
from lib import *

def fmt_val(S, v):
    n = v.node
    k = n.get("k")
    if k == "Path":
        r = n["res"]
        return r.get("name") or last_seg(norm(r.get("path", "?")))
    if k == "MethodCall":
        return fmt_val(S, sem.Val(sem.peel(n["recv"]), v.frame)) + "." + n["m"] + "()"
    if k == "Call":
        return last_seg(norm(n.get("callee", "?"))) + "(..)"
    if k == "Field":
        return fmt_val(S, sem.Val(sem.peel(n["e"]), v.frame)) + "." + n["name"]
    return k

def fmt_f(S, f):
    t = f[0]
    if t == "atom":
        a = f[1]
        if a.kind == "is":
            return "is(%s ; %s)" % (",".join(fmt_val(S, x) + "=>" + fmt_val(S, S.resolve(x.node, x.frame)) for x in a.scruts), "|".join(",".join(x) for x in a.alts))
        if a.kind == "cmp":
            return "%s %s %s" % (fmt_val(S, a.l), a.op, fmt_val(S, a.r))
        if a.kind in ("call", "ok", "opaque", "local"):
            return "%s[%s]" % (a.kind, fmt_val(S, sem.Val(a.node, a.frame)))
        return repr(a)
    if t == "not":
        return "!" + fmt_f(S, f[1])
    if t in ("and", "or"):
        return "(" + (" && " if t == "and" else " || ").join(fmt_f(S, g) for g in f[1]) + ")"
    return t

def main():
    args = sys.argv[1:]
    src = None
    if args[0] == "--src":
        src = args[1]; args = args[2:]
    fd, _ = extract.extract(src)
    F = lib.Facts(extract.load(fd))
    E = F.engine
    for h in E.hirs(args[0]):
        S = sem.Sem(E, h)
        print("==", norm(h["path"]))
        for s in S.sites():
            n = s.node
            if len(args) > 1 and not re.search(args[1], n.get("k", "") + ":" + str(n.get("m") or n.get("callee") or n.get("res", {}).get("path") or "")):
                continue
            print("  %-12s %-40s d=%d %s" % (n.get("k"), str(n.get("m") or n.get("callee") or n.get("res", {}).get("path") or n.get("res", {}).get("name") or "")[:40], s.frame.depth, n.get("sp", "")))
            for f, pol in s.pc:
                print("        %s %s" % ("+" if pol else "-", fmt_f(S, f)))
        print("  inlined:", S.inlined)

main()
