"""dev/self-test: behaviour-preserving rewrites applied to the extracted HIR facts of every function. A rule whose verdict
changes under one of them depends on how a function is written rather than on what it does (the same idea as
renamefuzz.py, for statement shapes instead of names). MIR-based rules see the original MIR and are unaffected.

  named_tail    `{ ..; E }`                    ->  `{ ..; let __ret = E; __ret }`           (function bodies)
  early_return  `{ ..; if c { A } else { B } }` ->  `{ ..; if c { return A; } B }`            (function bodies, repeated)
  bind_cond     `if c { .. }`                  ->  `let __c = c; if __c { .. }`             (statement / tail position)
"""
import itertools

_ids = itertools.count(1)


def _fresh(prefix):
    return "%s%d" % (prefix, next(_ids))


def _strip_block(n):
    while isinstance(n, dict) and n.get("k") in ("DropTemps", "Paren") and "e" in n:
        n = n["e"]
    return n


def _local(name, id_, ty, sp):
    return {"k": "Path", "res": {"r": "local", "name": name, "id": id_}, "ty": ty, "sp": sp}


def _let(name, id_, ty, init, sp):
    return {"k": "SLet", "pat": {"k": "PBinding", "name": name, "id": id_, "mode": "BindingMode(No, Not)", "ty": ty}, "init": init, "sp": sp}


def _fn_bodies(crate):
    for h in crate["hir"]:
        b = h.get("body")
        if isinstance(b, dict) and b.get("k") == "Block":
            yield h, b


def named_tail(raw):
    n = 0
    for crate in raw.values():
        for h, b in _fn_bodies(crate):
            e = b.get("expr")
            if not isinstance(e, dict) or e.get("k") == "Path" or e.get("ty") in ("()", "!", None):
                continue
            nm, id_ = "__ret", _fresh("fzr")
            b["stmts"] = list(b.get("stmts", [])) + [_let(nm, id_, e.get("ty"), e, e.get("sp", ""))]
            b["expr"] = _local(nm, id_, e.get("ty"), e.get("sp", ""))
            n += 1
    return raw, n


def early_return(raw):
    n = 0
    for crate in raw.values():
        for h, b in _fn_bodies(crate):
            if h.get("kind") not in ("Fn", "AssocFn"):
                continue
            while True:
                e = b.get("expr")
                if not isinstance(e, dict) or e.get("k") != "If" or "else" not in e or e.get("ty") in ("()", "!"):
                    break
                then = e["then"]
                if not (isinstance(then, dict) and then.get("k") == "Block" and then.get("expr") is not None):
                    break
                if _strip_block(e["cond"]).get("k") == "LetExpr":
                    # `if let P = x { A } else { B }`: bindings of P are only in scope in A; still fine to return from A
                    pass
                sp = e.get("sp", "")
                ret = {"k": "Ret", "e": then["expr"], "ty": "!", "sp": sp}
                then2 = {"k": "Block", "stmts": list(then.get("stmts", [])) + [{"k": "SSemi", "e": ret, "sp": sp}], "ty": "!", "sp": then.get("sp", sp)}
                guard = {"k": "If", "cond": e["cond"], "then": then2, "ty": "()", "sp": sp}
                els = e["else"]
                b["stmts"] = list(b.get("stmts", [])) + [{"k": "SExpr", "e": guard, "sp": sp}]
                if isinstance(els, dict) and els.get("k") == "Block":
                    b["stmts"] += list(els.get("stmts", []))
                    b["expr"] = els.get("expr")
                    if b["expr"] is None:
                        break
                else:
                    b["expr"] = els
                n += 1
    return raw, n


def _walk_blocks(n):
    st = [n]
    while st:
        x = st.pop()
        if isinstance(x, dict):
            if x.get("k") == "Block":
                yield x
            st.extend(x.values())
        elif isinstance(x, list):
            st.extend(x)


def bind_cond(raw):
    n = 0
    for crate in raw.values():
        for h in crate["hir"]:
            if "body" not in h:
                continue
            for b in list(_walk_blocks(h["body"])):
                out = []
                for st in b.get("stmts", []):
                    e = st.get("e") if st.get("k") in ("SSemi", "SExpr") else None
                    if isinstance(e, dict) and e.get("k") == "If" and not e.get("x"):
                        c = _strip_block(e["cond"])
                        if c.get("k") not in ("LetExpr", "Path", "Lit") and c.get("ty") == "bool" and not _has_let(c):
                            nm, id_ = "__c", _fresh("fzc")
                            out.append(_let(nm, id_, "bool", e["cond"], e.get("sp", "")))
                            e["cond"] = _local(nm, id_, "bool", e.get("sp", ""))
                            n += 1
                    out.append(st)
                e = b.get("expr")
                if isinstance(e, dict) and e.get("k") == "If" and not e.get("x"):
                    c = _strip_block(e["cond"])
                    if c.get("k") not in ("LetExpr", "Path", "Lit") and c.get("ty") == "bool" and not _has_let(c):
                        nm, id_ = "__c", _fresh("fzc")
                        out.append(_let(nm, id_, "bool", e["cond"], e.get("sp", "")))
                        e["cond"] = _local(nm, id_, "bool", e.get("sp", ""))
                        n += 1
                b["stmts"] = out
    return raw, n


def _has_let(n):
    st = [n]
    while st:
        x = st.pop()
        if isinstance(x, dict):
            if x.get("k") == "LetExpr":
                return True
            if x.get("k") == "Closure":
                continue
            st.extend(x.values())
        elif isinstance(x, list):
            st.extend(x)
    return False


MODES = {"named_tail": named_tail, "early_return": early_return, "bind_cond": bind_cond}
