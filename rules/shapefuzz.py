"""dev/self-test: behaviour-preserving rewrites applied to the extracted HIR facts of every function. A rule whose verdict
changes under one of them depends on how a function is written rather than on what it does (the same idea as
renamefuzz.py, for statement shapes instead of names). MIR-based rules see the original MIR and are unaffected.

  named_tail    `{ ..; E }`                    ->  `{ ..; let __ret = E; __ret }`           (function bodies)
  early_return  `{ ..; if c { A } else { B } }` ->  `{ ..; if c { return A; } B }`            (function bodies, repeated)
  bind_cond     `if c { .. }`                  ->  `let __c = c; if __c { .. }`             (statement / tail position)
  negate_if     `if c { A } else { B }`        ->  `if !c { B } else { A }`
  reverse_arms  arms with distinct variant patterns, no guards, no catch-all: reversed
  hoist_args    `f(g(a), b);`                  ->  `let __a = g(a); f(__a, b);`             (calls in statement position)
  letelse_to_match / match_to_iflet / iflet_to_match: the three spellings of a refutable binding
"""
import itertools
import json

_ids = itertools.count(1)


def _fresh(prefix):
    return "%s%d" % (prefix, next(_ids))


def _strip_block(n):
    while isinstance(n, dict) and n.get("k") in ("DropTemps", "Paren") and "e" in n:
        n = n["e"]
    return n


def _local(name, id_, ty, sp):
    return {"k": "Path", "res": {"r": "local", "name": name, "id": id_}, "ty": ty, "sp": sp}


def _let(name, id_, ty, init, sp):
    return {"k": "SLet", "pat": {"k": "PBinding", "name": name, "id": id_, "mode": "BindingMode(No, Not)", "ty": ty}, "init": init, "sp": sp}


def _fn_bodies(crate):
    for h in crate["hir"]:
        b = h.get("body")
        if isinstance(b, dict) and b.get("k") == "Block":
            yield h, b


def named_tail(raw):
    n = 0
    for crate in raw.values():
        for h, b in _fn_bodies(crate):
            e = b.get("expr")
            if not isinstance(e, dict) or e.get("k") == "Path" or e.get("ty") in ("()", "!", None):
                continue
            nm, id_ = "__ret", _fresh("fzr")
            b["stmts"] = list(b.get("stmts", [])) + [_let(nm, id_, e.get("ty"), e, e.get("sp", ""))]
            b["expr"] = _local(nm, id_, e.get("ty"), e.get("sp", ""))
            n += 1
    return raw, n


def early_return(raw):
    n = 0
    for crate in raw.values():
        for h, b in _fn_bodies(crate):
            if h.get("kind") not in ("Fn", "AssocFn"):
                continue
            while True:
                e = b.get("expr")
                if not isinstance(e, dict) or e.get("k") != "If" or "else" not in e or e.get("ty") in ("()", "!"):
                    break
                then = e["then"]
                if not (isinstance(then, dict) and then.get("k") == "Block" and then.get("expr") is not None):
                    break
                if _strip_block(e["cond"]).get("k") == "LetExpr":
                    # `if let P = x { A } else { B }`: bindings of P are only in scope in A; still fine to return from A
                    pass
                sp = e.get("sp", "")
                ret = {"k": "Ret", "e": then["expr"], "ty": "!", "sp": sp}
                then2 = {"k": "Block", "stmts": list(then.get("stmts", [])) + [{"k": "SSemi", "e": ret, "sp": sp}], "ty": "!", "sp": then.get("sp", sp)}
                guard = {"k": "If", "cond": e["cond"], "then": then2, "ty": "()", "sp": sp}
                els = e["else"]
                b["stmts"] = list(b.get("stmts", [])) + [{"k": "SExpr", "e": guard, "sp": sp}]
                if isinstance(els, dict) and els.get("k") == "Block":
                    b["stmts"] += list(els.get("stmts", []))
                    b["expr"] = els.get("expr")
                    if b["expr"] is None:
                        break
                else:
                    b["expr"] = els
                n += 1
    return raw, n


def _walk_blocks(n):
    st = [n]
    while st:
        x = st.pop()
        if isinstance(x, dict):
            if x.get("k") == "Block":
                yield x
            st.extend(v for k_, v in x.items() if k_ != "_init")
        elif isinstance(x, list):
            st.extend(x)


def bind_cond(raw):
    n = 0
    for crate in raw.values():
        for h in crate["hir"]:
            if "body" not in h:
                continue
            for b in list(_walk_blocks(h["body"])):
                out = []
                for st in b.get("stmts", []):
                    e = st.get("e") if st.get("k") in ("SSemi", "SExpr") else None
                    if isinstance(e, dict) and e.get("k") == "If" and not e.get("x"):
                        c = _strip_block(e["cond"])
                        if c.get("k") not in ("LetExpr", "Path", "Lit") and c.get("ty") == "bool" and not _has_let(c):
                            nm, id_ = "__c", _fresh("fzc")
                            out.append(_let(nm, id_, "bool", e["cond"], e.get("sp", "")))
                            e["cond"] = _local(nm, id_, "bool", e.get("sp", ""))
                            n += 1
                    out.append(st)
                e = b.get("expr")
                if isinstance(e, dict) and e.get("k") == "If" and not e.get("x"):
                    c = _strip_block(e["cond"])
                    if c.get("k") not in ("LetExpr", "Path", "Lit") and c.get("ty") == "bool" and not _has_let(c):
                        nm, id_ = "__c", _fresh("fzc")
                        out.append(_let(nm, id_, "bool", e["cond"], e.get("sp", "")))
                        e["cond"] = _local(nm, id_, "bool", e.get("sp", ""))
                        n += 1
                b["stmts"] = out
    return raw, n


def _has_let(n):
    st = [n]
    while st:
        x = st.pop()
        if isinstance(x, dict):
            if x.get("k") == "LetExpr":
                return True
            if x.get("k") == "Closure":
                continue
            st.extend(v for k_, v in x.items() if k_ != "_init")
        elif isinstance(x, list):
            st.extend(x)
    return False


def _walk_nodes(n):
    st = [n]
    while st:
        x = st.pop()
        if isinstance(x, dict):
            yield x
            st.extend(v for k_, v in x.items() if k_ != "_init")
        elif isinstance(x, list):
            st.extend(x)


def negate_if(raw):
    """`if c { A } else { B }`  ->  `if !c { B } else { A }`  (conditions that are not `let` chains)"""
    n = 0
    for crate in raw.values():
        for h in crate["hir"]:
            if "body" not in h:
                continue
            for x in list(_walk_nodes(h["body"])):
                if x.get("k") != "If" or "else" not in x or x.get("x"):
                    continue
                c = _strip_block(x["cond"])
                if _has_let(c) or c.get("ty") != "bool":
                    continue
                els = x["else"]
                if not (isinstance(els, dict) and els.get("k") == "Block"):
                    continue        # `else if`: keep chains as they are
                x["cond"] = {"k": "Unary", "op": "Not", "e": x["cond"], "ty": "bool", "sp": c.get("sp", "")}
                x["then"], x["else"] = els, x["then"]
                n += 1
    return raw, n


def _variant_head(p):
    k = p.get("k")
    if k in ("PRef", "PBox", "PDeref"):
        return _variant_head(p["pat"])
    if k in ("PTupleStruct", "PStruct"):
        return p.get("res", {}).get("path")
    if k == "PExpr" and p["e"].get("k") == "PEPath":
        return p["e"].get("res", {}).get("path")
    return None


def reverse_arms(raw):
    """arms of a user-written match whose patterns are distinct enum variants (no guards, no catch-all) are reversed"""
    n = 0
    for crate in raw.values():
        for h in crate["hir"]:
            if "body" not in h:
                continue
            for x in _walk_nodes(h["body"]):
                if x.get("k") != "Match" or x.get("src") != "Normal" or x.get("x") or len(x.get("arms", [])) < 2:
                    continue
                heads = [_variant_head(a["pat"]) for a in x["arms"]]
                if any(hd is None for hd in heads) or len(set(heads)) != len(heads) or any("guard" in a for a in x["arms"]):
                    continue
                x["arms"] = list(reversed(x["arms"]))
                n += 1
    return raw, n


def _trivial(e):
    e = _strip_block(e)
    k = e.get("k")
    if k in ("Path", "Lit", "Closure"):
        return True
    if k in ("AddrOf", "Field", "Unary", "Cast") and "e" in e:
        return _trivial(e["e"])
    return False


def _call_in(e):
    """the call evaluated by a statement expression: the expression itself, or the operand of `?`"""
    e = _strip_block(e) if isinstance(e, dict) else None
    if e and e.get("k") == "Match" and str(e.get("src", "")).startswith("TryDesugar"):
        sc = e.get("scrut", {})
        if sc.get("k") == "Call" and sc.get("args"):
            return _call_in(sc["args"][0])
        return None
    if e and e.get("k") in ("Call", "MethodCall") and not e.get("x") and not str(e.get("callee_kind", "")).startswith("Ctor"):
        return e
    return None


def _named(out, a, prefix):
    nm, id_ = "__" + prefix, _fresh("fz" + prefix)
    out.append(_let(nm, id_, a.get("ty"), a, a.get("sp", "")))
    loc = _local(nm, id_, a.get("ty"), a.get("sp", ""))
    inner = a
    for key in ("adj", "aty"):
        if key in inner:
            loc[key] = inner.pop(key)
    return loc


def hoist_args(raw):
    """`let x = r.m(g(a), b)?;` / `f(g(a), b);` / a block's tail call  ->  `let __a = g(a); .. f(__a, b)`: the receiver (when
    it is itself a call) and every non-trivial argument are named, in evaluation order"""
    n = 0
    for crate in raw.values():
        for h in crate["hir"]:
            if "body" not in h:
                continue
            for b in list(_walk_blocks(h["body"])):
                out = []

                def treat(e):
                    nonlocal n
                    c = _call_in(e)
                    if c is None:
                        return
                    parts = ([("recv", c["recv"])] if c["k"] == "MethodCall" else []) + [("arg", a) for a in c.get("args", [])]
                    if not all(isinstance(a, dict) and a.get("ty") not in (None, "!") and not _has_let(a) for _, a in parts):
                        return
                    if c["k"] == "MethodCall" and not _trivial(c["recv"]) and _strip_block(c["recv"]).get("k") not in ("Call", "MethodCall"):
                        return
                    if not any(not _trivial(a) for _, a in parts):
                        return
                    new_args = []
                    for kind, a in parts:
                        if _trivial(a):
                            loc = a
                        else:
                            loc = _named(out, a, "r" if kind == "recv" else "a")
                            n += 1
                        if kind == "recv":
                            c["recv"] = loc
                        else:
                            new_args.append(loc)
                    c["args"] = new_args
                for st in b.get("stmts", []):
                    if st.get("k") in ("SSemi", "SExpr"):
                        treat(st.get("e"))
                    elif st.get("k") == "SLet" and "els" not in st:
                        treat(st.get("init"))
                    out.append(st)
                if isinstance(b.get("expr"), dict):
                    treat(b["expr"])
                b["stmts"] = out
    return raw, n


def _rebind(pat, suffix_ids):
    """copy of a pattern whose bindings get fresh ids; returns (pattern, [(old id, new id, name, ty)])"""
    import copy
    p2 = copy.deepcopy(pat)
    out = []
    for x in _walk_nodes(p2):
        if x.get("k") == "PBinding":
            new = _fresh("fzb")
            out.append((x["id"], new, x["name"], x.get("ty")))
            x["id"] = new
    return p2, out


def letelse_to_match(raw):
    """`let P(x) = e else { D };`  ->  `let x = match e { P(x') => x', _ => D };`  (patterns with exactly one binding)"""
    n = 0
    for crate in raw.values():
        for h in crate["hir"]:
            if "body" not in h:
                continue
            for st in _walk_nodes(h["body"]):
                if st.get("k") != "SLet" or "els" not in st or "init" not in st:
                    continue
                binds = [x for x in _walk_nodes(st["pat"]) if x.get("k") == "PBinding"]
                if len(binds) != 1 or binds[0].get("sub") or binds[0].get("mode", "BindingMode(No, Not)") != "BindingMode(No, Not)":
                    continue
                b = binds[0]
                p2, m = _rebind(st["pat"], None)
                sp = st.get("sp", "")
                arm_ok = {"pat": p2, "body": _local(b["name"], m[0][1], b.get("ty"), sp), "sp": sp}
                arm_no = {"pat": {"k": "PWild", "ty": st["pat"].get("ty")}, "body": st["els"], "sp": sp}
                st["init"] = {"k": "Match", "src": "Normal", "scrut": st["init"], "arms": [arm_ok, arm_no], "ty": b.get("ty"), "sp": sp}
                st["pat"] = {"k": "PBinding", "name": b["name"], "id": b["id"], "mode": "BindingMode(No, Not)", "ty": b.get("ty")}
                del st["els"]
                n += 1
    return raw, n


def _catch_all(p):
    return p.get("k") == "PWild"


def match_to_iflet(raw):
    """`match e { P => A, _ => B }`  ->  `if let P = e { A } else { B }`  (two arms, no guard, second arm `_`)"""
    n = 0
    for crate in raw.values():
        for h in crate["hir"]:
            if "body" not in h:
                continue
            for x in list(_walk_nodes(h["body"])):
                if x.get("k") != "Match" or x.get("src") != "Normal" or x.get("x") or len(x.get("arms", [])) != 2:
                    continue
                a0, a1 = x["arms"]
                if "guard" in a0 or "guard" in a1 or not _catch_all(a1["pat"]) or _catch_all(a0["pat"]):
                    continue
                sp = x.get("sp", "")
                cond = {"k": "LetExpr", "pat": a0["pat"], "init": x["scrut"], "ty": "bool", "sp": sp}
                ty = x.get("ty")
                for k_ in list(x.keys()):
                    del x[k_]
                x.update({"k": "If", "cond": cond, "then": a0["body"], "else": a1["body"], "ty": ty, "sp": sp})
                n += 1
    return raw, n


def iflet_to_match(raw):
    """`if let P = e { A } else { B }`  ->  `match e { P => A, _ => B }`  (a single `let` condition)"""
    n = 0
    for crate in raw.values():
        for h in crate["hir"]:
            if "body" not in h:
                continue
            for x in list(_walk_nodes(h["body"])):
                if x.get("k") != "If" or "else" not in x or x.get("x"):
                    continue
                c = _strip_block(x["cond"])
                if c.get("k") != "LetExpr" or "pat" not in c or "init" not in c:
                    continue
                sp = x.get("sp", "")
                arms = [{"pat": c["pat"], "body": x["then"], "sp": sp},
                        {"pat": {"k": "PWild", "ty": c["pat"].get("ty")}, "body": x["else"], "sp": sp}]
                ty = x.get("ty")
                for k_ in list(x.keys()):
                    del x[k_]
                x.update({"k": "Match", "src": "Normal", "scrut": c["init"], "arms": arms, "ty": ty, "sp": sp})
                n += 1
    return raw, n


_SWAP = {"Eq": "Eq", "Ne": "Ne", "Lt": "Gt", "Gt": "Lt", "Le": "Ge", "Ge": "Le"}


def swap_cmp(raw):
    """`a < b` -> `b > a`, `a == b` -> `b == a` when both operands are free of calls (evaluation order is immaterial)"""
    n = 0
    for crate in raw.values():
        for h in crate["hir"]:
            if "body" not in h:
                continue
            for x in _walk_nodes(h["body"]):
                if x.get("k") == "Binary" and x.get("op") in _SWAP and not x.get("x") and "callee" not in x and \
                        _pure(x.get("l")) and _pure(x.get("r")):
                    x["l"], x["r"] = x["r"], x["l"]
                    x["op"] = _SWAP[x["op"]]
                    n += 1
    return raw, n


def _pure(e):
    if not isinstance(e, dict):
        return False
    for y in _walk_nodes(e):
        if y.get("k") in ("Call", "Closure", "Match", "If", "Assign", "AssignOp", "Block"):
            return False
        if y.get("k") == "MethodCall" and y.get("m") not in ("len", "is_empty", "start", "end", "as_bytes", "as_str", "as_ref", "get_type"):
            return False
    return True


def hoist_closures(raw):
    """`x.map(|a| ..)` in statement position -> `let __f = |a| ..; x.map(__f)` (closure arguments only)"""
    n = 0
    for crate in raw.values():
        for h in crate["hir"]:
            if "body" not in h:
                continue
            for b in list(_walk_blocks(h["body"])):
                out = []

                def treat(e):
                    nonlocal n
                    c = _call_in(e)
                    while c is not None:
                        new_args = []
                        for a in c.get("args", []):
                            if isinstance(a, dict) and _strip_block(a).get("k") == "Closure" and a.get("ty"):
                                new_args.append(_named(out, a, "f"))
                                n += 1
                            else:
                                new_args.append(a)
                        c["args"] = new_args
                        # walk down the receiver chain: `a.iter().map(|x| ..).collect()`
                        r = _strip_block(c["recv"]) if c.get("k") == "MethodCall" and isinstance(c.get("recv"), dict) else None
                        c = r if r is not None and r.get("k") == "MethodCall" and not r.get("x") else None
                for st in b.get("stmts", []):
                    if st.get("k") in ("SSemi", "SExpr"):
                        treat(st.get("e"))
                    elif st.get("k") == "SLet" and "els" not in st:
                        treat(st.get("init"))
                    out.append(st)
                if isinstance(b.get("expr"), dict):
                    treat(b["expr"])
                b["stmts"] = out
    return raw, n


def const_lits(raw):
    """char / byte / string / integer literals written in a function (expressions and patterns, not macro expansions) are
    replaced by private constants holding them: `'"'` -> `QUOTE`, `128` -> `DEFAULT_DEPTH`"""
    n = 0
    for cname, crate in raw.items():
        new_items = []
        made = {}
        for h in list(crate["hir"]):
            if "body" not in h or h.get("kind") not in ("Fn", "AssocFn", "Closure"):
                continue
            for x in list(_walk_nodes(h["body"])):
                k = x.get("k")
                if k == "Lit" and not x.get("x") and x["lit"].get("t") in ("char", "byte", "str", "int") and x.get("ty"):
                    lit, ty, sp = x["lit"], x.get("ty"), x.get("sp", "")
                elif k == "PExpr" and x.get("e", {}).get("k") == "PELit" and not x["e"].get("neg") and \
                        x["e"]["lit"].get("t") in ("char", "byte", "str", "int") and x.get("ty"):
                    lit, ty, sp = x["e"]["lit"], x.get("ty"), ""
                else:
                    continue
                key = (json.dumps(lit, sort_keys=True), ty)
                if key not in made:
                    path = "fzconst_%s::C%d" % (cname, len(made) + 1)
                    made[key] = path
                    new_items.append({"path": path, "dp": "::" + path, "kind": "Const", "span": "",
                                      "body": {"k": "Lit", "lit": lit, "ty": ty.lstrip("&") if lit.get("t") != "str" else ty, "sp": ""}})
                res = {"r": "def", "dk": "Const { is_type_const: false }", "path": made[key]}
                if k == "Lit":
                    for kk in list(x.keys()):
                        del x[kk]
                    x.update({"k": "Path", "res": res, "ty": ty, "sp": sp})
                else:
                    x["e"] = {"k": "PEPath", "res": res}
                n += 1
        crate["hir"].extend(new_items)
    return raw, n


MODES = {"named_tail": named_tail, "early_return": early_return, "bind_cond": bind_cond,
         "negate_if": negate_if, "reverse_arms": reverse_arms, "hoist_args": hoist_args,
         "letelse_to_match": letelse_to_match, "match_to_iflet": match_to_iflet, "iflet_to_match": iflet_to_match,
         "const_lits": const_lits, "swap_cmp": swap_cmp, "hoist_closures": hoist_closures}
