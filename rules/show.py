#!/usr/bin/env python3
"""dev helper: ./rules/show.py <crate> <hir|mir|mono> <regex on normalised path>  — compact dump of facts"""
import json
import os
import re
import sys

sys.path.insert(0, os.path.dirname(os.path.abspath(__file__)))
import extract
import lib


def short(n, depth=0, maxd=40):
    if not isinstance(n, dict):
        return repr(n)
    k = n.get("k")
    ind = "  " * depth
    if depth > maxd:
        return ind + "..."
    head = k or "?"
    extras = []
    for key in ("m", "callee", "resolved", "op", "name", "src", "path", "ik", "trait", "self_ty", "mut", "rest"):
        if key in n and not isinstance(n[key], (dict, list)):
            v = n[key]
            if key in ("callee", "resolved", "path"):
                v = lib.norm(v)
            extras.append("%s=%s" % (key, v))
    if "lit" in n:
        extras.append("lit=%r" % (n["lit"].get("v"),))
    if "res" in n:
        r = n["res"]
        extras.append("res=%s" % (r.get("name") if r.get("r") == "local" else lib.norm(r.get("path", r.get("r", "")))))
    if "ty" in n and k not in ("Block",):
        extras.append("ty=" + lib.norm(n["ty"])[:70])
    if n.get("x"):
        extras.append("X")
    if "items" in n:
        extras.append("items=" + ",".join(i["name"] + "@" + i["dp"] for i in n["items"]))
    line = ind + head + " " + " ".join(extras)
    out = [line]
    for key in lib.CHILD_KEYS:
        v = n.get(key)
        if v is None:
            continue
        if isinstance(v, dict):
            out.append(ind + " ." + key + ":")
            out.append(short(v, depth + 1, maxd))
        elif isinstance(v, list) and v and isinstance(v[0], dict):
            out.append(ind + " ." + key + "[%d]:" % len(v))
            for x in v:
                if "k" not in x:  # arm / field
                    out.append(ind + "  -")
                    for kk in ("name",):
                        if kk in x:
                            out[-1] += " " + str(x[kk])
                    for kk in ("pat", "guard", "body", "e"):
                        if kk in x:
                            out.append(ind + "   ." + kk + ":")
                            out.append(short(x[kk], depth + 2, maxd))
                else:
                    out.append(short(x, depth + 1, maxd))
    return "\n".join(out)


def pl(p):
    s = "_%d" % p["l"]
    for e in p["p"]:
        if e == "*":
            s = "(*%s)" % s
        elif isinstance(e, int):
            s += ".%d" % e
        elif isinstance(e, dict) and "v" in e:
            s = "(%s as %s)" % (s, e["name"] or e["v"])
        else:
            s += "[%s]" % json.dumps(e)
    return s


def opnd(o):
    if o is None:
        return "?"
    if "c" in o:
        c = o["c"]
        return "const(%s)" % (lib.norm(c.get("fn") or c.get("def") or c.get("static") or "") or c.get("disp") or c.get("v"))
    return ("move " if o.get("m") == "move" else "") + pl(o)


def rv(r):
    k = r["k"]
    if k == "Use":
        return opnd(r["op"])
    if k in ("Ref", "RawPtr", "CopyForDeref", "Discriminant"):
        return "%s%s(%s)" % (k, " mut" if r.get("mut") else "", pl(r["place"]))
    if k == "Cast":
        return "Cast[%s](%s: %s -> %s)" % (r["ck"], opnd(r["op"]), lib.norm(r["from"])[:50], lib.norm(r["to"])[:50])
    if k == "BinaryOp":
        return "%s(%s, %s)" % (r["op"], opnd(r["a"]), opnd(r["b"]))
    if k == "UnaryOp":
        return "%s(%s)" % (r["op"], opnd(r["a"]))
    if k == "Aggregate":
        what = r.get("adt") and (lib.norm(r["adt"]) + "::" + r["variant"]) or r.get("closure") and ("closure " + lib.norm(r["closure"])) or ("tuple" if r.get("tuple") else "array")
        return "%s{%s}" % (what, ", ".join(opnd(x) for x in r["ops"]))
    return k + ":" + r.get("dbg", "")


def show_mir(m):
    print("== MIR", lib.norm(m["path"]), m["dp"], m["span"], "args=%d" % m["arg_count"])
    for i, l in enumerate(m["locals"]):
        names = [v["name"] for v in m["vars"] if v["place"]["l"] == i and not v["place"]["p"]]
        print("   _%d: %s %s" % (i, lib.norm(l["ty"])[:110], names or ""))
    for i, b in enumerate(m["blocks"]):
        print(" bb%d (idom %s)%s:" % (i, b["idom"], " cleanup" if b.get("cleanup") else ""))
        for s in b["stmts"]:
            if s["k"] == "Assign":
                print("    %s = %s" % (pl(s["lhs"]), rv(s["rv"])))
            else:
                print("    %s %s" % (s["k"], pl(s["lhs"])))
        t = b.get("term")
        if t:
            k = t["k"]
            if k == "Call":
                print("    %s = call %s(%s) -> bb%s unwind %s  [%s]" % (
                    pl(t["dest"]), lib.norm(t.get("resolved") or t.get("callee") or t.get("indirect", "?")),
                    ", ".join(opnd(a) for a in t["args"]), t.get("target"), t.get("unwind"), t["sp"]))
            elif k == "SwitchInt":
                print("    switch %s %s else bb%s" % (opnd(t["discr"]), t["targets"], t["otherwise"]))
            elif k in ("Goto",):
                print("    goto bb%s" % t["target"])
            elif k == "Drop":
                print("    drop %s -> bb%s" % (pl(t["place"]), t["target"]))
            elif k == "Assert":
                print("    assert %s == %s (%s) -> bb%s" % (opnd(t["cond"]), t["expected"], t["msg"], t["target"]))
            else:
                print("    " + k)


def main():
    crate, what, rx = sys.argv[1], sys.argv[2], sys.argv[3]
    fdir, _ = extract.extract(os.environ.get("WF_SRC"))
    with open(os.path.join(fdir, crate + ".json")) as f:
        d = json.load(f)
    r = re.compile(rx)
    if what == "hir":
        for h in d["hir"]:
            if "body" in h and r.search(lib.norm(h["path"])):
                print("== HIR", lib.norm(h["path"]), h["dp"], h["span"])
                print(short(h["body"]))
    elif what == "mir":
        for m in d["mir"]:
            if r.search(lib.norm(m["path"])):
                show_mir(m)
    elif what == "mono":
        for i in d["mono"]["instances"]:
            if r.search(i["inst"]) and "mir" in i:
                print("## instance", i["id"], i["inst"])
                print("   edges:", [(e["bb"], e.get("to"), e["kind"]) for e in i["edges"]])
                show_mir(i["mir"])
    elif what == "items":
        for i in d["items"]:
            if r.search(lib.norm(i["path"])):
                print(lib.norm(i["path"]), i["dp"], i["kind"], i.get("span"))
    elif what == "adts":
        for a in d["adts"]:
            if r.search(a["path"]):
                print(json.dumps(a, indent=1))
    elif what == "impls":
        for a in d["impls"]:
            if r.search(a["path"]) or r.search(a.get("trait", "")):
                print(a["path"], "|", a.get("trait"), "|", a["self_ty"], "| derived" if a["derived"] else "", a["span"])


if __name__ == "__main__":
    main()
