"""Compile-fail witnesses: `cargo +nightly test --doc` on /verif/witness against a snapshot of the analysed tree.
Doctests are compiled only (`no_run` / `compile_fail,E0xxx`), nothing is executed."""
import json
import os
import re
import shutil
import subprocess
import time
import extract

W = os.path.join(extract.VERIF, "witness")
CHECKER_CMD = "cd /verif/witness && CARGO_TARGET_DIR=/verif/.cache/wtarget cargo +nightly test --doc --offline  (engine = snapshot of /repo in /verif/.cache/wsnap)"


def catalogue():
    """{fence line: (witness id, kind)} parsed from witness/src/lib.rs"""
    out = {}
    cur = None
    twin = False
    with open(os.path.join(W, "src", "lib.rs")) as f:
        for i, line in enumerate(f, 1):
            m = re.match(r"\s*/// ## (W\d+-[\w-]+)", line)
            if m:
                cur = m.group(1)
                continue
            if re.match(r"\s*/// twin:", line):
                twin = True
                continue
            m = re.match(r"\s*/// ```(\S+)\s*$", line)
            if m and cur:
                kind = m.group(1)
                if kind.startswith("compile_fail"):
                    out[i] = (cur, kind)
                elif kind == "no_run":
                    out[i] = (cur + ("/twin" if twin else ""), kind)
                twin = False
    return out


def run(src=None):
    """returns {'results': {witness id: bool}, 'raw': tail of output, 'cached': bool, 'wall_s': float}"""
    src = src or getattr(extract, 'CURRENT_SRC', None) or extract.REPO
    t0 = time.time()
    with extract.Lock("witness.lock"):
        extract.build_driver()
        key = extract.tree_key(src)
        with open(os.path.join(W, "src", "lib.rs"), "rb") as f:
            import hashlib
            key = key + "-" + hashlib.sha256(f.read()).hexdigest()[:12]
        cdir = os.path.join(extract.CACHE, "witness")
        os.makedirs(cdir, exist_ok=True)
        cfile = os.path.join(cdir, key + ".json")
        if os.path.exists(cfile):
            with open(cfile) as f:
                d = json.load(f)
            d["cached"] = True
            d["wall_s"] = round(time.time() - t0, 2)
            return d
        snap = os.path.join(extract.CACHE, "wsnap")
        extract.snapshot(src, snap)
        shutil.copyfile(os.path.join(src, "Cargo.lock"), os.path.join(W, "Cargo.lock"))
        env = extract._env()
        env["CARGO_TARGET_DIR"] = os.path.join(extract.CACHE, "wtarget")
        r = subprocess.run(["cargo", "+nightly", "test", "--doc", "--offline"], cwd=W, env=env,
                           stdout=subprocess.PIPE, stderr=subprocess.STDOUT, text=True)
        cat = catalogue()
        results = {}
        for line in r.stdout.splitlines():
            m = re.match(r"test src/lib\.rs - \S+ \(line (\d+)\)(?: - (compile fail|compile))? \.\.\. (\w+)", line)
            if m:
                ln = int(m.group(1))
                wid, kind = cat.get(ln, ("line-%d" % ln, "?"))
                results[wid] = (m.group(3) == "ok")
        d = {"results": results, "expected": sorted(set(v[0] for v in cat.values())), "returncode": r.returncode,
             "raw": "\n".join(r.stdout.splitlines()[-25:]), "cached": False}
        if results:
            with open(cfile, "w") as f:
                json.dump(d, f)
        # keep the cache small
        ents = sorted((os.path.getmtime(os.path.join(cdir, e)), e) for e in os.listdir(cdir))
        for _, e in ents[:-6]:
            os.remove(os.path.join(cdir, e))
        d["wall_s"] = round(time.time() - t0, 2)
        return d


def report(R, prefix, rule, src=None):
    """add one result per witness whose id starts with prefix"""
    d = run(src)
    exp = [w for w in d.get("expected", []) if w.startswith(prefix)]
    if not exp or not d["results"]:
        R.cannot(rule, "witness crate", "doctests did not run: " + d.get("raw", "")[-400:])
        return d
    for w in exp:
        ok = d["results"].get(w)
        base = w.split("/")[0]
        is_twin = w.endswith("/twin")
        if ok is None:
            R.cannot(rule, w, "witness did not run")
        elif ok:
            R.ok(rule, "witness", w + (" compiles (twin)" if is_twin else " behaves as required"))
        else:
            R.violation(rule, "witness", w,
                        ("the twin no longer compiles: the witness would pass for the wrong reason" if is_twin else
                         "a program that must be rejected by the type checker now compiles (or fails with another error)"))
    return d
