#!/bin/bash
# Build the fact extractor and warm the dependency target directory (offline, files on disk only).
set -e
cd "$(dirname "$0")"
export CARGO_NET_OFFLINE=true
(cd driver && cargo build --release --offline 2>&1 | tail -3)
python3 rules/extract.py >/dev/null
python3 -c "import sys; sys.path.insert(0,'rules'); import witness; d=witness.run(); assert d['results'], d.get('raw')" 
echo "setup ok"
