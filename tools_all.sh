#!/bin/bash
cd /verif; for i in $(seq -w 1 20); do ./check C$i "$@" 2>&1 | grep -E "^VIOLATION|tier=" | cut -c1-250; done
