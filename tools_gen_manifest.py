#!/usr/bin/env python3
"""Regenerate MANIFEST.json from the per-property table below (kept next to the rules)."""
import json, os
V = os.path.dirname(os.path.abspath(__file__))
ids = [json.loads(l)["id"] for l in open(os.path.join(V, "properties.jsonl"))]

CLAIMS = {}
def claim(pid, text, note, technique, category="other", design="DESIGN.md §5 " ):
    CLAIMS[pid] = dict(text=text, note=note, technique=technique, category=category, design=design + pid)

exec(open(os.path.join(V, "claims.py")).read())

NOT_APPLICABLE = globals().get("NOT_APPLICABLE", {})
# properties whose rule modules go through rules/sem.py
SEM_BASED = {pid for pid in ids if os.path.exists(os.path.join(V, "rules", pid + ".py")) and
             "sem." in open(os.path.join(V, "rules", pid + ".py")).read()}
checks = []
for pid in ids:
    if pid not in CLAIMS:
        continue
    c = CLAIMS[pid]
    checks.append({
        "property_id": pid,
        "quick_cmd": "./check %s --tier quick" % pid,
        "thorough_cmd": "./check %s --tier thorough" % pid,
        "evidence_file": "/verif/evidence/%s.json" % pid,
        "replay_cmd_template": "./check %s --replay {path}" % pid,
        "engine": "wf-facts+rules",
        "level_claimed": {"category": c["category"], "text": c["text"], "design_ref": c["design"]},
        "level_note": c["note"],
        "technique": c["technique"] + ("; guards and tables are read from path conditions over the resolved HIR (match/if-let/let-else/early "
                                       "return/`?`/matches! alike, private same-file helpers inlined, locals resolved to their definitions); thorough tier re-runs "
                                       "the rules on renamed and on mechanically rewritten facts (rules/renamefuzz.py, rules/shapefuzz.py) and on the "
                                       "property's mutants"
                                       if pid in SEM_BASED else ""),
    })
m = {
    "version": 1,
    "setup_cmd": "./setup.sh",
    "hooks": {"guard": "cloudflare_wirefilter_verif",
              "enable": "none: the static analysis needs no instrumentation; checks analyse /repo's working tree as built with default features",
              "baseline_off_cmd": "cd /repo && (cargo nextest run --workspace --no-fail-fast --offline || cargo test --workspace --no-fail-fast --offline)",
              "source_commits": [], "add_only": True},
    "engines": [{"name": "wf-facts+rules", "path": "driver/ rules/ check",
                 "serves_properties": [c["property_id"] for c in checks],
                 "kind_free_text": "static analysis: nightly rustc_private driver extracts resolved HIR, MIR (CFG, dominators, casts, resolved callees), ADT/impl/static tables and a monomorphic call graph from a snapshot of /repo; Python rules (tables, path conditions / dominance, who-may-write, call-graph reachability, sibling agreement) decide each property; compile_fail witnesses for type-level clauses"}],
    "checks": checks,
    "not_applicable": [{"property_id": i, "reason": NOT_APPLICABLE.get(i, "check under construction (see DESIGN.md); not claimed yet")} for i in ids if i not in CLAIMS],
    "notes": "All checks share one fact extraction per tree (cached by content hash of /repo's working tree). Genuine defects found and repaired are listed in known_findings.json (status fixed); unrepaired ones are status known and printed as KNOWN-FINDING.",
}
json.dump(m, open(os.path.join(V, "MANIFEST.json"), "w"), indent=1)
print("claimed:", [c["property_id"] for c in checks])
