#!/usr/bin/env python3
"""dev/selftest helper: apply one textual edit (or a patch file) to a scratch copy of /repo and run checks on it.

usage: tools_mutant.py --file engine/src/x.rs --old 'text' --new 'text' C13 [C05 ...]
       tools_mutant.py --patch some.diff C13
prints the VIOLATION keys each check reports on the mutated tree (the scratch copy is removed afterwards)."""
import argparse, os, shutil, subprocess, sys, tempfile
V = os.path.dirname(os.path.abspath(__file__))
ap = argparse.ArgumentParser()
ap.add_argument("--file"); ap.add_argument("--old"); ap.add_argument("--new"); ap.add_argument("--patch")
ap.add_argument("--count", type=int, default=1)
ap.add_argument("props", nargs="+")
a = ap.parse_args()
d = tempfile.mkdtemp(prefix="wfmut-")
try:
    subprocess.check_call(["rsync", "-a", "--exclude", "target", "--exclude", ".git", "/repo/", d + "/"])
    if a.patch:
        subprocess.check_call(["patch", "-p1", "-s", "-d", d, "-i", os.path.abspath(a.patch)])
    else:
        p = os.path.join(d, a.file)
        s = open(p).read()
        if s.count(a.old) < 1:
            print("MUTANT STALE: text not found"); sys.exit(2)
        if a.count and s.count(a.old) != a.count:
            print("MUTANT AMBIGUOUS: %d occurrences" % s.count(a.old)); sys.exit(2)
        open(p, "w").write(s.replace(a.old, a.new))
    rc = 0
    for pr in a.props:
        r = subprocess.run([os.path.join(V, "check"), pr, "--src", d, "--no-evidence"], stdout=subprocess.PIPE, stderr=subprocess.STDOUT, text=True)
        lines = [l for l in r.stdout.splitlines() if l.startswith("VIOLATION") or l.startswith(pr) or "cargo check" in l or "error" in l.lower()]
        print("\n".join(l[:400] for l in lines[:12]))
        rc = rc or r.returncode
    sys.exit(0)
finally:
    shutil.rmtree(d, ignore_errors=True)
