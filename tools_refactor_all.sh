#!/bin/bash
# usage: tools_refactor_all.sh [glob, e.g. "*3-*"]
# dev helper: run every check with --src on every scratch tree /tmp/rf/<G>-<r> (see tools_refactor_trees.sh); prints false alarms
cd /verif
PAT=${1:-*}
for D in /tmp/rf/$PAT; do
  echo "### $(basename $D)"
  for p in $(seq -f "C%02g" 1 20); do ./check $p --src $D --no-evidence 2>&1 | grep -E "^VIOLATION|does not build|Traceback|Error" | cut -c1-300 | sed "s/^/$p: /"; done
done
echo FINISHED
