#!/bin/bash
# usage: tools_refactor_all.sh [glob, e.g. "*3-*"] [jobs]
# dev helper: run every check with --src on every scratch tree /tmp/rf/<G>-<r> (see tools_refactor_trees.sh); prints false alarms
cd /verif
PAT=${1:-*}
JOBS=${2:-6}
one() {
  D=$1
  out="### $(basename $D)"
  for p in $(seq -f "C%02g" 1 20); do
    r=$(./check $p --src $D --no-evidence 2>&1 | grep -E "^VIOLATION|does not build|Traceback|Error" | cut -c1-300 | sed "s/^/$p: /")
    [ -n "$r" ] && out="$out"$'\n'"$r"
  done
  echo "$out"
}
export -f one
ls -d /tmp/rf/$PAT | xargs -P $JOBS -I{} bash -c 'one {}'
echo FINISHED
