#!/bin/bash
# usage: tools_refactor_check.sh <patch.diff> [PROPS...] — applies a (behaviour-preserving) patch to a scratch copy of /repo and runs
# the checks on it with --src; prints every violation (= false alarm). Scratch copy removed afterwards.
P=$(readlink -f $1); shift
D=$(mktemp -d /tmp/rfchk-XXXX)
rsync -a --exclude target --exclude .git /repo/ $D/
(cd $D && patch -p1 -s < $P) || { echo "PATCH FAILED"; rm -rf $D; exit 3; }
PROPS="$@"; [ -z "$PROPS" ] && PROPS=$(seq -f "C%02g" 1 20)
cd /verif
for p in $PROPS; do ./check $p --src $D --no-evidence 2>&1 | grep -E "^VIOLATION|does not build|error\[" | cut -c1-420 | sed "s/^/$p: /"; done
rm -rf $D
