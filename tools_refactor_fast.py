#!/usr/bin/env python3
"""dev: tools_refactor_fast.py [glob] [jobs] — like tools_refactor_all.sh, but loads the facts of each scratch tree once and runs
all 20 rule modules on them in one process (about 10x faster). Prints `### <tree>` and the false alarms."""
import sys, os, glob, json, importlib, io, contextlib, traceback
from multiprocessing import Pool
V = os.path.dirname(os.path.abspath(__file__))
sys.path.insert(0, os.path.join(V, "rules"))
PROPS = ["C%02d" % i for i in range(1, 21)]


def known_keys():
    try:
        k = json.load(open(os.path.join(V, "known_findings.json")))
        ents = k.get("findings", k.get("entries", [])) if isinstance(k, dict) else k
        return {e["key"] for e in ents if e.get("status") == "known"}
    except Exception:
        return set()


def one(d):
    import extract, lib
    out = ["### " + os.path.basename(d)]
    known = known_keys()
    try:
        extract.CURRENT_SRC = d
        with contextlib.redirect_stdout(io.StringIO()):
            fdir, info = extract.extract(d)
        raw = extract.load(fdir)
        F = lib.Facts(raw)
    except Exception as e:
        return "\n".join(out + ["  extraction failed: %s" % e])
    for p in PROPS:
        rep = lib.Report()
        try:
            mod = importlib.import_module(p)
            with contextlib.redirect_stdout(io.StringIO()):
                mod.run(F, rep, "quick")
        except Exception as e:
            out.append("%s: EXC %s: %s | %s" % (p, type(e).__name__, e, traceback.format_exc().strip().splitlines()[-3].strip()))
            continue
        seen = set()
        for r in rep.results:
            if r.status in ("violation", "cannot-decide") and r.key not in known and r.key not in seen:
                seen.add(r.key)
                out.append("%s: VIOLATION key=%s" % (p, r.key[:260]))
    return "\n".join(out)


if __name__ == "__main__":
    pat = sys.argv[1] if len(sys.argv) > 1 else "*"
    jobs = int(sys.argv[2]) if len(sys.argv) > 2 else 8
    dirs = sorted(glob.glob("/tmp/rf/" + pat))
    with Pool(jobs) as pool:
        for res in pool.imap_unordered(one, dirs):
            print(res, flush=True)
    print("FINISHED")
