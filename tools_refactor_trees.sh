#!/bin/bash
# dev helper: materialise every refactors/<G>/<r>.diff as a scratch tree /tmp/rf/<G>-<r> and extract its facts
# (WF_FACTS_KEEP keeps them all cached). Remove /tmp/rf when done.
# cache size: .cache/keep (set it above the number of trees)
mkdir -p /tmp/rf
for f in /verif/refactors/*/r*.diff; do
  g=$(basename $(dirname $f)); r=$(basename $f .diff); D=/tmp/rf/$g-$r
  if [ ! -d $D ]; then
    mkdir -p $D; rsync -a --exclude target --exclude .git /repo/ $D/
    (cd $D && patch -p1 -s < $f) || { echo "PATCH FAILED $f"; rm -rf $D; continue; }
  fi
  python3 /verif/rules/extract.py $D | tail -1
done
echo TREES-DONE
