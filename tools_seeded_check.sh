#!/bin/bash
# usage: tools_seeded_check.sh <seeded dir> <PROP> [<PROP>...] — applies the patch to /repo, runs the checks, reverts
SD=$1; shift
cd /repo && git apply $SD/patch.diff || exit 3
for p in "$@"; do (cd /verif && ./check $p --no-evidence 2>&1 | grep -E "^VIOLATION|^  rule=|tier=" | cut -c1-330); done
cd /repo && git checkout -q -- . && git status --short | head -3
