#!/bin/bash
# usage: tools_seeded_verify.sh <worktree> <seeded dir>   — confirms a seeded change: demo passes without it,
# the 156 baseline tests pass with it, the demo fails with it. Leaves the worktree reverted.
WT=$1; SD=$2
export CARGO_NET_OFFLINE=true CARGO_TARGET_DIR=$WT/target
cd $WT || exit 2
git checkout -q -- . 
DEMO=$(ls $SD/*.rs | head -1); 
PKG=engine; grep -q "wirefilter_ffi\|ffi" $SD/meta.json && grep -q '"ffi/' $SD/meta.json && PKG=ffi
mkdir -p $WT/$PKG/tests; cp $DEMO $WT/$PKG/tests/seeded_demo.rs
echo "== original: demo must pass"
cargo nextest run --workspace --no-fail-fast --offline 2>&1 | grep -E "Summary|FAIL \[" | head -5
git apply $SD/patch.diff || { echo "PATCH DOES NOT APPLY"; exit 3; }
echo "== with change: baseline passes, demo fails"
cargo nextest run --workspace --no-fail-fast --offline 2>&1 | grep -E "Summary|FAIL \[|error(\[|:)" | sort | uniq | head -8
git checkout -q -- .
