#!/usr/bin/env python3
"""dev: tools_shapefuzz.py [Cxx ...] — run the checks on the facts of /repo and on shape-fuzzed copies; print verdict differences"""
import sys, os, copy, importlib, io, contextlib
sys.path.insert(0, os.path.join(os.path.dirname(os.path.abspath(__file__)), "rules"))
import extract, lib, shapefuzz

props = sys.argv[1:] or ["C%02d" % i for i in range(1, 21)]
extract.CURRENT_SRC = None
fdir, info = extract.extract(None)
raw = extract.load(fdir)


def verdicts(F, pid):
    rep = lib.Report()
    mod = importlib.import_module(pid)
    try:
        with contextlib.redirect_stdout(io.StringIO()):
            mod.run(F, rep, "quick")
    except Exception as e:
        import traceback
        traceback.print_exc()
        return {("EXC %s: %s" % (type(e).__name__, e), "cannot-decide")}
    return {(r.key, r.status) for r in rep.results}


base = {p: verdicts(lib.Facts(copy.deepcopy(raw)), p) for p in props}
for mode, fn in shapefuzz.MODES.items():
    raw2, n = fn(copy.deepcopy(raw))
    F2 = lib.Facts(raw2)
    print("== %s (%d rewrites)" % (mode, n))
    for p in props:
        d = sorted(base[p] ^ verdicts(F2, p))
        for k, s in d:
            print("  %s %-14s %s" % (p, s, k[:200]))
