//! Type-level witnesses (K8): each `compile_fail,E0xxx` doctest has a compiling twin (`no_run`) that differs
//! only by the offending line, so a witness cannot pass merely because a path is wrong. Doctests are compiled by
//! rustdoc against the *current* engine source (snapshot of /repo); nothing is executed.

/// # W18 — concurrency witnesses (C18)
///
/// ## W18-sendsync: everything a user shares between threads is `Send + Sync`
/// ```no_run
/// fn shared<T: Send + Sync>() {}
/// shared::<wirefilter::Filter<()>>();
/// shared::<wirefilter::FilterValue<()>>();
/// shared::<wirefilter::CompiledExpr<()>>();
/// shared::<wirefilter::CompiledOneExpr<()>>();
/// shared::<wirefilter::CompiledVecExpr<()>>();
/// shared::<wirefilter::CompiledValueExpr<()>>();
/// shared::<wirefilter::Scheme>();
/// shared::<wirefilter::SchemeBuilder>();
/// shared::<wirefilter::FilterAst>();
/// shared::<wirefilter::FilterValueAst>();
/// shared::<wirefilter::ExecutionContext<'static, ()>>();
/// shared::<wirefilter::Regex>();
/// shared::<wirefilter::FunctionDefinitionContext>();
/// shared::<wirefilter::FunctionCallExpr>();
/// shared::<wirefilter::LhsValue<'static>>();
/// ```
///
/// ## W18-execute-shared: execution takes the filter and the context by shared reference
/// ```no_run
/// fn run(f: &wirefilter::Filter<()>, ctx: &wirefilter::ExecutionContext<'_, ()>) -> bool {
///     let f2: &wirefilter::Filter<()> = f; // still usable: `execute` borrowed, did not consume
///     f.execute(ctx).unwrap() && f2.execute(ctx).unwrap()
/// }
/// ```
///
/// ## W18-closure-one: a compiled scalar expression cannot capture thread-unsafe state
/// ```compile_fail,E0277
/// let rc = std::rc::Rc::new(true);
/// let _ = wirefilter::CompiledOneExpr::<()>::new(move |_ctx| *rc);
/// ```
/// twin:
/// ```no_run
/// let rc = std::sync::Arc::new(true);
/// let _ = wirefilter::CompiledOneExpr::<()>::new(move |_ctx| *rc);
/// ```
///
/// ## W18-closure-one-sync: ... in particular state that is `Send` but not `Sync` (a `Cell`)
/// ```compile_fail,E0277
/// let c = std::cell::Cell::new(true);
/// let _ = wirefilter::CompiledOneExpr::<()>::new(move |_ctx| c.get());
/// ```
/// twin:
/// ```no_run
/// let c = std::sync::atomic::AtomicBool::new(true);
/// let _ = wirefilter::CompiledOneExpr::<()>::new(move |_ctx| c.load(std::sync::atomic::Ordering::Relaxed));
/// ```
///
/// ## W18-closure-one-send: ... and state that is `Sync` but not `Send` (a mutex guard)
/// ```compile_fail,E0277
/// static M: std::sync::Mutex<bool> = std::sync::Mutex::new(true);
/// let g = M.lock().unwrap();
/// let _ = wirefilter::CompiledOneExpr::<()>::new(move |_ctx| *g);
/// ```
/// twin:
/// ```no_run
/// static M: std::sync::Mutex<bool> = std::sync::Mutex::new(true);
/// let _ = wirefilter::CompiledOneExpr::<()>::new(move |_ctx| *M.lock().unwrap());
/// ```
///
/// ## W18-closure-vec
/// ```compile_fail,E0277
/// let rc = std::rc::Rc::new(true);
/// let _ = wirefilter::CompiledVecExpr::<()>::new(move |_ctx| { let _ = *rc; wirefilter::TypedArray::new() });
/// ```
/// twin:
/// ```no_run
/// let rc = std::sync::Arc::new(true);
/// let _ = wirefilter::CompiledVecExpr::<()>::new(move |_ctx| { let _ = *rc; wirefilter::TypedArray::new() });
/// ```
///
/// ## W18-closure-value
/// ```compile_fail,E0277
/// let cell = std::cell::Cell::new(0i64);
/// let _ = wirefilter::CompiledValueExpr::<()>::new(move |_ctx| { cell.set(cell.get() + 1); Ok(wirefilter::LhsValue::Int(cell.get())) });
/// ```
/// twin:
/// ```no_run
/// let cell = std::sync::atomic::AtomicI64::new(0);
/// let _ = wirefilter::CompiledValueExpr::<()>::new(move |_ctx| { Ok(wirefilter::LhsValue::Int(cell.load(std::sync::atomic::Ordering::Relaxed))) });
/// ```
///
/// ## W18-compare: a comparator must be `Send + Sync`
/// ```compile_fail,E0277
/// struct Counter(std::cell::Cell<u64>);
/// impl wirefilter::Compare<()> for Counter {
///     fn compare<'e>(&self, _: &wirefilter::LhsValue<'e>, _: &'e wirefilter::ExecutionContext<'e, ()>) -> bool { self.0.set(self.0.get() + 1); true }
/// }
/// ```
/// twin:
/// ```no_run
/// struct Counter(std::sync::atomic::AtomicU64);
/// impl wirefilter::Compare<()> for Counter {
///     fn compare<'e>(&self, _: &wirefilter::LhsValue<'e>, _: &'e wirefilter::ExecutionContext<'e, ()>) -> bool { true }
/// }
/// ```
///
/// ## W18-function-definition: user functions must be `Send + Sync`
/// ```compile_fail,E0277
/// use wirefilter::*;
/// #[derive(Debug)]
/// struct F(std::rc::Rc<u8>);
/// impl FunctionDefinition for F {
///     fn check_param(&self, _: &ParserSettings, _: &mut dyn ExactSizeIterator<Item = FunctionParam<'_>>, _: &FunctionParam<'_>, _: Option<&mut FunctionDefinitionContext>) -> Result<(), FunctionParamError> { Ok(()) }
///     fn return_type(&self, _: &mut dyn ExactSizeIterator<Item = FunctionParam<'_>>, _: Option<&FunctionDefinitionContext>) -> Type { Type::Bool }
///     fn arg_count(&self) -> (usize, Option<usize>) { (0, Some(0)) }
///     fn compile(&self, _: &mut dyn ExactSizeIterator<Item = FunctionParam<'_>>, _: Option<FunctionDefinitionContext>) -> CompiledFunction { Box::new(|_| None) }
/// }
/// ```
/// twin:
/// ```no_run
/// use wirefilter::*;
/// #[derive(Debug)]
/// struct F(std::sync::Arc<u8>);
/// impl FunctionDefinition for F {
///     fn check_param(&self, _: &ParserSettings, _: &mut dyn ExactSizeIterator<Item = FunctionParam<'_>>, _: &FunctionParam<'_>, _: Option<&mut FunctionDefinitionContext>) -> Result<(), FunctionParamError> { Ok(()) }
///     fn return_type(&self, _: &mut dyn ExactSizeIterator<Item = FunctionParam<'_>>, _: Option<&FunctionDefinitionContext>) -> Type { Type::Bool }
///     fn arg_count(&self) -> (usize, Option<usize>) { (0, Some(0)) }
///     fn compile(&self, _: &mut dyn ExactSizeIterator<Item = FunctionParam<'_>>, _: Option<FunctionDefinitionContext>) -> CompiledFunction { Box::new(|_| None) }
/// }
/// ```
///
/// ## W18-compiled-function: the closure a function compiles to must be `Send + Sync`
/// ```compile_fail,E0277
/// let rc = std::rc::Rc::new(1u8);
/// let _f: wirefilter::CompiledFunction = Box::new(move |_args| { let _ = *rc; None });
/// ```
/// twin:
/// ```no_run
/// let rc = std::sync::Arc::new(1u8);
/// let _f: wirefilter::CompiledFunction = Box::new(move |_args| { let _ = *rc; None });
/// ```
///
/// ## W18-context-data: a function-definition context must hold `Send + Sync` data
/// ```compile_fail,E0277
/// let _ = wirefilter::FunctionDefinitionContext::new(std::rc::Rc::new(1u8));
/// ```
/// twin:
/// ```no_run
/// let _ = wirefilter::FunctionDefinitionContext::new(std::sync::Arc::new(1u8));
/// ```
pub struct W18;

/// # W08 — typed stores (C08)
///
/// ## W08-private-values: the value slots of a context cannot be written from outside
/// ```compile_fail,E0616
/// let scheme = wirefilter::SchemeBuilder::new().build();
/// let mut ctx = wirefilter::ExecutionContext::<()>::new(&scheme);
/// ctx.values = Vec::new().into();
/// ```
/// twin:
/// ```no_run
/// let scheme = wirefilter::SchemeBuilder::new().build();
/// let mut ctx = wirefilter::ExecutionContext::<()>::new(&scheme);
/// ctx.clear();
/// ```
///
/// ## W08-array-no-push: a loosely typed array has no unchecked insertion
/// ```compile_fail,E0599
/// let mut a = wirefilter::Array::new(wirefilter::Type::Int);
/// a.push(wirefilter::LhsValue::Bool(true));
/// ```
/// twin:
/// ```no_run
/// let a = wirefilter::Array::new(wirefilter::Type::Int);
/// let _ = a.len();
/// ```
///
/// ## W08-array-data-private: the storage of an array is not reachable from outside the crate
/// ```compile_fail,E0616
/// let a = wirefilter::Array::new(wirefilter::Type::Int);
/// let _ = &a.data;
/// ```
///
/// ## W08-typed-push: a typed array only accepts its element type
/// ```compile_fail,E0308
/// let mut a = wirefilter::TypedArray::<i64>::new();
/// a.push(true);
/// ```
/// twin:
/// ```no_run
/// let mut a = wirefilter::TypedArray::<i64>::new();
/// a.push(1i64);
/// ```
///
/// ## W08-map-no-insert: a loosely typed map has no unchecked insertion
/// ```compile_fail,E0599
/// let mut m = wirefilter::Map::new(wirefilter::Type::Int);
/// m.insert(b"k", wirefilter::LhsValue::Bool(true));
/// ```
/// twin:
/// ```no_run
/// let m = wirefilter::Map::new(wirefilter::Type::Int);
/// let _ = m.len();
/// ```
///
/// ## W08-filter-private: a filter's scheme binding cannot be replaced
/// ```compile_fail,E0616
/// fn f(filter: &mut wirefilter::Filter<()>, s: wirefilter::Scheme) { filter.scheme = s; }
/// ```
pub struct W08;

/// # W16 — scheme registry (C16)
///
/// ## W16-immutable-scheme: a built scheme cannot register anything
/// ```compile_fail,E0599
/// let scheme = wirefilter::SchemeBuilder::new().build();
/// scheme.add_field("x", wirefilter::Type::Int);
/// ```
/// twin:
/// ```no_run
/// let mut b = wirefilter::SchemeBuilder::new();
/// let _ = b.add_field("x", wirefilter::Type::Int);
/// ```
///
/// ## W16-private-registry: the registry collections are private
/// ```compile_fail,E0616
/// let mut b = wirefilter::SchemeBuilder::new();
/// b.fields.clear();
/// ```
///
/// ## W16-fieldref-opaque: a field reference cannot be forged from an index
/// ```compile_fail,E0451
/// let scheme = wirefilter::SchemeBuilder::new().build();
/// let _ = wirefilter::FieldRef { scheme: &scheme, index: 7 };
/// ```
pub struct W16;
